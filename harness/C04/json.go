//go:build verif

//verif:package .

package ct

import (
	"bytes"
	"encoding/base64"
	"encoding/json"
)

// Harness_C04_apiConversions: the JSON API messages convert to the internal structures without
// loss, and refuse wrong lengths and trailing bytes.
//
//verif:opt maxpaths=6000 reach=sth-ok,sth-bad,sct-ok,sct-bad
func Harness_C04_apiConversions() {
	hl := []int{0, 31, 32, 33}[vChoice("hash-len", 4)]
	sig := vBytes("sig", vChoice("sig-len", 3))
	h, a := vU8("hash-alg"), vU8("sig-alg")
	ds := rfcDigitallySigned(h, a, sig)
	trailing := vChoice("trailing", 2) == 1
	truncated := vChoice("truncated", 2) == 1
	wire := ds
	if trailing {
		wire = append(append([]byte{}, ds...), vU8("junk"))
	} else if truncated {
		wire = ds[:len(ds)-1]
	}
	root := vBytes("root", hl)
	r := GetSTHResponse{TreeSize: vU64("size"), Timestamp: vU64("ts"), SHA256RootHash: root, TreeHeadSignature: wire}
	sth, err := r.ToSignedTreeHead()
	if hl == 32 && !trailing && !truncated {
		vAssert(err == nil, "well-formed get-sth response converts")
		if err == nil {
			vAssert(sth.TreeSize == r.TreeSize && sth.Timestamp == r.Timestamp && bytes.Equal(sth.SHA256RootHash[:], root), "STH fields carried over")
			vAssert(byte(sth.TreeHeadSignature.Algorithm.Hash) == h && byte(sth.TreeHeadSignature.Algorithm.Signature) == a && bytes.Equal(sth.TreeHeadSignature.Signature, sig), "signature carried over")
		}
		vReach("sth-ok")
	} else {
		vAssert(err != nil && sth == nil, "wrong hash length, trailing or truncated signature bytes refused")
		vReach("sth-bad")
	}
	id := vBytes("id", hl)
	ar := AddChainResponse{SCTVersion: Version(vU8("version")), ID: id, Timestamp: vU64("sct-ts"), Extensions: []string{"", "!!", "AAAA", "8A==", "8PE="}[vChoice("ext", 5)], Signature: wire}
	sct, err := ar.ToSignedCertificateTimestamp()
	if hl == 32 && !trailing && !truncated && ar.Extensions != "!!" {
		vAssert(err == nil, "well-formed add-chain response converts")
		if err == nil {
			vAssert(sct.SCTVersion == ar.SCTVersion && sct.Timestamp == ar.Timestamp && bytes.Equal(sct.LogID.KeyID[:], id), "SCT fields carried over")
			vAssert(bytes.Equal(sct.Signature.Signature, sig) && byte(sct.Signature.Algorithm.Hash) == h, "signature carried over")
			// extensions of 0, 3, 1 and 2 bytes: no, no, two and one padding character in the RFC's base64
			wantExt := map[string]string{"": "", "AAAA": "\x00\x00\x00", "8A==": "\xf0", "8PE=": "\xf0\xf1"}[ar.Extensions]
			vAssert(string(sct.Extensions) == wantExt, "base64 extensions decoded, whatever their padding")
		}
		vReach("sct-ok")
	} else {
		vAssert(err != nil && sct == nil, "wrong id length, bad base64, trailing or truncated signature bytes refused")
		vReach("sct-bad")
	}
}

// Harness_C04_dsBase64: the base64 / JSON forms of DigitallySigned promise a complete parse.
//
//verif:opt maxpaths=2000 reach=ok,bad
func Harness_C04_dsBase64() {
	sigLen := vChoice("sig-len", 3)
	sig := []byte{0xa1, 0xa2}[:sigLen]
	wire := rfcDigitallySigned(4, 3, sig)
	shape := vChoice("shape", 3) // exact | trailing byte | truncated
	switch shape {
	case 1:
		wire = append(append([]byte{}, wire...), 0x00)
	case 2:
		wire = wire[:len(wire)-1]
	}
	b64 := base64.StdEncoding.EncodeToString(wire)
	var d DigitallySigned
	err := d.FromBase64String(b64)
	if shape == 0 {
		vAssert(err == nil && byte(d.Algorithm.Hash) == 4 && byte(d.Algorithm.Signature) == 3 && bytes.Equal(d.Signature, sig), "exact encoding accepted with the right fields")
		back, berr := d.Base64String()
		vAssert(berr == nil && back == b64, "converts back without loss")
		vReach("ok")
	} else {
		vAssert(err != nil, "trailing or missing bytes refused by FromBase64String")
		vReach("bad")
	}
}

var _ = json.Marshal
