//go:build verif

//verif:package .

package ct

import (
	"bytes"
	"crypto/sha256"

	"github.com/google/certificate-transparency-go/tls"
	"github.com/google/certificate-transparency-go/x509"
)

func c04Len(name string, quick []int, thorough []int) int {
	return quick[vChoice(name, len(quick))]
}

// c04Entry builds a symbolic TimestampedEntry of either type and returns the raw parts.
func c04Entry() (te TimestampedEntry, precert bool, cert, ikh, tbs, ext []byte) {
	te.Timestamp = vU64("timestamp")
	ext = vBytes("ext", vChoice("ext-len", 3))
	te.Extensions = ext
	if vChoice("entry-type", 2) == 1 {
		precert = true
		ikh = vBytes("issuer-key-hash", 32)
		tbs = vBytes("tbs", 1+vChoice("tbs-len", 3))
		pc := &PreCert{TBSCertificate: tbs}
		copy(pc.IssuerKeyHash[:], ikh)
		te.EntryType = PrecertLogEntryType
		te.PrecertEntry = pc
	} else {
		cert = vBytes("cert", 1+vChoice("cert-len", 3))
		te.EntryType = X509LogEntryType
		te.X509Entry = &ASN1Cert{Data: cert}
	}
	return
}

// Harness_C04_leaf: MerkleTreeLeaf encoding, leaf hash and SCT signature input equal the RFC.
//
//verif:opt maxpaths=3000 reach=x509,precert
func Harness_C04_leaf() {
	te, precert, cert, ikh, tbs, ext := c04Entry()
	leaf := MerkleTreeLeaf{Version: V1, LeafType: TimestampedEntryLeafType, TimestampedEntry: &te}
	got, err := tls.Marshal(leaf)
	want := rfcMerkleTreeLeaf(te.Timestamp, precert, cert, ikh, tbs, ext)
	vAssert(err == nil && bytes.Equal(got, want), "MerkleTreeLeaf encoding equals RFC 6962 3.4")
	h, err := LeafHashForLeaf(&leaf)
	ref := sha256.Sum256(append([]byte{0x00}, want...))
	vAssert(err == nil && h == ref, "leaf hash is SHA-256(0x00 || MerkleTreeLeaf)")
	// the signed timestamp and extensions are the SCT's own, the entry comes from the leaf
	sctTS, sctExt := vU64("sct-timestamp"), vBytes("sct-ext", vChoice("sct-ext-len", 3))
	sct := SignedCertificateTimestamp{SCTVersion: V1, Timestamp: sctTS, Extensions: sctExt}
	in, err := SerializeSCTSignatureInput(sct, LogEntry{Leaf: leaf})
	vAssert(err == nil && bytes.Equal(in, rfcSCTSignatureInput(sctTS, precert, cert, ikh, tbs, sctExt)), "SCT signature input equals RFC 6962 3.2 (the SCT's timestamp and extensions, the leaf's entry)")
	// decode side: exactly these bytes decode to the same leaf with nothing left over
	var back MerkleTreeLeaf
	rest, err := tls.Unmarshal(want, &back)
	vAssert(err == nil && len(rest) == 0, "the RFC encoding decodes completely")
	if err == nil {
		vAssert(back.TimestampedEntry.Timestamp == te.Timestamp && back.TimestampedEntry.EntryType == te.EntryType, "decoded fields")
	}
	if precert {
		vReach("precert")
	} else {
		vReach("x509")
	}
}

// Harness_C04_versions: signature inputs are refused for unknown versions, STH input for a
// root hash of the wrong length is impossible by type, unknown entry types are refused.
//
//verif:opt maxpaths=3000 reach=v1,other
func Harness_C04_versions() {
	v := Version(vU8("version"))
	te, _, _, _, _, _ := c04Entry()
	leaf := MerkleTreeLeaf{Version: V1, LeafType: TimestampedEntryLeafType, TimestampedEntry: &te}
	_, err := SerializeSCTSignatureInput(SignedCertificateTimestamp{SCTVersion: v, Timestamp: te.Timestamp}, LogEntry{Leaf: leaf})
	sth := SignedTreeHead{Version: v, TreeSize: vU64("size"), Timestamp: vU64("ts")}
	root := vBytes("root", 32)
	copy(sth.SHA256RootHash[:], root)
	in, serr := SerializeSTHSignatureInput(sth)
	if v == V1 {
		vAssert(err == nil, "v1 SCT input accepted")
		vAssert(serr == nil && bytes.Equal(in, rfcSTHSignatureInput(sth.Timestamp, sth.TreeSize, root)), "STH signature input equals RFC 6962 3.5")
		vReach("v1")
	} else {
		vAssert(err != nil && serr != nil, "signature inputs refused for unknown versions")
		vReach("other")
	}
	te.EntryType = LogEntryType(vU16("bad-type"))
	vAssume(te.EntryType != X509LogEntryType && te.EntryType != PrecertLogEntryType)
	_, err = SerializeSCTSignatureInput(SignedCertificateTimestamp{SCTVersion: V1}, LogEntry{Leaf: leaf})
	vAssert(err != nil, "SCT signature input refused for unknown entry types")
}

// Harness_C04_sct: SignedCertificateTimestamp, DigitallySigned and the SCT list.
//
//verif:opt maxpaths=3000 reach=done
func Harness_C04_sct() {
	keyID := vBytes("log-id", 32)
	ext := vBytes("ext", vChoice("ext-len", 3))
	sig := vBytes("sig", vChoice("sig-len", 3))
	h, a := vU8("hash-alg"), vU8("sig-alg")
	sct := SignedCertificateTimestamp{SCTVersion: V1, Timestamp: vU64("ts"), Extensions: ext,
		Signature: DigitallySigned{Algorithm: tls.SignatureAndHashAlgorithm{Hash: tls.HashAlgorithm(h), Signature: tls.SignatureAlgorithm(a)}, Signature: sig}}
	copy(sct.LogID.KeyID[:], keyID)
	got, err := tls.Marshal(sct)
	ds := rfcDigitallySigned(h, a, sig)
	want := rfcCat([]byte{0}, keyID, rfcU64(sct.Timestamp), rfcU16(uint16(len(ext))), ext, ds)
	vAssert(err == nil && bytes.Equal(got, want), "SignedCertificateTimestamp encoding equals RFC 6962 3.2")
	gds, err := tls.Marshal(sct.Signature)
	vAssert(err == nil && bytes.Equal(gds, ds), "DigitallySigned encoding equals RFC 5246 4.7")
	// SCT list: opaque SerializedSCT<1..2^16-1>; SerializedSCT sct_list<1..2^16-1>
	n := 1 + vChoice("n-scts", 2)
	var list x509.SignedCertificateTimestampList
	var inner []byte
	for i := 0; i < n; i++ {
		list.SCTList = append(list.SCTList, x509.SerializedSCT{Val: want})
		inner = rfcCat(inner, rfcU16(uint16(len(want))), want)
	}
	gl, err := tls.Marshal(list)
	vAssert(err == nil && bytes.Equal(gl, rfcCat(rfcU16(uint16(len(inner))), inner)), "SCT list encoding equals RFC 6962 3.3")
	var back SignedCertificateTimestamp
	rest, err := tls.Unmarshal(want, &back)
	vAssert(err == nil && len(rest) == 0 && back.Timestamp == sct.Timestamp && back.LogID == sct.LogID, "the RFC encoding decodes to the same SCT")
	vReach("done")
}

// Harness_C04_chains: extra-data structures.
//
//verif:opt maxpaths=3000 reach=done
func Harness_C04_chains() {
	n := vChoice("chain-len", 3)
	var entries []ASN1Cert
	var raw [][]byte
	for i := 0; i < n; i++ {
		d := vBytes("cert", 1+vChoice("cert-len", 2))
		entries = append(entries, ASN1Cert{Data: d})
		raw = append(raw, d)
	}
	if n == 0 {
		entries = []ASN1Cert{}
	}
	got, err := tls.Marshal(CertificateChain{Entries: entries})
	vAssert(err == nil && bytes.Equal(got, rfcCertChain(raw)), "CertificateChain encoding equals RFC 6962 4.6")
	pre := vBytes("precert", 1+vChoice("pre-len", 2))
	gp, err := tls.Marshal(PrecertChainEntry{PreCertificate: ASN1Cert{Data: pre}, CertificateChain: entries})
	vAssert(err == nil && bytes.Equal(gp, rfcPrecertChainEntry(pre, raw)), "PrecertChainEntry encoding equals RFC 6962 4.6")
	vReach("done")
}

// Harness_C04_decode: every byte string of up to 14 bytes: if it is accepted as a complete
// MerkleTreeLeaf + extra data, re-encoding with the RFC encoder reproduces the input; trailing
// bytes and unknown leaf / entry types are errors.
//
//verif:opt maxpaths=20000 reach=accepted,rejected wall=600
func Harness_C04_decode() {
	n := 17 + vChoice("leaf-len", 4+3*vTier())
	b := vBytes("leaf", n)
	ed := vBytes("extra", 3+vChoice("extra-len", 4+3*vTier()))
	rle, err := RawLogEntryFromLeaf(7, &LeafEntry{LeafInput: b, ExtraData: ed})
	if err != nil {
		vReach("rejected")
		return
	}
	vReach("accepted")
	te := rle.Leaf.TimestampedEntry
	vAssert(b[0] == 0 || true, "version byte is carried")
	vAssert(b[1] == 0, "only leaf type timestamped_entry(0) is accepted")
	var want []byte
	switch te.EntryType {
	case X509LogEntryType:
		want = rfcMerkleTreeLeaf(te.Timestamp, false, te.X509Entry.Data, nil, nil, te.Extensions)
		var chain [][]byte
		for _, c := range rle.Chain {
			chain = append(chain, c.Data)
		}
		vAssert(bytes.Equal(ed, rfcCertChain(chain)), "extra data re-encodes to the input")
		vAssert(bytes.Equal(rle.Cert.Data, te.X509Entry.Data), "entry certificate is the leaf's certificate")
	case PrecertLogEntryType:
		want = rfcMerkleTreeLeaf(te.Timestamp, true, nil, te.PrecertEntry.IssuerKeyHash[:], te.PrecertEntry.TBSCertificate, te.Extensions)
		var chain [][]byte
		for _, c := range rle.Chain {
			chain = append(chain, c.Data)
		}
		vAssert(bytes.Equal(ed, rfcPrecertChainEntry(rle.Cert.Data, chain)), "extra data re-encodes to the input")
	default:
		vFail("unknown entry type accepted")
		return
	}
	want[0] = b[0]
	vAssert(bytes.Equal(b, want), "accepted leaf_input is exactly an RFC encoding (no trailing bytes)")
}

// Harness_C04_decodeTwice: decoding is a function of the bytes only. Two leaves (either entry
// type each) are decoded one after the other into the same destination variable; the value kept
// from the first decode is unaffected by the second one (it still re-encodes to the first
// leaf's bytes and hashes to its leaf hash), also when the second input is truncated.
//
//verif:opt maxpaths=4000 reach=kept
func Harness_C04_decodeTwice() {
	mk := func(tag string) []byte {
		ts := vU64(tag + ".timestamp")
		if vChoice(tag+".precert", 2) == 1 {
			return rfcMerkleTreeLeaf(ts, true, nil, vBytes(tag+".ikh", 32), vBytes(tag+".tbs", 1), nil)
		}
		return rfcMerkleTreeLeaf(ts, false, vBytes(tag+".cert", 1), nil, nil, nil)
	}
	a, b := mk("first"), mk("second")
	if vChoice("second-truncated", 2) == 1 {
		b = b[:len(b)-1]
	}
	var leaf MerkleTreeLeaf
	rest, err := tls.Unmarshal(a, &leaf)
	vAssert(err == nil && len(rest) == 0, "the first leaf decodes")
	first := leaf
	h1, err := LeafHashForLeaf(&first)
	vAssert(err == nil, "leaf hash of the first leaf")
	_, _ = tls.Unmarshal(b, &leaf)
	back, err := tls.Marshal(first)
	vAssert(err == nil && bytes.Equal(back, a), "the value decoded first still encodes to the first leaf's bytes after the destination was decoded into again")
	h2, err := LeafHashForLeaf(&first)
	vAssert(err == nil && h1 == h2, "and still has the first leaf's hash")
	vReach("kept")
}
