//go:build verif

//verif:package .

package ct

import (
	"bytes"

	"github.com/google/certificate-transparency-go/tls"
	"github.com/google/certificate-transparency-go/x509"
)

// Harness_C04_boundaries: the length-prefix boundaries the RFC prescribes (not the struct
// tags): an SCT list of exactly 2^16-1 bytes, CtExtensions of 2^16-1 bytes, a certificate of
// 2^16 bytes (3-byte prefix), each with symbolic first and last content byte.
//
//verif:opt maxpaths=50 steps=80000000 alloc=4000000 reach=sctlist,extensions,cert
func Harness_C04_boundaries() {
	mk := func(n int) []byte {
		b := make([]byte, n)
		b[0], b[n-1] = vU8("first"), vU8("last")
		return b
	}
	switch vChoice("structure", 3) {
	case 0:
		// opaque SerializedSCT<1..2^16-1>; SerializedSCT sct_list<1..2^16-1>: one SCT of 65533 bytes fills the list
		sct := mk(65533)
		list := x509.SignedCertificateTimestampList{SCTList: []x509.SerializedSCT{{Val: sct}}}
		got, err := tls.Marshal(list)
		want := rfcCat(rfcU16(65535), rfcU16(65533), sct)
		vAssert(err == nil && bytes.Equal(got, want), "an SCT list of 2^16-1 bytes encodes as RFC 6962 3.3 prescribes")
		var back x509.SignedCertificateTimestampList
		rest, err := tls.Unmarshal(want, &back)
		vAssert(err == nil && len(rest) == 0 && len(back.SCTList) == 1 && bytes.Equal(back.SCTList[0].Val, sct), "and decodes")
		vReach("sctlist")
	case 1:
		ext := mk(65535)
		te := TimestampedEntry{Timestamp: vU64("ts"), EntryType: X509LogEntryType, X509Entry: &ASN1Cert{Data: []byte{1}}, Extensions: ext}
		leaf := MerkleTreeLeaf{Version: V1, LeafType: TimestampedEntryLeafType, TimestampedEntry: &te}
		got, err := tls.Marshal(leaf)
		vAssert(err == nil && bytes.Equal(got, rfcMerkleTreeLeaf(te.Timestamp, false, []byte{1}, nil, nil, ext)), "CtExtensions of 2^16-1 bytes")
		vReach("extensions")
	case 2:
		cert := mk(65536)
		leaf := CreateX509MerkleTreeLeaf(ASN1Cert{Data: cert}, vU64("ts"))
		got, err := tls.Marshal(*leaf)
		vAssert(err == nil && bytes.Equal(got, rfcMerkleTreeLeaf(leaf.TimestampedEntry.Timestamp, false, cert, nil, nil, nil)), "a certificate of 2^16 bytes uses the 3-byte length prefix")
		vReach("cert")
	}
}

// Harness_C04_lowerBounds: the RFC's non-zero minimum lengths: sct_list<1..2^16-1> and
// SerializedSCT<1..2^16-1> (RFC 6962 3.3), ASN.1Cert<1..2^24-1>: the empty value is refused by
// the encoder and its would-be encoding by the decoder.
//
//verif:opt maxpaths=50 reach=checked
func Harness_C04_lowerBounds() {
	_, err := tls.Marshal(x509.SignedCertificateTimestampList{})
	vAssert(err != nil, "an empty SCT list is not encodable (sct_list<1..2^16-1>)")
	_, err = tls.Marshal(x509.SignedCertificateTimestampList{SCTList: []x509.SerializedSCT{}})
	vAssert(err != nil, "an empty SCT list is not encodable (sct_list<1..2^16-1>)")
	var l x509.SignedCertificateTimestampList
	_, err = tls.Unmarshal([]byte{0, 0}, &l)
	vAssert(err != nil, "00 00 is not an SCT list")
	_, err = tls.Marshal(x509.SignedCertificateTimestampList{SCTList: []x509.SerializedSCT{{Val: nil}}})
	vAssert(err != nil, "an empty SerializedSCT is not encodable")
	_, err = tls.Unmarshal([]byte{0, 2, 0, 0}, &l)
	vAssert(err != nil, "00 02 00 00 is not an SCT list")
	_, err = tls.Marshal(ASN1Cert{})
	vAssert(err != nil, "an empty ASN.1Cert is not encodable (<1..2^24-1>)")
	var c ASN1Cert
	_, err = tls.Unmarshal([]byte{0, 0, 0}, &c)
	vAssert(err != nil, "00 00 00 is not an ASN.1Cert")
	// lists that may be empty stay encodable
	b, err := tls.Marshal(CertificateChain{})
	vAssert(err == nil && bytes.Equal(b, []byte{0, 0, 0}), "an empty certificate chain is 00 00 00")
	vReach("checked")
}
