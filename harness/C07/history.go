//go:build verif

//verif:package trillian/ctfe

package ctfe

import (
	"context"
	"errors"
	"net/http"

	ct "github.com/google/certificate-transparency-go"
	"github.com/google/trillian"
)

// c07FlakyWriter is a client connection that may break before the body is written.
type c07FlakyWriter struct {
	envWriter
	broken bool
}

func (w *c07FlakyWriter) Write(b []byte) (int, error) {
	if w.broken {
		return 0, errors.New("write: broken pipe")
	}
	return w.envWriter.Write(b)
}

// Harness_C07_history: get-entries answers do not depend on earlier requests. Two requests for
// different ranges are served one after the other by the same log instance; the first client's
// connection may break before its body is written, or the first request may be refused. The
// second answer is one JSON document holding exactly the stored bytes of its own range.
//
//verif:opt maxpaths=4000 reach=after-ok,after-broken,after-refused
func Harness_C07_history() {
	be, rl := &envBackend{}, &envReqLog{}
	li := envLogInfo(be, rl)
	al := false
	alignGetEntries = &al
	stored := [][2][]byte{}
	for i := 0; i < 4; i++ {
		stored = append(stored, [2][]byte{vBytes("leaf-value", 2), vBytes("extra", 1)})
	}
	be.leavesRange = func(in *trillian.GetLeavesByRangeRequest) (*trillian.GetLeavesByRangeResponse, error) {
		rsp := &trillian.GetLeavesByRangeResponse{SignedLogRoot: envRootOf(4, make([]byte, 32), 1)}
		for i := in.StartIndex; i < in.StartIndex+in.Count && i < 4; i++ {
			rsp.Leaves = append(rsp.Leaves, &trillian.LogLeaf{LeafIndex: i, LeafValue: stored[i][0], ExtraData: stored[i][1]})
		}
		return rsp, nil
	}
	first := vChoice("first-request", 3) // 0: served, 1: connection breaks, 2: refused (bad range)
	w1 := &c07FlakyWriter{broken: first == 1}
	s1, e1 := int64(0), int64(1)
	if first == 2 {
		s1, e1 = 3, 2
	}
	st1, _ := getEntries(context.Background(), li, w1, c07Request(s1, e1))
	vAssert((first == 0) == (st1 == http.StatusOK), "first request: served unless the connection broke or the range was bad")
	start := int64(2 + vChoice("second-start", 2))
	end := start + int64(vChoice("second-len", 2))
	vAssume(end < 4)
	w2 := &envWriter{}
	st2, err := getEntries(context.Background(), li, w2, c07Request(start, end))
	vAssert(st2 == http.StatusOK && err == nil, "second request served")
	var got ct.GetEntriesResponse
	vAssert(vJSONDecode(w2.body, &got) == nil, "the body is one JSON document")
	vAssert(int64(len(got.Entries)) == end-start+1, "exactly the entries of the requested range")
	for i := range got.Entries {
		vAssert(string(got.Entries[i].LeafInput) == string(stored[start+int64(i)][0]) && string(got.Entries[i].ExtraData) == string(stored[start+int64(i)][1]),
			"stored leaf_input and extra_data of consecutive indices beginning at start, whatever was served before")
	}
	vReach([]string{"after-ok", "after-broken", "after-refused"}[first])
}
