//go:build verif

//verif:package trillian/ctfe

package ctfe

import (
	"net/http"
	"net/url"

	"github.com/google/trillian/monitoring"
)

func c07Request(start, end int64) *http.Request {
	return &http.Request{Method: "GET", Form: url.Values{
		getEntriesParamStart: {vDecStr(start)},
		getEntriesParamEnd:   {vDecStr(end)},
	}}
}

// Harness_C07_range: parseGetEntriesRange over all int64 start/end, every configured maximum >= 1,
// alignment on or off.
//
//verif:opt maxpaths=200 assertto=120
func Harness_C07_range() {
	start, end := vI64("start"), vI64("end")
	max := vI64("max")
	vAssume(max >= 1)
	al := vBool("align")
	alignGetEntries = &al
	setupMetrics(monitoring.InertMetricFactory{})
	r := c07Request(start, end)
	s, e, err := parseGetEntriesRange(r, max, 1)
	if start < 0 || end < 0 || start > end {
		vAssert(err != nil, "invalid range rejected")
		vReach("rejected")
		return
	}
	vAssert(err == nil, "valid range accepted")
	if err != nil {
		return
	}
	vAssert(s == start, "begins at start")
	vAssert(s <= e, "non-empty")
	vAssert(e <= end, "ends no later than end")
	cnt := e - s + 1 // what getEntries sends as Count
	vAssert(cnt >= 1, "count positive")
	vAssert(cnt <= max, "at most the configured maximum")
	vReach("accepted")
}
