//go:build verif

//verif:package trillian/util

package util

import (
	"bytes"

	ct "github.com/google/certificate-transparency-go"
)

// Harness_C07_decodeInverse: decoding a stored entry with the library's entry parser recovers
// the submitted certificate or precertificate, its chain, the entry type and the timestamp.
//
//verif:opt maxpaths=4000 reach=x509,precert
func Harness_C07_decodeInverse() {
	precert := vChoice("precert", 2) == 1
	cert := ct.ASN1Cert{Data: vBytes("cert", 1+vChoice("cert-len", 2))}
	n := vChoice("chain-len", 3)
	var chain []ct.ASN1Cert
	for i := 0; i < n; i++ {
		chain = append(chain, ct.ASN1Cert{Data: vBytes("chain-cert", 1+vChoice("chain-cert-len", 2))})
	}
	ts := vU64("timestamp")
	var leaf ct.MerkleTreeLeaf
	if precert {
		pc := &ct.PreCert{TBSCertificate: vBytes("tbs", 1+vChoice("tbs-len", 2))}
		copy(pc.IssuerKeyHash[:], vBytes("issuer-key-hash", 32))
		leaf = ct.MerkleTreeLeaf{Version: ct.V1, LeafType: ct.TimestampedEntryLeafType, TimestampedEntry: &ct.TimestampedEntry{Timestamp: ts, EntryType: ct.PrecertLogEntryType, PrecertEntry: pc}}
	} else {
		leaf = *ct.CreateX509MerkleTreeLeaf(cert, ts)
	}
	stored, err := BuildLogLeaf("t", leaf, 0, cert, chain, precert)
	vAssert(err == nil, "entry stored")
	if err != nil {
		return
	}
	idx := vI64("index")
	rle, err := ct.RawLogEntryFromLeaf(idx, &ct.LeafEntry{LeafInput: stored.LeafValue, ExtraData: stored.ExtraData})
	vAssert(err == nil, "a stored entry decodes")
	if err != nil {
		return
	}
	vAssert(rle.Index == idx && rle.Leaf.TimestampedEntry.Timestamp == ts, "index and timestamp recovered")
	vAssert(bytes.Equal(rle.Cert.Data, cert.Data), "the submitted certificate or precertificate recovered")
	vAssert(len(rle.Chain) == n, "chain length recovered")
	for i := range chain {
		vAssert(bytes.Equal(rle.Chain[i].Data, chain[i].Data), "chain recovered in order")
	}
	if precert {
		vAssert(rle.Leaf.TimestampedEntry.EntryType == ct.PrecertLogEntryType && bytes.Equal(rle.Leaf.TimestampedEntry.PrecertEntry.TBSCertificate, leaf.TimestampedEntry.PrecertEntry.TBSCertificate), "precert entry type and TBS recovered")
		vReach("precert")
	} else {
		vAssert(rle.Leaf.TimestampedEntry.EntryType == ct.X509LogEntryType, "x509 entry type recovered")
		vReach("x509")
	}
}
