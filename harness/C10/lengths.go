//go:build verif

//verif:package asn1

package asn1

import (
	stdasn1 "encoding/asn1"
)

// Harness_C10_lengthLength: the number of length octets Marshal uses is minimal for every
// content length below 2^32 (DER: 1 octet up to 255 in long form, 2 up to 65535, ...).
//
//verif:opt maxpaths=200 reach=checked
func Harness_C10_lengthLength() {
	i := int(vU32("content-length"))
	want := 1
	if i > 0xff {
		want = 2
	}
	if i > 0xffff {
		want = 3
	}
	if i > 0xffffff {
		want = 4
	}
	vAssert(lengthLength(i) == want, "minimal number of length octets for every content length")
	vReach("checked")
}

// Harness_C10_lengthBoundaries: OCTET STRINGs whose content length sits on and around the
// length-of-length boundaries (127/128, 255/256, 65535/65536) marshal exactly as upstream does,
// decode again in strict mode, and re-marshal to the same bytes.
//
//verif:opt maxpaths=200 reach=roundtrip
func Harness_C10_lengthBoundaries() {
	n := []int{127, 128, 255, 256, 65535, 65536}[vChoice("content-length", 6)]
	b := make([]byte, n)
	b[0], b[n-1] = vU8("first"), vU8("last")
	f, e1 := Marshal(b)
	s, e2 := stdasn1.Marshal(b)
	vAssert(e1 == nil && e2 == nil && string(f) == string(s), "same DER as upstream (minimal length octets)")
	var back []byte
	rest, err := Unmarshal(f, &back)
	vAssert(err == nil && len(rest) == 0 && len(back) == n && back[0] == b[0] && back[n-1] == b[n-1], "its own output decodes in strict mode")
	again, e3 := Marshal(back)
	vAssert(e3 == nil && string(again) == string(f), "marshalling the unmarshalled value reproduces the bytes")
	vReach("roundtrip")
}

type c10Exp5 struct {
	V []byte `asn1:"explicit,tag:5"`
}
type c10Exp31 struct {
	V []byte `asn1:"explicit,tag:31"`
}
type c10Exp200 struct {
	V []byte `asn1:"explicit,tag:200"`
}
type c10Exp16384 struct {
	V []byte `asn1:"explicit,tag:16384"`
}

// Harness_C10_explicitHeaders: an explicitly tagged OCTET STRING with a low, a one-octet-high, a
// two-octet-high and a three-octet-high tag number and contents of 1, 130, 300 and 65536 bytes
// (so that the wrapper header and the inner header take 2 to 8 octets each): Marshal emits
// upstream's bytes, and its output decodes in strict mode to the same value.
//
//verif:opt maxpaths=200 reach=same
func Harness_C10_explicitHeaders() {
	n := []int{1, 130, 300, 65536}[vChoice("content-length", 4)]
	b := make([]byte, n)
	b[0], b[n-1] = vU8("first"), vU8("last")
	var f, s []byte
	var e1, e2, e3 error
	var back []byte
	switch vChoice("tag-number", 4) {
	case 0:
		f, e1 = Marshal(c10Exp5{b})
		s, e2 = stdasn1.Marshal(c10Exp5{b})
		var v c10Exp5
		_, e3 = Unmarshal(f, &v)
		back = v.V
	case 1:
		f, e1 = Marshal(c10Exp31{b})
		s, e2 = stdasn1.Marshal(c10Exp31{b})
		var v c10Exp31
		_, e3 = Unmarshal(f, &v)
		back = v.V
	case 2:
		f, e1 = Marshal(c10Exp200{b})
		s, e2 = stdasn1.Marshal(c10Exp200{b})
		var v c10Exp200
		_, e3 = Unmarshal(f, &v)
		back = v.V
	case 3:
		f, e1 = Marshal(c10Exp16384{b})
		s, e2 = stdasn1.Marshal(c10Exp16384{b})
		var v c10Exp16384
		_, e3 = Unmarshal(f, &v)
		back = v.V
	}
	vAssert(e1 == nil && e2 == nil && string(f) == string(s), "same DER as upstream for the wrapper and the wrapped header")
	vAssert(e3 == nil && len(back) == n && back[0] == b[0] && back[n-1] == b[n-1], "its own output decodes in strict mode to the same value")
	vReach("same")
}
