//go:build verif

//verif:package asn1

package asn1

import (
	stdasn1 "encoding/asn1"
)

// Harness_C10_lengthLength: the number of length octets Marshal uses is minimal for every
// content length below 2^32 (DER: 1 octet up to 255 in long form, 2 up to 65535, ...).
//
//verif:opt maxpaths=200 reach=checked
func Harness_C10_lengthLength() {
	i := int(vU32("content-length"))
	want := 1
	if i > 0xff {
		want = 2
	}
	if i > 0xffff {
		want = 3
	}
	if i > 0xffffff {
		want = 4
	}
	vAssert(lengthLength(i) == want, "minimal number of length octets for every content length")
	vReach("checked")
}

// Harness_C10_lengthBoundaries: OCTET STRINGs whose content length sits on and around the
// length-of-length boundaries (127/128, 255/256, 65535/65536) marshal exactly as upstream does,
// decode again in strict mode, and re-marshal to the same bytes.
//
//verif:opt maxpaths=200 reach=roundtrip
func Harness_C10_lengthBoundaries() {
	n := []int{127, 128, 255, 256, 65535, 65536}[vChoice("content-length", 6)]
	b := make([]byte, n)
	b[0], b[n-1] = vU8("first"), vU8("last")
	f, e1 := Marshal(b)
	s, e2 := stdasn1.Marshal(b)
	vAssert(e1 == nil && e2 == nil && string(f) == string(s), "same DER as upstream (minimal length octets)")
	var back []byte
	rest, err := Unmarshal(f, &back)
	vAssert(err == nil && len(rest) == 0 && len(back) == n && back[0] == b[0] && back[n-1] == b[n-1], "its own output decodes in strict mode")
	again, e3 := Marshal(back)
	vAssert(e3 == nil && string(again) == string(f), "marshalling the unmarshalled value reproduces the bytes")
	vReach("roundtrip")
}
