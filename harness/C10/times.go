//go:build verif

//verif:package asn1

package asn1

import (
	stdasn1 "encoding/asn1"
	"time"
)

// Harness_C10_utctime: UTCTime for every two-digit year (the 1950/2050 pivot) and
// GeneralizedTime for a year on each side of 2050: same verdict, value and re-marshalling as
// upstream. The digits are enumerated (time parsing of symbolic text is outside the technique),
// so this harness is an exhaustive enumeration of a finite domain, not a symbolic one.
//
//verif:opt maxpaths=500 reach=agree
func Harness_C10_utctime() {
	yy := vChoice("two-digit-year", 100)
	der := []byte{0x17, 0x0d, '0' + byte(yy/10), '0' + byte(yy%10), '0', '1', '0', '2', '0', '3', '0', '4', '0', '5', 'Z'}
	var f, s time.Time
	frest, ferr := Unmarshal(der, &f)
	srest, serr := stdasn1.Unmarshal(der, &s)
	vAssert((ferr == nil) == (serr == nil) && len(frest) == len(srest), "UTCTime: same verdict and remainder as upstream")
	if ferr == nil && serr == nil {
		vAssert(f.Equal(s) && f.Year() == s.Year(), "UTCTime: same instant as upstream (1950..2049 window)")
		fo, e1 := Marshal(f)
		so, e2 := stdasn1.Marshal(s)
		vAssert(e1 == nil && e2 == nil && string(fo) == string(so) && string(fo) == string(der), "UTCTime re-marshals to the input, as upstream")
	}
	vReach("agree")
}
