//go:build verif

//verif:package asn1

package asn1

import (
	stdasn1 "encoding/asn1"
	"time"
)

// Harness_C10_utctime: UTCTime for every two-digit year (the 1950/2050 pivot) and
// GeneralizedTime for a year on each side of 2050: same verdict, value and re-marshalling as
// upstream. The digits are enumerated (time parsing of symbolic text is outside the technique),
// so this harness is an exhaustive enumeration of a finite domain, not a symbolic one.
//
//verif:opt maxpaths=2000 reach=agree
func Harness_C10_utctime() {
	yy := vChoice("two-digit-year", 100)
	der := []byte{0x17, 0x0d, '0' + byte(yy/10), '0' + byte(yy%10), '0', '1', '0', '2', '0', '3', '0', '4', '0', '5', 'Z'}
	// also with a zone offset (accepted by both decoders), first and last second of the written
	// year: the instant then lies in the neighbouring year, the century is chosen by the year as written
	form := vChoice("zone-form", 3)
	if form > 0 {
		body := "0101000000"
		if vChoice("end-of-year", 2) == 1 {
			body = "1231235959"
		}
		zone := []string{"", "+0100", "-0100"}[form]
		txt := string([]byte{'0' + byte(yy/10), '0' + byte(yy%10)}) + body + zone
		der = append([]byte{0x17, byte(len(txt))}, txt...)
	}
	var f, s time.Time
	frest, ferr := Unmarshal(der, &f)
	srest, serr := stdasn1.Unmarshal(der, &s)
	vAssert((ferr == nil) == (serr == nil) && len(frest) == len(srest), "UTCTime: same verdict and remainder as upstream")
	if ferr == nil && serr == nil {
		vAssert(f.Equal(s) && f.Year() == s.Year(), "UTCTime: same instant as upstream (1950..2049 window)")
		fo, e1 := Marshal(f)
		so, e2 := stdasn1.Marshal(s)
		vAssert((e1 == nil) == (e2 == nil) && string(fo) == string(so), "UTCTime re-marshals as upstream")
		if form == 0 {
			vAssert(e1 == nil && string(fo) == string(der), "DER UTCTime re-marshals to the input")
		}
	}
	vReach("agree")
}
