//go:build verif

//verif:package asn1

package asn1

import (
	stdasn1 "encoding/asn1"
	"math/big"
	_ "unsafe"
)

// Differential harnesses: the fork's leaf parsers against encoding/asn1 of the installed
// toolchain, compiled into the same SSA program and run on the same symbolic bytes.

type c10TAL struct {
	class, tag, length int
	isCompound         bool
}

//go:linkname stdParseTagAndLength encoding/asn1.parseTagAndLength
//verif:extern encoding/asn1.parseTagAndLength
func stdParseTagAndLength(bytes []byte, initOffset int) (ret c10TAL, offset int, err error)

//go:linkname stdParseBase128Int encoding/asn1.parseBase128Int
//verif:extern encoding/asn1.parseBase128Int
func stdParseBase128Int(bytes []byte, initOffset int) (ret, offset int, err error)

//go:linkname stdCheckInteger encoding/asn1.checkInteger
//verif:extern encoding/asn1.checkInteger
func stdCheckInteger(bytes []byte) error

//go:linkname stdParseInt64 encoding/asn1.parseInt64
//verif:extern encoding/asn1.parseInt64
func stdParseInt64(bytes []byte) (int64, error)

//go:linkname stdParseInt32 encoding/asn1.parseInt32
//verif:extern encoding/asn1.parseInt32
func stdParseInt32(bytes []byte) (int32, error)

//go:linkname stdParseBigInt encoding/asn1.parseBigInt
//verif:extern encoding/asn1.parseBigInt
func stdParseBigInt(bytes []byte) (*big.Int, error)

//go:linkname stdParseBool encoding/asn1.parseBool
//verif:extern encoding/asn1.parseBool
func stdParseBool(bytes []byte) (bool, error)

//go:linkname stdParseBitString encoding/asn1.parseBitString
//verif:extern encoding/asn1.parseBitString
func stdParseBitString(bytes []byte) (stdasn1.BitString, error)

//go:linkname stdParseObjectIdentifier encoding/asn1.parseObjectIdentifier
//verif:extern encoding/asn1.parseObjectIdentifier
func stdParseObjectIdentifier(bytes []byte) (stdasn1.ObjectIdentifier, error)

//go:linkname stdParsePrintableString encoding/asn1.parsePrintableString
//verif:extern encoding/asn1.parsePrintableString
func stdParsePrintableString(bytes []byte) (string, error)

//go:linkname stdParseIA5String encoding/asn1.parseIA5String
//verif:extern encoding/asn1.parseIA5String
func stdParseIA5String(bytes []byte) (string, error)

//go:linkname stdParseNumericString encoding/asn1.parseNumericString
//verif:extern encoding/asn1.parseNumericString
func stdParseNumericString(bytes []byte) (string, error)

//go:linkname stdInvalidLength encoding/asn1.invalidLength
//verif:extern encoding/asn1.invalidLength
func stdInvalidLength(offset, length, sliceLength int) bool

// Harness_C10_tagAndLength: all inputs up to 7 bytes, all offsets.
//
//verif:opt maxpaths=20000 reach=both-accept,both-reject thorough.wall=1200
func Harness_C10_tagAndLength() {
	n := 1 + vChoice("len", 7+2*vTier())
	b := vBytes("der", n)
	off := vChoice("off", n)
	f, fo, fe := parseTagAndLength(b, off, "")
	s, so, se := stdParseTagAndLength(b, off)
	// D1 (documented difference): the fork's base-128 reader accepts a leading 0x80 octet in a
	// high tag number, which upstream rejects as non-minimal.
	if vByDesign("D1-base128-leading-0x80", b[off]&0x1f == 0x1f && off+1 < n && b[off+1] == 0x80) {
		return
	}
	vAssert((fe == nil) == (se == nil), "same accept/reject verdict as upstream")
	if fe == nil && se == nil {
		vAssert(fo == so, "same offset after the header")
		vAssert(f.class == s.class && f.tag == s.tag && f.length == s.length && f.isCompound == s.isCompound, "same tag, class, length and compound bit")
		vReach("both-accept")
	} else {
		vReach("both-reject")
	}
}

//verif:opt maxpaths=20000 reach=both-accept,both-reject
func Harness_C10_base128() {
	n := 1 + vChoice("len", 7)
	b := vBytes("der", n)
	off := vChoice("off", n)
	fr, fo, fe := parseBase128Int(b, off, "")
	sr, so, se := stdParseBase128Int(b, off)
	if vByDesign("D1-base128-leading-0x80", b[off] == 0x80) {
		return
	}
	vAssert((fe == nil) == (se == nil), "same accept/reject verdict as upstream")
	if fe == nil && se == nil {
		vAssert(fr == sr && fo == so, "same value and offset")
		vReach("both-accept")
	} else {
		vReach("both-reject")
	}
}

//verif:opt maxpaths=20000 reach=both-accept,both-reject
func Harness_C10_integers() {
	n := vChoice("len", 11)
	b := vBytes("der", n)
	fe := checkInteger(b, false, "")
	se := stdCheckInteger(b)
	vAssert((fe == nil) == (se == nil), "checkInteger: same verdict as upstream")
	// lax mode only adds acceptances: exactly the non-minimal encodings
	le := checkInteger(b, true, "")
	if fe == nil {
		vAssert(le == nil, "lax accepts whatever strict accepts")
	}
	if le == nil && fe != nil {
		vAssert(n >= 2, "lax-only acceptance is a non-minimal integer")
	}
	f64, fe64 := parseInt64(b, false, "")
	s64, se64 := stdParseInt64(b)
	vAssert((fe64 == nil) == (se64 == nil), "parseInt64: same verdict as upstream")
	if fe64 == nil && se64 == nil {
		vAssert(f64 == s64, "parseInt64: same value")
		l64, le64 := parseInt64(b, true, "")
		vAssert(le64 == nil && l64 == f64, "lax parseInt64 gives the identical value")
		vReach("both-accept")
	} else {
		vReach("both-reject")
	}
	// lax mode only waives minimality: it accepts exactly the 1..8-byte integers, with the
	// big-endian two's complement value
	l64, le64 := parseInt64(b, true, "")
	if n == 0 || n > 8 {
		vAssert(le64 != nil, "lax parseInt64 still refuses empty and over-long integers")
	} else {
		var ref int64
		for i := 0; i < n; i++ {
			ref = ref<<8 | int64(b[i])
		}
		ref <<= 64 - uint(n)*8
		ref >>= 64 - uint(n)*8
		vAssert(le64 == nil && l64 == ref, "lax parseInt64 yields the two's complement value of the octets")
		l32, le32 := parseInt32(b, true, "")
		vAssert((le32 == nil) == (ref == int64(int32(ref))), "lax parseInt32 accepts exactly the values that fit")
		if le32 == nil {
			vAssert(int64(l32) == ref, "lax parseInt32 value")
		}
	}
	f32, fe32 := parseInt32(b, false, "")
	s32, se32 := stdParseInt32(b)
	vAssert((fe32 == nil) == (se32 == nil), "parseInt32: same verdict as upstream")
	if fe32 == nil && se32 == nil {
		vAssert(f32 == s32, "parseInt32: same value")
	}
}

//verif:opt maxpaths=20000 reach=both-accept,both-reject
func Harness_C10_bigint() {
	n := vChoice("len", 10)
	b := vBytes("der", n)
	f, fe := parseBigInt(b, false, "")
	s, se := stdParseBigInt(b)
	vAssert((fe == nil) == (se == nil), "parseBigInt: same verdict as upstream")
	if fe == nil && se == nil {
		vAssert(f.Cmp(s) == 0, "parseBigInt: same value")
		vReach("both-accept")
	} else {
		vReach("both-reject")
	}
}

//verif:opt maxpaths=20000 reach=both-accept,both-reject
func Harness_C10_small() {
	n := vChoice("len", 6)
	b := vBytes("der", n)
	fb, fbe := parseBool(b, "")
	sb, sbe := stdParseBool(b)
	vAssert((fbe == nil) == (sbe == nil), "parseBool: same verdict as upstream")
	if fbe == nil && sbe == nil {
		vAssert(fb == sb, "parseBool: same value")
	}
	fbs, fbse := parseBitString(b, "")
	sbs, sbse := stdParseBitString(b)
	vAssert((fbse == nil) == (sbse == nil), "parseBitString: same verdict as upstream")
	if fbse == nil && sbse == nil {
		vAssert(fbs.BitLength == sbs.BitLength && string(fbs.Bytes) == string(sbs.Bytes), "parseBitString: same value")
		vReach("both-accept")
	} else {
		vReach("both-reject")
	}
	o, l, sl := vInt("offset"), vInt("length"), vInt("sliceLength")
	vAssert(invalidLength(o, l, sl) == stdInvalidLength(o, l, sl), "invalidLength: same verdict for all ints")
}
