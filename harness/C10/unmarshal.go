//go:build verif

//verif:package asn1

package asn1

import (
	"bytes"
	stdasn1 "encoding/asn1"
	"math/big"
	"reflect"
)

// c10Diff: fork (strict) vs upstream on the same symbolic input and the same target type; then
// lax vs strict; then re-marshalling of the accepted value.
func c10Diff[T any](n int, remarshal bool) {
	b := vBytes("der", n)
	c10DiffOn[T](b, remarshal)
}

func c10DiffOn[T any](b []byte, remarshal bool) {
	n := len(b)
	var f, s, l T
	frest, ferr := Unmarshal(b, &f)
	srest, serr := stdasn1.Unmarshal(b, &s)
	vAssert((ferr == nil) == (serr == nil), "strict fork accepts exactly what upstream accepts")
	if ferr != nil || serr != nil {
		vReach("rejected")
		// lax may accept more, never panics
		UnmarshalWithParams(b, &l, "lax")
		return
	}
	vReach("accepted")
	vAssert(len(frest) == len(srest), "same unconsumed remainder as upstream")
	vAssert(reflect.DeepEqual(f, s), "same value as upstream")
	lrest, lerr := UnmarshalWithParams(b, &l, "lax")
	vAssert(lerr == nil, "lax accepts whatever strict accepts")
	if lerr == nil {
		vAssert(len(lrest) == len(frest) && reflect.DeepEqual(l, f), "lax yields the identical value and remainder")
	}
	out, err := Marshal(f)
	sout, serr2 := stdasn1.Marshal(s)
	vAssert((err == nil) == (serr2 == nil), "fork Marshal succeeds exactly when upstream Marshal does")
	if err == nil && serr2 == nil {
		vAssert(bytes.Equal(out, sout), "fork Marshal produces the same bytes as upstream")
	}
	if remarshal {
		// shapes without optional/default fields: DER is canonical, so the input is reproduced
		vAssert(err == nil, "accepted value re-marshals")
		consumed := b[:n-len(frest)]
		if err == nil && reflect.TypeOf(f).Kind() == reflect.Struct {
			// Both decoders ignore bytes that follow the last field inside a SEQUENCE; such an input is
			// accepted but is not the strict DER encoding of the value. The strict-DER inputs are those
			// whose SEQUENCE holds nothing but the fields, i.e. whose length equals the re-encoding's.
			vAssert(len(out) <= len(consumed), "the re-encoding is never longer than the accepted input")
			if len(out) != len(consumed) {
				vReach("trailing-in-sequence")
				return
			}
		}
		if err == nil {
			vAssert(bytes.Equal(out, consumed), "marshalling the unmarshalled strict-DER value reproduces the input bytes")
		}
	}
}

type c10S1 struct {
	A int
	B bool
}

type c10S2 struct {
	A int `asn1:"optional"`
	B []byte
}

type c10S3 struct {
	X int `asn1:"explicit,tag:1"`
	Y int `asn1:"tag:2,optional"`
}

type c10S4 struct {
	A int `asn1:"optional,default:5"`
	B bool
}

type c10S5 struct {
	N c10S1
	L []int
}

//verif:opt maxpaths=30000 reach=accepted,rejected
func Harness_C10_um_int() { c10Diff[int](1 + vChoice("len", 6+3*vTier()), true) }

//verif:opt maxpaths=30000 reach=accepted,rejected
func Harness_C10_um_bool() { c10Diff[bool](1 + vChoice("len", 4), true) }

//verif:opt maxpaths=30000 reach=accepted,rejected
func Harness_C10_um_bytes() { c10Diff[[]byte](1 + vChoice("len", 5+2*vTier()), true) }

//verif:opt maxpaths=30000 reach=accepted,rejected
func Harness_C10_um_string() {
	b := vBytes("der", 2+vChoice("len", 3))
	// BMPString (tag 30) and T61String (tag 20) need rune-level reasoning on symbolic text: outside the bound
	vAssume(b[0]&0x1f != 30 && b[0]&0x1f != 20)
	for i := 2; i < len(b); i++ {
		vAssume(b[i] < 0x80) // stated bound: ASCII content (UTF-8 decoding of symbolic text is outside)
	}
	c10DiffOn[string](b, false)
}

//verif:opt maxpaths=30000 reach=accepted,rejected
func Harness_C10_um_bigint() { c10Diff[*big.Int](1 + vChoice("len", 6), true) }

//verif:opt maxpaths=30000 reach=accepted,rejected
func Harness_C10_um_ints() { c10Diff[[]int](2 + vChoice("len", 6+2*vTier()), true) }

//verif:opt maxpaths=30000 reach=accepted,rejected
func Harness_C10_um_s1() { c10Diff[c10S1](2 + vChoice("len", 7+2*vTier()), true) }

//verif:opt maxpaths=30000 reach=accepted,rejected
func Harness_C10_um_s2() { c10Diff[c10S2](2 + vChoice("len", 7), false) }

//verif:opt maxpaths=30000 reach=accepted,rejected
func Harness_C10_um_s3() { c10Diff[c10S3](2 + vChoice("len", 8), false) }

//verif:opt maxpaths=30000 reach=accepted,rejected tier=thorough
func Harness_C10_um_s4() { c10Diff[c10S4](2 + vChoice("len", 7), false) }

// the shortest accepted input is 12 bytes: 30 0a (30 06 (02 01 x) (01 01 y)) (30 00)
//
//verif:opt maxpaths=120000 reach=accepted,rejected tier=thorough
func Harness_C10_um_s5() { c10Diff[c10S5](11 + vChoice("len", 3), true) }
