//go:build verif

//verif:package asn1

package asn1

import (
	"bytes"
	stdasn1 "encoding/asn1"
	"math/big"
	"reflect"
)

// c10Diff: fork (strict) vs upstream on the same symbolic input and the same target type; then
// lax vs strict; then re-marshalling of the accepted value.
func c10Diff[T any](n int, remarshal bool) {
	b := vBytes("der", n)
	c10DiffOn[T](b, remarshal)
}

func c10DiffOn[T any](b []byte, remarshal bool) {
	n := len(b)
	var f, s, l T
	frest, ferr := Unmarshal(b, &f)
	srest, serr := stdasn1.Unmarshal(b, &s)
	vAssert((ferr == nil) == (serr == nil), "strict fork accepts exactly what upstream accepts")
	if ferr != nil || serr != nil {
		vReach("rejected")
		// lax may accept more, never panics
		UnmarshalWithParams(b, &l, "lax")
		return
	}
	vReach("accepted")
	vAssert(len(frest) == len(srest), "same unconsumed remainder as upstream")
	vAssert(reflect.DeepEqual(f, s), "same value as upstream")
	lrest, lerr := UnmarshalWithParams(b, &l, "lax")
	vAssert(lerr == nil, "lax accepts whatever strict accepts")
	if lerr == nil {
		vAssert(len(lrest) == len(frest) && reflect.DeepEqual(l, f), "lax yields the identical value and remainder")
	}
	out, err := Marshal(f)
	sout, serr2 := stdasn1.Marshal(s)
	vAssert((err == nil) == (serr2 == nil), "fork Marshal succeeds exactly when upstream Marshal does")
	if err == nil && serr2 == nil {
		vAssert(bytes.Equal(out, sout), "fork Marshal produces the same bytes as upstream")
	}
	if remarshal {
		// shapes without optional/default fields: DER is canonical, so the input is reproduced
		vAssert(err == nil, "accepted value re-marshals")
		consumed := b[:n-len(frest)]
		if err == nil && reflect.TypeOf(f).Kind() == reflect.Struct {
			// Both decoders ignore bytes that follow the last field inside a SEQUENCE; such an input is
			// accepted but is not the strict DER encoding of the value. The strict-DER inputs are those
			// whose SEQUENCE holds nothing but the fields, i.e. whose length equals the re-encoding's.
			vAssert(len(out) <= len(consumed), "the re-encoding is never longer than the accepted input")
			if len(out) != len(consumed) {
				vReach("trailing-in-sequence")
				return
			}
		}
		if err == nil {
			vAssert(bytes.Equal(out, consumed), "marshalling the unmarshalled strict-DER value reproduces the input bytes")
		}
	}
}

type c10S1 struct {
	A int
	B bool
}

type c10S2 struct {
	A int `asn1:"optional"`
	B []byte
}

type c10S3 struct {
	X int `asn1:"explicit,tag:1"`
	Y int `asn1:"tag:2,optional"`
}

type c10S4 struct {
	A int `asn1:"optional,default:5"`
	B bool
}

type c10S5 struct {
	N c10S1
	L []int
}

// explicit tags around optional, defaulted, Flag and RawValue fields (the shapes of a
// certificate's version and extensions). The fork's and upstream's RawValue / Flag are distinct
// types, so each shape has a mirror declared over upstream's.
type c10S6 struct {
	V int `asn1:"optional,explicit,default:0,tag:0"`
	R RawValue
}
type c10S6std struct {
	V int `asn1:"optional,explicit,default:0,tag:0"`
	R stdasn1.RawValue
}

type c10S7 struct {
	F Flag `asn1:"explicit,tag:0"`
}
type c10S7std struct {
	F stdasn1.Flag `asn1:"explicit,tag:0"`
}

type c10S8 struct {
	A int      `asn1:"optional,explicit,tag:1"`
	R RawValue `asn1:"optional,explicit,tag:2"`
}
type c10S8std struct {
	A int              `asn1:"optional,explicit,tag:1"`
	R stdasn1.RawValue `asn1:"optional,explicit,tag:2"`
}

func c10SameRaw(a RawValue, b stdasn1.RawValue) bool {
	return a.Class == b.Class && a.Tag == b.Tag && a.IsCompound == b.IsCompound && bytes.Equal(a.Bytes, b.Bytes) && bytes.Equal(a.FullBytes, b.FullBytes)
}

// c10Diff2: fork (strict, then lax) vs upstream on the same symbolic input, for a shape and its mirror.
func c10Diff2[F, S any](n int, same func(F, S) bool, sameF func(F, F) bool) {
	b := vBytes("der", n)
	// D1 (documented difference, see Harness_C10_base128): the fork's base-128 reader accepts a
	// leading 0x80 octet in a high tag number; a raw-value target accepts any tag, so such inputs
	// are set aside here (any position that could be such a header: an over-approximation)
	for i := 0; i+1 < n; i++ {
		if vByDesign("D1-base128-leading-0x80", b[i]&0x1f == 0x1f && b[i+1] == 0x80) {
			return
		}
	}
	var f, l F
	var s S
	frest, ferr := Unmarshal(b, &f)
	srest, serr := stdasn1.Unmarshal(b, &s)
	vAssert((ferr == nil) == (serr == nil), "strict fork accepts exactly what upstream accepts")
	if ferr != nil || serr != nil {
		vReach("rejected")
		UnmarshalWithParams(b, &l, "lax")
		return
	}
	vReach("accepted")
	vAssert(len(frest) == len(srest), "same unconsumed remainder as upstream")
	vAssert(same(f, s), "same value as upstream")
	lrest, lerr := UnmarshalWithParams(b, &l, "lax")
	vAssert(lerr == nil && len(lrest) == len(frest) && sameF(l, f), "lax accepts whatever strict accepts, with the identical value and remainder")
}

//verif:opt maxpaths=30000 reach=accepted,rejected
func Harness_C10_um_s6() {
	c10Diff2[c10S6, c10S6std](2+vChoice("len", 6), // (inputs of 2..7 bytes in both tiers: one more byte exceeds 30000 paths)
		func(f c10S6, s c10S6std) bool { return f.V == s.V && c10SameRaw(f.R, s.R) },
		func(a, b c10S6) bool { return reflect.DeepEqual(a, b) })
}

//verif:opt maxpaths=30000 reach=accepted,rejected
func Harness_C10_um_s7() {
	c10Diff2[c10S7, c10S7std](2+vChoice("len", 5),
		func(f c10S7, s c10S7std) bool { return bool(f.F) == bool(s.F) },
		func(a, b c10S7) bool { return a == b })
}

//verif:opt maxpaths=30000 reach=accepted,rejected
func Harness_C10_um_s8() {
	c10Diff2[c10S8, c10S8std](2+vChoice("len", 6),
		func(f c10S8, s c10S8std) bool { return f.A == s.A && c10SameRaw(f.R, s.R) },
		func(a, b c10S8) bool { return reflect.DeepEqual(a, b) })
}

//verif:opt maxpaths=30000 reach=accepted,rejected
func Harness_C10_um_int() { c10Diff[int](1 + vChoice("len", 6+3*vTier()), true) }

//verif:opt maxpaths=30000 reach=accepted,rejected
func Harness_C10_um_bool() { c10Diff[bool](1 + vChoice("len", 4), true) }

//verif:opt maxpaths=30000 reach=accepted,rejected
func Harness_C10_um_bytes() { c10Diff[[]byte](1 + vChoice("len", 5+2*vTier()), true) }

//verif:opt maxpaths=30000 reach=accepted,rejected
func Harness_C10_um_string() {
	b := vBytes("der", 2+vChoice("len", 3))
	// BMPString (tag 30) and T61String (tag 20) need rune-level reasoning on symbolic text: outside the bound
	vAssume(b[0]&0x1f != 30 && b[0]&0x1f != 20)
	for i := 2; i < len(b); i++ {
		vAssume(b[i] < 0x80) // stated bound: ASCII content (UTF-8 decoding of symbolic text is outside)
	}
	c10DiffOn[string](b, false)
}

//verif:opt maxpaths=30000 reach=accepted,rejected
func Harness_C10_um_bigint() { c10Diff[*big.Int](1 + vChoice("len", 6), true) }

//verif:opt maxpaths=30000 reach=accepted,rejected
func Harness_C10_um_ints() { c10Diff[[]int](2 + vChoice("len", 6+2*vTier()), true) }

//verif:opt maxpaths=30000 reach=accepted,rejected
func Harness_C10_um_s1() { c10Diff[c10S1](2 + vChoice("len", 7+2*vTier()), true) }

//verif:opt maxpaths=30000 reach=accepted,rejected
func Harness_C10_um_s2() { c10Diff[c10S2](2 + vChoice("len", 7), false) }

//verif:opt maxpaths=30000 reach=accepted,rejected
func Harness_C10_um_s3() { c10Diff[c10S3](2 + vChoice("len", 8), false) }

//verif:opt maxpaths=30000 reach=accepted,rejected tier=thorough
func Harness_C10_um_s4() { c10Diff[c10S4](2 + vChoice("len", 7), false) }

// the shortest accepted input is 12 bytes: 30 0a (30 06 (02 01 x) (01 01 y)) (30 00)
//
//verif:opt maxpaths=120000 reach=accepted,rejected tier=thorough
func Harness_C10_um_s5() { c10Diff[c10S5](11 + vChoice("len", 3), true) }
