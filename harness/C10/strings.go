//go:build verif

//verif:package asn1

package asn1

import (
	"bytes"
	stdasn1 "encoding/asn1"
)

type c10Str struct {
	A string
	B string `asn1:"utf8"`
	C []string
}

// Harness_C10_marshalStrings: the string type Marshal selects (PrintableString / IA5String /
// UTF8String) and the bytes it emits equal upstream's for text at the boundaries of the character
// classes -- ASCII printable, '*', '&', '@', '_', DEL, Latin-1, and non-ASCII runes whose low byte
// is a PrintableString character -- and the fork's strict decoder reads its own output back.
//
//verif:opt maxpaths=400 reach=same
func Harness_C10_marshalStrings() {
	texts := []string{"", "a", "A z", "a*b", "a&b", "a@b", "a_b", "x\x7f", "café", "š", "中", "Ł", "Ġ", "Σ", "aš", "'()+,-./:=?", "\U0001F600"}
	s := texts[vChoice("text", len(texts))]
	switch vChoice("shape", 3) {
	case 0:
		got, err := Marshal(s)
		want, werr := stdasn1.Marshal(s)
		vAssert((err == nil) == (werr == nil), "Marshal succeeds exactly when upstream's does")
		if err == nil && werr == nil {
			vAssert(bytes.Equal(got, want), "same string type and bytes as upstream")
			var back string
			rest, uerr := Unmarshal(got, &back)
			vAssert(uerr == nil && len(rest) == 0 && back == s, "the strict decoder reads the encoding back")
		}
	case 1:
		v := c10Str{A: s, B: s, C: []string{s, "k"}}
		got, err := Marshal(v)
		want, werr := stdasn1.Marshal(struct {
			A string
			B string `asn1:"utf8"`
			C []string
		}{s, s, []string{s, "k"}})
		vAssert((err == nil) == (werr == nil), "Marshal succeeds exactly when upstream's does")
		if err == nil && werr == nil {
			vAssert(bytes.Equal(got, want), "same string types and bytes as upstream inside structures and sequences")
			var back c10Str
			rest, uerr := Unmarshal(got, &back)
			vAssert(uerr == nil && len(rest) == 0 && back.A == s && back.B == s && len(back.C) == 2 && back.C[0] == s, "round trip")
		}
	case 2:
		got, err := MarshalWithParams(s, "ia5")
		want, werr := stdasn1.MarshalWithParams(s, "ia5")
		vAssert((err == nil) == (werr == nil), "IA5String: refused exactly when upstream refuses")
		if err == nil && werr == nil {
			vAssert(bytes.Equal(got, want), "IA5String bytes as upstream")
		}
	}
	vReach("same")
}
