//go:build verif

//verif:package asn1

package asn1

// Harness_C10_oid: OID parser vs upstream; lax adds exactly the empty OID.
//
//verif:opt maxpaths=30000 reach=both-accept,both-reject
func Harness_C10_oid() {
	n := vChoice("len", 6)
	b := vBytes("der", n)
	f, fe := parseObjectIdentifier(b, false, "")
	s, se := stdParseObjectIdentifier(b)
	// D1: a sub-identifier starting with 0x80 is accepted by the fork's base-128 reader
	lead80 := false
	for i := 0; i < n; i++ {
		if b[i] == 0x80 && (i == 0 || b[i-1]&0x80 == 0) {
			lead80 = true
		}
	}
	if vByDesign("D1-base128-leading-0x80", lead80) {
		return
	}
	vAssert((fe == nil) == (se == nil), "parseObjectIdentifier: same verdict as upstream")
	l, le := parseObjectIdentifier(b, true, "")
	if fe == nil && se == nil {
		vAssert(len(f) == len(s), "same number of arcs")
		for i := range f {
			vAssert(f[i] == s[i], "same arcs")
		}
		vAssert(le == nil && len(l) == len(f), "lax accepts whatever strict accepts")
		for i := range f {
			vAssert(l[i] == f[i], "lax yields the identical arcs")
		}
		vReach("both-accept")
	} else {
		vReach("both-reject")
		if le == nil {
			vAssert(n == 0, "the only lax-only OID acceptance is the empty OID")
		}
	}
}

// Harness_C10_strings: string parsers vs upstream; lax PrintableString adds exactly contents
// that pass the ISO 8859-1 / T.61 plausibility tests.
//
//verif:opt maxpaths=30000 reach=both-accept,both-reject
func Harness_C10_strings() {
	n := vChoice("len", 4)
	b := vBytes("der", n)
	f, fe := parsePrintableString(b, false, "")
	s, se := stdParsePrintableString(b)
	vAssert((fe == nil) == (se == nil), "parsePrintableString: same verdict as upstream")
	l, le := parsePrintableString(b, true, "")
	if fe == nil && se == nil {
		vAssert(f == s, "same string")
		vAssert(le == nil && l == f, "lax yields the identical string")
		vReach("both-accept")
	} else {
		vReach("both-reject")
		if le == nil {
			vAssert(couldBeISO8859_1(b) || couldBeT61(b), "lax-only PrintableString contents are plausible ISO 8859-1 or T.61 text")
		}
	}
	fi, fie := parseIA5String(b, "")
	si, sie := stdParseIA5String(b)
	vAssert((fie == nil) == (sie == nil), "parseIA5String: same verdict as upstream")
	if fie == nil && sie == nil {
		vAssert(fi == si, "same IA5 string")
	}
	fn, fne := parseNumericString(b, "")
	sn, sne := stdParseNumericString(b)
	vAssert((fne == nil) == (sne == nil), "parseNumericString: same verdict as upstream")
	if fne == nil && sne == nil {
		vAssert(fn == sn, "same numeric string")
	}
}

type c10Deep struct {
	A int
	N struct {
		B int
		L []int
	}
	E int `asn1:"explicit,tag:0"`
}

// Harness_C10_laxPropagation: a non-minimal INTEGER at depth 1, 2, 3 (struct field, nested
// struct field, sequence element, explicitly tagged field) is refused in strict mode and
// accepted, with the right value, in lax mode.
//
//verif:opt maxpaths=2000 reach=lax-accepted
func Harness_C10_laxPropagation() {
	v := vU8("value")
	vAssume(v < 0x80)
	where := vChoice("where", 4)
	enc := func(k int) []byte {
		if k == where {
			return []byte{0x02, 0x02, 0x00, v} // non-minimal: leading zero octet
		}
		return []byte{0x02, 0x01, v}
	}
	a, bb, el, ee := enc(0), enc(1), enc(2), enc(3)
	seqOf := append([]byte{0x30, byte(len(el))}, el...)
	inner := append(append([]byte{}, bb...), seqOf...)
	n := append([]byte{0x30, byte(len(inner))}, inner...)
	e := append([]byte{0xa0, byte(len(ee))}, ee...)
	body := append(append(append([]byte{}, a...), n...), e...)
	der := append([]byte{0x30, byte(len(body))}, body...)
	var s, l c10Deep
	_, serr := Unmarshal(der, &s)
	vAssert(serr != nil, "strict mode refuses the non-minimal INTEGER wherever it is nested")
	rest, lerr := UnmarshalWithParams(der, &l, "lax")
	vAssert(lerr == nil && len(rest) == 0, "lax mode propagates to nested fields and accepts it")
	if lerr == nil {
		vAssert(l.A == int(v) && l.N.B == int(v) && len(l.N.L) == 1 && l.N.L[0] == int(v) && l.E == int(v), "with the right values")
		vReach("lax-accepted")
	}
}
