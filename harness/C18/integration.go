//go:build verif

//verif:package trillian/integration

package integration

import (
	"time"

	"github.com/google/certificate-transparency-go/trillian/ctfe/configpb"
	"google.golang.org/protobuf/types/known/timestamppb"
)

// Harness_C18_notAfterForLog: the NotAfter the integration tooling picks for a log lies inside
// that log's window as the server draws it: start <= t < limit, for every pair of bounds (also
// windows of a few nanoseconds, and windows wider than a Duration can express).
//
//verif:opt maxpaths=400 reach=both,start-only,limit-only
func Harness_C18_notAfterForLog() {
	cfg := &configpb.LogConfig{}
	// seconds are concrete (a window of 0..3 s, one of ~300 years and one of ~8000 years: beyond
	// what a Duration can express), the nanosecond parts are symbolic: the products sec*10^9
	// stay constant and the queries decidable
	ss, sn := int64(1700000000), int64(vU32("start.nsec")&0x3fffffff)
	ls := ss + []int64{0, 1, 2, 3, 9467000000, 251702300799}[vChoice("window-seconds", 6)]
	ln := int64(vU32("limit.nsec") & 0x3fffffff)
	vAssume(sn < 1000000000 && ln < 1000000000)
	hasStart, hasLimit := vChoice("has-start", 2) == 1, vChoice("has-limit", 2) == 1
	vAssume(hasStart || hasLimit)
	if hasStart {
		cfg.NotAfterStart = &timestamppb.Timestamp{Seconds: ss, Nanos: int32(sn)}
	}
	if hasLimit {
		cfg.NotAfterLimit = &timestamppb.Timestamp{Seconds: ls, Nanos: int32(ln)}
	}
	if hasStart && hasLimit {
		vAssume(ss < ls || (ss == ls && sn < ln)) // a configuration the server accepts: start before limit
	}
	t, err := NotAfterForLog(cfg)
	vAssert(err == nil, "valid bounds give a time")
	start, limit := time.Unix(ss, sn), time.Unix(ls, ln)
	if hasStart {
		vAssert(!t.Before(start), "not before the window's start")
	}
	if hasLimit {
		vAssert(t.Before(limit), "strictly before the window's limit")
	}
	switch {
	case hasStart && hasLimit:
		vReach("both")
	case hasStart:
		vReach("start-only")
	default:
		vReach("limit-only")
	}
}
