//go:build verif

//verif:package client

package client

import (
	"time"

	"github.com/google/certificate-transparency-go/client/configpb"
	"google.golang.org/protobuf/types/known/timestamppb"
)

// c18Instant returns an arbitrary instant without monotonic reading (certificate and
// configuration times never carry one) together with its (seconds, nanoseconds) coordinates.
func c18Instant(name string) (time.Time, int64, int64) {
	sec := vI64(name + ".sec")
	nsec := vI64(name + ".nsec")
	// seconds are limited to what protobuf timestamps and X.509 times can express (years 0001..9999)
	vAssume(sec >= -62135596800 && sec <= 253402300799)
	vAssume(nsec >= 0 && nsec < 1000000000)
	return time.Unix(sec, nsec).UTC(), sec, nsec
}

func c18Before(s1, n1, s2, n2 int64) bool { return s1 < s2 || (s1 == s2 && n1 < n2) }

// Harness_C18_indexByDate: for one interval with optional bounds, IndexByDate selects it exactly
// when start <= t < limit.
//
//verif:opt maxpaths=500 reach=selected,skipped
func Harness_C18_indexByDate() {
	t, ts, tn := c18Instant("t")
	var iv interval
	inside := true
	if vChoice("has-lower", 2) == 1 {
		lo, ls, ln := c18Instant("lo")
		iv.lower = &lo
		if c18Before(ts, tn, ls, ln) {
			inside = false
		}
	}
	if vChoice("has-upper", 2) == 1 {
		hi, hs, hn := c18Instant("hi")
		iv.upper = &hi
		if !c18Before(ts, tn, hs, hn) {
			inside = false
		}
	}
	tlc := &TemporalLogClient{intervals: []interval{iv}}
	idx, err := tlc.IndexByDate(t)
	if inside {
		vAssert(err == nil && idx == 0, "instant inside [start,limit) is routed to the shard")
		vReach("selected")
	} else {
		vAssert(err != nil && idx == -1, "instant outside [start,limit) is routed nowhere")
		vReach("skipped")
	}
}

func c18Timestamp(name string) (*timestamppb.Timestamp, int64, int64) {
	sec := vI64(name + ".sec")
	nsec := vI32(name + ".nsec")
	return &timestamppb.Timestamp{Seconds: sec, Nanos: nsec}, sec, int64(nsec)
}

func c18ValidTS(sec, nsec int64) bool {
	return sec >= -62135596800 && sec <= 253402300799 && nsec >= 0 && nsec < 1000000000
}

// Harness_C18_shardInterval: a shard's interval is accepted iff its bounds are valid
// timestamps and start < limit when both are present.
//
//verif:opt maxpaths=2000 reach=ok,bad
func Harness_C18_shardInterval() {
	cfg := &configpb.LogShardConfig{Uri: "http://x"}
	ok := true
	var ls, ln, hs, hn int64
	hasLo := vChoice("has-lower", 2) == 1
	hasHi := vChoice("has-upper", 2) == 1
	if hasLo {
		cfg.NotAfterStart, ls, ln = c18Timestamp("lo")
		if !c18ValidTS(ls, ln) {
			ok = false
		}
	}
	if hasHi {
		cfg.NotAfterLimit, hs, hn = c18Timestamp("hi")
		if !c18ValidTS(hs, hn) {
			ok = false
		}
	}
	if ok && hasLo && hasHi && !c18Before(ls, ln, hs, hn) {
		ok = false
	}
	iv, err := shardInterval(cfg)
	if ok {
		vAssert(err == nil, "well-formed shard interval accepted")
		vAssert((iv.lower != nil) == hasLo && (iv.upper != nil) == hasHi, "bounds present as configured")
		vReach("ok")
	} else {
		vAssert(err != nil, "invalid or inverted shard interval refused")
		vReach("bad")
	}
}

// Harness_C18_contiguity: the contiguity rules of NewTemporalLogClient for two shards, and the
// routing of every instant to exactly one shard of a contiguous list.
//
//verif:opt maxpaths=4000 reach=built,refused
func Harness_C18_contiguity() {
	mk := func(name string) (*configpb.LogShardConfig, bool, bool, [4]int64) {
		c := &configpb.LogShardConfig{Uri: "http://" + name}
		var v [4]int64
		hasLo := vChoice(name+"-has-lower", 2) == 1
		hasHi := vChoice(name+"-has-upper", 2) == 1
		if hasLo {
			c.NotAfterStart, v[0], v[1] = c18Timestamp(name + "-lo")
			vAssume(c18ValidTS(v[0], v[1]))
		}
		if hasHi {
			c.NotAfterLimit, v[2], v[3] = c18Timestamp(name + "-hi")
			vAssume(c18ValidTS(v[2], v[3]))
		}
		if hasLo && hasHi {
			vAssume(c18Before(v[0], v[1], v[2], v[3]))
		}
		return c, hasLo, hasHi, v
	}
	a, aLo, aHi, av := mk("a")
	b, bLo, bHi, bv := mk("b")
	cfg := &configpb.TemporalLogConfig{Shard: []*configpb.LogShardConfig{a, b}}
	tlc, err := NewTemporalLogClient(cfg, nil)
	contiguous := aHi && bLo && av[2] == bv[0] && av[3] == bv[1]
	if !contiguous {
		vAssert(err != nil, "non-contiguous or unbounded-extending shard list refused")
		vReach("refused")
		return
	}
	vAssert(err == nil, "contiguous shard list accepted")
	if err != nil {
		return
	}
	vReach("built")
	// routing is a function of the instant alone: an earlier lookup on the same client, for any
	// other instant, does not change the answer
	if vChoice("earlier-lookup", 2) == 1 {
		t0, _, _ := c18Instant("t0")
		_, _ = tlc.IndexByDate(t0)
	}
	t, ts, tn := c18Instant("t")
	idx, ierr := tlc.IndexByDate(t)
	inA := (!aLo || !c18Before(ts, tn, av[0], av[1])) && c18Before(ts, tn, av[2], av[3])
	inB := !c18Before(ts, tn, bv[0], bv[1]) && (!bHi || c18Before(ts, tn, bv[2], bv[3]))
	vAssert(!(inA && inB), "shards of a contiguous list do not overlap")
	if inA {
		vAssert(ierr == nil && idx == 0, "instant of the first shard routed to it")
	} else if inB {
		vAssert(ierr == nil && idx == 1, "instant of the second shard routed to it")
	} else {
		vAssert(ierr != nil, "instant outside the overall span routed nowhere")
	}
}
