//go:build verif

//verif:package loglist3

package loglist3

import (
	"time"

	"github.com/google/certificate-transparency-go/x509"
)

func c18Instant(name string) (time.Time, int64, int64) {
	sec := vI64(name + ".sec")
	nsec := vI64(name + ".nsec")
	vAssume(sec >= -62135596800 && sec <= 253402300799)
	vAssume(nsec >= 0 && nsec < 1000000000)
	return time.Unix(sec, nsec).UTC(), sec, nsec
}

func c18Before(s1, n1, s2, n2 int64) bool { return s1 < s2 || (s1 == s2 && n1 < n2) }

// Harness_C18_temporallyCompatible: the log-list filter keeps a log exactly when
// start <= NotAfter < end (or when the log has no interval).
//
//verif:opt maxpaths=500 reach=kept,dropped,nointerval
func Harness_C18_temporallyCompatible() {
	t, ts, tn := c18Instant("notafter")
	cert := &x509.Certificate{NotAfter: t}
	l := &Log{URL: "https://log/", Description: "L"}
	inside := true
	if vChoice("has-interval", 2) == 1 {
		lo, ls, ln := c18Instant("start")
		hi, hs, hn := c18Instant("end")
		// the same instants spelled with a zone offset (RFC 3339 bounds of a log list need not be in UTC)
		if vChoice("bounds-zone", 2) == 1 {
			z := time.FixedZone("+01:00", 3600)
			lo, hi = lo.In(z), hi.In(z)
		}
		l.TemporalInterval = &TemporalInterval{StartInclusive: lo, EndExclusive: hi}
		inside = !c18Before(ts, tn, ls, ln) && c18Before(ts, tn, hs, hn)
	} else {
		vReach("nointerval")
	}
	ll := &LogList{Operators: []*Operator{{Name: "op", Logs: []*Log{l}}}}
	got := ll.TemporallyCompatible(cert)
	n := 0
	for _, op := range got.Operators {
		for _, gl := range op.Logs {
			vAssert(gl == l, "only logs of the list are returned")
			n++
		}
	}
	if inside {
		vAssert(n == 1, "log whose interval contains NotAfter is kept")
		vReach("kept")
	} else {
		vAssert(n == 0, "log whose interval does not contain NotAfter is dropped")
		vReach("dropped")
	}
}
