//go:build verif

//verif:package trillian/ctfe

package ctfe

import (
	"time"

	"github.com/google/certificate-transparency-go/x509"
	"github.com/google/certificate-transparency-go/x509util"
)

var c18Leaf *x509.Certificate

//verif:stub github.com/google/certificate-transparency-go/x509.ParseCertificate files=*
func c18ParseCertificate(b []byte) (*x509.Certificate, error) { return c18Leaf, nil }

//verif:stub (*github.com/google/certificate-transparency-go/x509.Certificate).Verify files=cert_checker.go method=Verify
func c18Verify(c *x509.Certificate, opts x509.VerifyOptions) ([][]*x509.Certificate, error) {
	return [][]*x509.Certificate{{c, {Raw: []byte{0x30, 1}}}}, nil
}

func c18Instant(name string) (time.Time, int64, int64) {
	sec := vI64(name + ".sec")
	nsec := vI64(name + ".nsec")
	vAssume(sec > -62135596800 && sec <= 253402300799)
	vAssume(nsec >= 0 && nsec < 1000000000)
	return time.Unix(sec, nsec).UTC(), sec, nsec
}

func c18Before(s1, n1, s2, n2 int64) bool { return s1 < s2 || (s1 == s2 && n1 < n2) }

// Harness_C18_serverWindow: the log server's NotAfter admission window (all other filters off)
// admits exactly start <= NotAfter < limit, bounds optional.
//
//verif:opt maxpaths=500 reach=admitted,rejected
func Harness_C18_serverWindow() {
	na, ts, tn := c18Instant("notafter")
	c18Leaf = &x509.Certificate{Raw: []byte{0x30, 0}, NotAfter: na}
	now, _, _ := c18Instant("now")
	opts := CertValidationOpts{trustedRoots: x509util.NewPEMCertPool(), currentTime: now}
	inside := true
	if vChoice("has-start", 2) == 1 {
		st, ss, sn := c18Instant("start")
		opts.notAfterStart = &st
		if c18Before(ts, tn, ss, sn) {
			inside = false
		}
	}
	if vChoice("has-limit", 2) == 1 {
		li, ls, ln := c18Instant("limit")
		opts.notAfterLimit = &li
		if !c18Before(ts, tn, ls, ln) {
			inside = false
		}
	}
	_, err := ValidateChain([][]byte{{0}}, opts)
	if inside {
		vAssert(err == nil, "NotAfter inside [start,limit) admitted")
		vReach("admitted")
	} else {
		vAssert(err != nil, "NotAfter outside [start,limit) rejected")
		vReach("rejected")
	}
}
