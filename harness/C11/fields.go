//go:build verif

//verif:package x509

package x509

import (
	stdx509 "crypto/x509"
)

// Harness_C11_fieldsVsStd: on the certificate skeleton with a 9-bit key usage and basic
// constraints of symbolic content, every field value the standard library parser reports for the
// same bytes is reported identically by the lenient parser (whenever the standard library accepts
// the certificate at all).
//
//verif:opt maxpaths=6000 reach=both-accept wall=900
func Harness_C11_fieldsVsStd() {
	b0, b1 := vU8("ku-bits-0"), vU8("ku-bits-1")
	vAssume(b1&0x7f == 0 && b1 != 0) // 9 significant bits, 7 unused: the last named bit (decipherOnly) is set
	ku := c03Ext(c03OIDKU, true, []byte{0x03, 0x03, 0x07, b0, b1})
	pathLen := vU8("path-len")
	vAssume(pathLen < 0x80)
	var bc []byte
	switch vChoice("basic-constraints", 3) {
	case 0:
		bc = c03Ext(c03OIDBC, true, []byte{0x30, 0x00})
	case 1:
		bc = c03Ext(c03OIDBC, true, []byte{0x30, 0x03, 0x01, 0x01, 0xff})
	case 2:
		bc = c03Ext(c03OIDBC, true, []byte{0x30, 0x06, 0x01, 0x01, 0xff, 0x02, 0x01, pathLen})
	}
	serial := vU8("serial")
	vAssume(serial >= 1 && serial < 0x80)
	cn := vBytes("issuer-cn", 2)
	vAssume(cn[0] >= 'a' && cn[0] <= 'z' && cn[1] >= 'a' && cn[1] <= 'z')
	issuer := derTLV(0x30, derTLV(0x31, derTLV(0x30, []byte{0x06, 0x03, 0x55, 0x04, 0x03}, derTLV(0x0c, cn))))
	// a (toy) RSA public key so that the standard library accepts the SubjectPublicKeyInfo
	spkiAlg := derTLV(0x30, []byte{0x06, 0x09, 0x2a, 0x86, 0x48, 0x86, 0xf7, 0x0d, 0x01, 0x01, 0x01}, []byte{0x05, 0x00})
	sigAlg := derTLV(0x30, []byte{0x06, 0x09, 0x2a, 0x86, 0x48, 0x86, 0xf7, 0x0d, 0x01, 0x01, 0x0b}, []byte{0x05, 0x00})
	rsaKey := derTLV(0x30, []byte{0x02, 0x03, 0x01, 0x00, 0x01}, []byte{0x02, 0x03, 0x01, 0x00, 0x01})
	spki := derTLV(0x30, spkiAlg, derTLV(0x03, append([]byte{0x00}, rsaKey...)))
	validity := derTLV(0x30, derTLV(0x17, []byte("250101000000Z")), derTLV(0x17, []byte("260101000000Z")))
	// the optional issuerUniqueID [1] / subjectUniqueID [2] members (RFC 5280 4.1.2.8) sit between the key and the extensions
	var uids []byte
	switch vChoice("unique-ids", 4) {
	case 1:
		uids = []byte{0x81, 0x03, 0x00, vU8("issuer-uid"), 0xfe}
	case 2:
		uids = []byte{0x82, 0x02, 0x00, vU8("subject-uid")}
	case 3:
		uids = []byte{0x81, 0x03, 0x00, 0xca, 0xfe, 0x82, 0x04, 0x00, 0x01, 0x02, 0x03}
	}
	tbs := derTLV(0x30, []byte{0xa0, 0x03, 0x02, 0x01, 0x02}, []byte{0x02, 0x01, serial}, sigAlg, issuer, validity, issuer, spki, uids,
		derTLV(0xa3, derTLV(0x30, ku, bc)))
	der := derTLV(0x30, tbs, sigAlg, derTLV(0x03, []byte{0x00, 0x30, 0x06, 0x02, 0x01, 0x01, 0x02, 0x01, 0x01}))
	s, serr := stdx509.ParseCertificate(der)
	f, ferr := ParseCertificate(der)
	vAssert(c11Coherent(f != nil, ferr), "lenient parser: coherent outcome")
	if serr != nil {
		return
	}
	vReach("both-accept")
	vAssert(f != nil && ferr == nil, "a certificate the standard library accepts parses with no error at all")
	if f == nil {
		return
	}
	vAssert(len(f.Extensions) == len(s.Extensions) && len(f.Extensions) == 2, "every extension is seen, also behind unique identifiers")
	vAssert(int(f.KeyUsage) == int(s.KeyUsage), "KeyUsage bits as the standard library reports them (all nine)")
	vAssert(f.IsCA == s.IsCA && f.BasicConstraintsValid == s.BasicConstraintsValid && f.MaxPathLen == s.MaxPathLen && f.MaxPathLenZero == s.MaxPathLenZero, "basic constraints as the standard library reports them")
	vAssert(f.SerialNumber.Cmp(s.SerialNumber) == 0 && f.Version == s.Version, "serial and version")
	vAssert(f.NotBefore.Equal(s.NotBefore) && f.NotAfter.Equal(s.NotAfter), "validity")
	vAssert(string(f.RawSubject) == string(s.RawSubject) && f.Subject.CommonName == s.Subject.CommonName, "names")
	vAssert(int(f.PublicKeyAlgorithm) == int(s.PublicKeyAlgorithm) && int(f.SignatureAlgorithm) == int(s.SignatureAlgorithm), "algorithms")
}

// Harness_C11_crl: a minimal CRL, optionally followed by trailing bytes: no panic and never a
// mixed outcome.
//
//verif:opt maxpaths=4000 reach=parsed,refused wall=600
func Harness_C11_crl() {
	sigAlg := derTLV(0x30, []byte{0x06, 0x08, 0x2a, 0x86, 0x48, 0xce, 0x3d, 0x04, 0x03, 0x02})
	cn := vBytes("issuer-cn", 2)
	vAssume(cn[0] < 0x80 && cn[1] < 0x80)
	issuer := derTLV(0x30, derTLV(0x31, derTLV(0x30, []byte{0x06, 0x03, 0x55, 0x04, 0x03}, derTLV(0x0c, cn))))
	tbs := derTLV(0x30, []byte{0x02, 0x01, 0x01}, sigAlg, issuer, derTLV(0x17, []byte("250101000000Z")), derTLV(0x17, []byte("260101000000Z")))
	crl := derTLV(0x30, tbs, sigAlg, derTLV(0x03, []byte{0x00, vU8("sig")}))
	trailing := vChoice("trailing-bytes", 3)
	der := append(append([]byte{}, crl...), vBytes("trailing", trailing)...)
	cl, err := ParseCertificateListDER(der)
	vAssert(c11Coherent(cl != nil, err), "CRL parser: a usable object with no or non-fatal error, or no object with a fatal error")
	if trailing == 0 {
		vAssert(cl != nil, "a well-formed CRL parses")
		vReach("parsed")
	} else {
		vAssert(cl == nil && IsFatal(err), "trailing data after a CRL is refused with a fatal error")
		vReach("refused")
	}
}

// c11StdCert is the fixed-content variant of the skeleton above (toy RSA key, CA basic
// constraints, key usage) with one more extension.
func c11StdCert(extra []byte) []byte {
	ku := c03Ext(c03OIDKU, true, []byte{0x03, 0x02, 0x01, 0x06})
	bc := c03Ext(c03OIDBC, true, []byte{0x30, 0x03, 0x01, 0x01, 0xff})
	issuer := derTLV(0x30, derTLV(0x31, derTLV(0x30, []byte{0x06, 0x03, 0x55, 0x04, 0x03}, derTLV(0x0c, []byte("ca")))))
	spkiAlg := derTLV(0x30, []byte{0x06, 0x09, 0x2a, 0x86, 0x48, 0x86, 0xf7, 0x0d, 0x01, 0x01, 0x01}, []byte{0x05, 0x00})
	sigAlg := derTLV(0x30, []byte{0x06, 0x09, 0x2a, 0x86, 0x48, 0x86, 0xf7, 0x0d, 0x01, 0x01, 0x0b}, []byte{0x05, 0x00})
	rsaKey := derTLV(0x30, []byte{0x02, 0x03, 0x01, 0x00, 0x01}, []byte{0x02, 0x03, 0x01, 0x00, 0x01})
	spki := derTLV(0x30, spkiAlg, derTLV(0x03, append([]byte{0x00}, rsaKey...)))
	validity := derTLV(0x30, derTLV(0x17, []byte("250101000000Z")), derTLV(0x17, []byte("260101000000Z")))
	tbs := derTLV(0x30, []byte{0xa0, 0x03, 0x02, 0x01, 0x02}, []byte{0x02, 0x01, 0x05}, sigAlg, issuer, validity, issuer, spki,
		derTLV(0xa3, derTLV(0x30, ku, bc, extra)))
	return derTLV(0x30, tbs, sigAlg, derTLV(0x03, []byte{0x00, 0x30, 0x06, 0x02, 0x01, 0x01, 0x02, 0x01, 0x01}))
}

// c11Policies is a certificatePolicies extension with one policy 1.3.6.1.4.1.<arc>.1, the arc in
// base 128 as given.
func c11Policies(arc []byte) []byte {
	oid := append(append([]byte{0x2b, 0x06, 0x01, 0x04, 0x01}, arc...), 0x01)
	return c03Ext([]byte{0x06, 0x03, 0x55, 0x1d, 0x20}, false, derTLV(0x30, derTLV(0x30, derTLV(0x06, oid))))
}

// Harness_C11_policies: a certificate policies extension whose policy identifier has an arc that
// fits 31 bits parses with no error, as in the standard library, and the policy is reported.
//
//verif:opt maxpaths=400 reach=both-accept
func Harness_C11_policies() {
	lo := []byte{0x00, 0x01, 0x7f}[vChoice("arc-low-7-bits", 3)]
	der := c11StdCert(c11Policies([]byte{0x87, 0xff, 0xff, 0xff, lo})) // 2^31-128, 2^31-127, 2^31-1
	s, serr := stdx509.ParseCertificate(der)
	f, ferr := ParseCertificate(der)
	vAssert(serr == nil && s != nil, "the standard library accepts the certificate")
	vAssert(f != nil && ferr == nil, "a certificate the standard library accepts parses with no error at all")
	if f != nil {
		vAssert(len(f.PolicyIdentifiers) == 1 && len(s.PolicyIdentifiers) == 1 && f.PolicyIdentifiers[0].String() == s.PolicyIdentifiers[0].String(), "the policy identifier as the standard library reports it")
	}
	vReach("both-accept")
}

// Harness_C11_largeOIDArc: the same with an arc of 2^31 and above (legal: OID arcs are unbounded;
// the standard library keeps such policies in Certificate.Policies). Known finding C11-oidarc.
//
//verif:opt maxpaths=400 reach=std-accepts
func Harness_C11_largeOIDArc() {
	lo := []byte{0x00, 0x01, 0x7f}[vChoice("arc-low-7-bits", 3)]
	der := c11StdCert(c11Policies([]byte{0x88, 0x80, 0x80, 0x80, lo})) // 2^31, 2^31+1, 2^31+127
	s, serr := stdx509.ParseCertificate(der)
	vAssert(serr == nil && s != nil, "the standard library accepts the certificate")
	vReach("std-accepts")
	f, ferr := ParseCertificate(der)
	vAssert(f != nil && ferr == nil, "a policy identifier with an arc of 2^31 or more parses with no error, as in the standard library")
}

// Harness_C11_rpkiASIDs: the RFC 3779 AS identifiers extension with single AS numbers at the ends
// of their range (0, 2^31-1, 2^31, 2^32-1: the last two need a leading zero octet in DER) and a
// range up to 2^32-1: the standard library accepts the certificate, so the lenient parser reports
// no error at all, and every identifier is reported with its value.
//
//verif:opt maxpaths=200 reach=both-accept
func Harness_C11_rpkiASIDs() {
	ids := [][]byte{{0x00}, {0x7f, 0xff, 0xff, 0xff}, {0x00, 0x80, 0x00, 0x00, 0x00}, {0x00, 0xff, 0xff, 0xff, 0xff}}
	vals := []int{0, 1<<31 - 1, 1 << 31, 1<<32 - 1}
	k := vChoice("as-number", 4)
	asnum := derTLV(0xa0, derTLV(0x30,
		derTLV(0x02, ids[k]),
		derTLV(0x30, derTLV(0x02, []byte{0x01}), derTLV(0x02, []byte{0x00, 0xff, 0xff, 0xff, 0xff}))))
	ext := c03Ext([]byte{0x06, 0x08, 0x2b, 0x06, 0x01, 0x05, 0x05, 0x07, 0x01, 0x08}, vChoice("critical", 2) == 1, derTLV(0x30, asnum))
	der := c11StdCert(ext)
	_, serr := stdx509.ParseCertificate(der)
	f, ferr := ParseCertificate(der)
	if serr != nil {
		return // (a critical extension the standard library does not know)
	}
	vReach("both-accept")
	vAssert(f != nil && ferr == nil, "a certificate the standard library accepts parses with no error at all")
	if f != nil && f.RPKIASNumbers != nil {
		vAssert(len(f.RPKIASNumbers.ASIDs) == 1 && f.RPKIASNumbers.ASIDs[0] == vals[k], "the AS number is reported with its value")
		vAssert(len(f.RPKIASNumbers.ASIDRanges) == 1 && f.RPKIASNumbers.ASIDRanges[0].Min == 1 && f.RPKIASNumbers.ASIDRanges[0].Max == 1<<32-1, "the range is reported with its bounds")
	} else {
		vAssert(f == nil, "the AS identifiers are reported")
	}
}
