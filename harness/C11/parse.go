//go:build verif

//verif:package x509

package x509

func c11Skeleton() (der, tbs, issuer, subject []byte, serialLen int) {
	serialLen = 1 + vChoice("serial-len", 2)
	serial := vBytes("serial", serialLen)
	sigOID := vU8("sig-oid")
	vAssume(sigOID < 0x80)
	cn := vBytes("issuer-cn", 2)
	vAssume(cn[0] < 0x80 && cn[1] < 0x80)
	issuer = derTLV(0x30, derTLV(0x31, derTLV(0x30, []byte{0x06, 0x03, 0x55, 0x04, 0x03}, derTLV(0x0c, cn))))
	subject = derTLV(0x30)
	var exts [][]byte
	if vChoice("with-extensions", 2) == 1 {
		exts = append(exts, c03Ext(c03OIDKU, vChoice("ku-critical", 2) == 1, vBytes("ku-value", 3)))
		exts = append(exts, c03Ext(c03OIDBC, true, vBytes("bc-value", 2)))
	}
	tbs = c11TBS(serial, sigOID, issuer, subject, vU8("key-bits"), exts)
	der = c11Cert(tbs, sigOID, vBytes("sig", 2))
	return
}

// Harness_C11_coherence: on structure-preserving variations of a certificate skeleton (symbolic
// serial octets incl. non-minimal ones, algorithm, name bytes, key usage and basic-constraints
// payloads, signature bits) the certificate and TBS parsers neither panic nor return a mixed
// (object, fatal) / (nil, non-fatal) pair; the raw fields are the exact sub-slices of the input;
// parsing the certificate alone and as a one-element concatenation agree.
//
//verif:opt maxpaths=20000 reach=clean,nonfatal,fatal wall=900
func Harness_C11_coherence() {
	der, tbs, issuer, subject, _ := c11Skeleton()
	c, err := ParseCertificate(der)
	vAssert(c11Coherent(c != nil, err), "ParseCertificate: usable object with no or non-fatal error, or no object with a fatal error")
	if c != nil {
		off := len(der) - len(tbs) - (3 + 2 + 1 + 2 + 1 + 2) // tbs starts right after the outer header
		_ = off
		vAssert(vSame(c.Raw, der), "Raw is the input")
		vAssert(len(c.RawTBSCertificate) == len(tbs) && string(c.RawTBSCertificate) == string(tbs), "RawTBSCertificate is the TBS TLV")
		vAssert(string(c.RawIssuer) == string(issuer) && string(c.RawSubject) == string(subject), "RawIssuer / RawSubject are the name TLVs")
		if err == nil {
			vReach("clean")
		} else {
			vReach("nonfatal")
		}
	} else {
		vReach("fatal")
	}
	t, terr := ParseTBSCertificate(tbs)
	vAssert(c11Coherent(t != nil, terr), "ParseTBSCertificate: coherent outcome")
	vAssert((t != nil) == (c != nil), "the TBS parses alone exactly when it parses inside the certificate")
	// concatenation of one
	cs, cerr := ParseCertificates(der)
	vAssert(c11Coherent(cs != nil, cerr), "ParseCertificates: coherent outcome")
	vAssert((cs != nil) == (c != nil) && (cerr == nil) == (err == nil), "a concatenation of one certificate gives the same outcome as parsing it alone")
	if cs != nil && c != nil {
		vAssert(len(cs) == 1 && cs[0].SerialNumber.Cmp(c.SerialNumber) == 0 && string(cs[0].RawTBSCertificate) == string(c.RawTBSCertificate), "and the same certificate")
	}
}

type c11Other struct{}

func (c11Other) Error() string { return "other" }

// Harness_C11_isFatal: classification table of IsFatal.
//
//verif:opt maxpaths=200 reach=checked
func Harness_C11_isFatal() {
	vAssert(!IsFatal(nil), "nil is not fatal")
	vAssert(!IsFatal(NonFatalErrors{}), "NonFatalErrors is not fatal")
	var nfe NonFatalErrors
	nfe.AddError(c11Other{})
	vAssert(!IsFatal(nfe), "collected non-fatal errors are not fatal")
	vAssert(IsFatal(c11Other{}), "any other error is fatal")
	var errs Errors
	vAssert(!IsFatal(&errs) == !errs.Fatal(), "*Errors is classified by its own Fatal()")
	vReach("checked")
}

// Harness_C11_totality: the parsers terminate without panic and coherently on every byte
// string of up to 5 bytes.
//
//verif:opt maxpaths=60000 reach=done wall=900
func Harness_C11_totality() {
	n := vChoice("len", 6+2*vTier())
	b := vBytes("der", n)
	switch vChoice("parser", 7) {
	case 0:
		c, err := ParseCertificate(b)
		vAssert(c11Coherent(c != nil, err), "ParseCertificate coherent")
	case 1:
		c, err := ParseTBSCertificate(b)
		vAssert(c11Coherent(c != nil, err), "ParseTBSCertificate coherent")
	case 2:
		c, err := ParseCertificates(b)
		vAssert(n == 0 || c11Coherent(c != nil, err), "ParseCertificates coherent")
	case 3:
		c, err := ParseCertificateListDER(b)
		vAssert(c11Coherent(c != nil, err), "ParseCertificateListDER coherent")
	case 4:
		c, err := ParseCertificateRequest(b)
		vAssert((c != nil) != (err != nil), "ParseCertificateRequest: object xor error")
	case 5:
		k, err := ParsePKIXPublicKey(b)
		vAssert((k != nil) != (err != nil), "ParsePKIXPublicKey: key xor error")
	case 6:
		k, err := ParsePKCS1PrivateKey(b)
		vAssert((k != nil) != (err != nil), "ParsePKCS1PrivateKey: key xor error")
	}
	vReach("done")
}

// Harness_C11_concat: a concatenation of two different certificates -- one with key-usage and
// basic-constraints extensions, one with no extensions member at all, in either order -- gives
// for each certificate the outcome and the field values of parsing it alone (nothing carries over
// from the neighbour).
//
//verif:opt maxpaths=2000 reach=compared
func Harness_C11_concat() {
	issuer := derTLV(0x30, derTLV(0x31, derTLV(0x30, []byte{0x06, 0x03, 0x55, 0x04, 0x03}, derTLV(0x0c, []byte("ca")))))
	subject := derTLV(0x30)
	mk := func(serial byte, withExts bool) []byte {
		var exts [][]byte
		if withExts {
			exts = append(exts, c03Ext(c03OIDKU, true, []byte{0x03, 0x02, 0x01, 0x06}))
			exts = append(exts, c03Ext(c03OIDBC, true, []byte{0x30, 0x03, 0x01, 0x01, 0xff}))
		}
		tbs := c11TBS([]byte{serial}, 0x0b, issuer, subject, vU8("key-bits"), exts)
		return c11Cert(tbs, 0x0b, []byte{1, 2})
	}
	a, b := mk(1, true), mk(2, false)
	first, second := a, b
	if vChoice("order", 2) == 1 {
		first, second = b, a
	}
	both := append(append([]byte{}, first...), second...)
	c1, e1 := ParseCertificate(first)
	c2, e2 := ParseCertificate(second)
	cs, err := ParseCertificates(both)
	if c1 == nil || c2 == nil {
		vAssert(cs == nil && err != nil, "a certificate that does not parse alone fails the concatenation")
		return
	}
	vAssert(cs != nil && len(cs) == 2, "both certificates are returned")
	vAssert((err == nil) == (e1 == nil && e2 == nil), "the concatenation has an error exactly when one of its certificates has one alone")
	for i, alone := range []*Certificate{c1, c2} {
		got := cs[i]
		vAssert(got.SerialNumber.Cmp(alone.SerialNumber) == 0 && string(got.Raw) == string(alone.Raw), "certificates come back in order, each with its own bytes")
		vAssert(got.KeyUsage == alone.KeyUsage && got.IsCA == alone.IsCA && got.BasicConstraintsValid == alone.BasicConstraintsValid && len(got.Extensions) == len(alone.Extensions),
			"each certificate has the field values of parsing it alone: nothing carries over from its neighbour")
	}
	vReach("compared")
}
