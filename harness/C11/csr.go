//go:build verif

//verif:package x509

package x509

import (
	"encoding/hex"
)

// Two certificate requests issued by a conforming encoder for a 512-bit RSA key (signature bytes
// arbitrary: the parser does not verify them); the second omits the NULL parameters of
// rsaEncryption, which the parsers flag with an error that IsFatal classifies as non-fatal.
const (
	c11CSRWellFormed = "3081893071020100300c310a30080603550403130174305c300d06092a864886f70d0101010500034b003048024100e5e2fcc029c2b602c449d1d59a3846b870a12d9b84f861b0be945347289b68ef564f8ccb1b6feb147105a25479ff98cdc20ff5e4bef7ebe1538c4c129e14e4990203010001a000300d06092a864886f70d01010b050003050001020304"
	c11CSRNoNull     = "308187306f020100300c310a30080603550403130174305a300b06092a864886f70d010101034b003048024100dfb78255c67e3eb8d149b52d646f8d7e6cf571d10834aa8ea064f6d586e2aa5dcedc434f7531eb1d78fc53c6d6f5c05c100e19fe8d25af6b7156bd7a4e15b5290203010001a000300d06092a864886f70d01010b050003050001020304"
)

func c11CheckCoherent(have bool, err error) {
	vAssert(c11Coherent(have, err), "a usable object with no error or a non-fatal one, or no object with a fatal error -- never the mixed cases")
	if have {
		vReach("object")
	} else {
		vReach("no-object")
	}
}

// Harness_C11_csr: the CSR and public-key parsers on a well-formed request, on one with a
// non-fatal finding in its key, on every truncation of the last 24 bytes and with two symbolic
// bytes (version and a subject byte): total, and error-coherent.
//
//verif:opt maxpaths=4000 reach=object,no-object,wellformed
func Harness_C11_csr() {
	src := c11CSRWellFormed
	variant := vChoice("variant", 4)
	if variant == 1 {
		src = c11CSRNoNull
	}
	der, herr := hex.DecodeString(src)
	vAssert(herr == nil, "fixture")
	switch variant {
	case 2:
		der = der[:len(der)-1-vChoice("cut", 24)]
	case 3:
		der[7] = vU8("version")
		der[21] = vU8("subject-byte")
	}
	csr, err := ParseCertificateRequest(der)
	c11CheckCoherent(csr != nil, err)
	if variant == 0 {
		vAssert(err == nil && csr != nil && csr.Subject.CommonName == "t" && csr.PublicKeyAlgorithm == RSA && csr.Version == 0, "a well-formed request parses with no error at all")
		vReach("wellformed")
	}
	if variant <= 1 {
		// the SubjectPublicKeyInfo of the same requests through the key parser
		spki := der[22 : 22+2+int(der[23])]
		pub, perr := ParsePKIXPublicKey(spki)
		c11CheckCoherent(pub != nil, perr)
		if variant == 0 {
			vAssert(perr == nil && pub != nil, "a well-formed key parses with no error at all")
		}
	}
}
