//go:build verif

//verif:package x509

package x509

// Harness_C11_sctExtension: a certificate whose embedded SCT list extension holds one SCT of three
// symbolic bytes followed by 0-2 trailing bytes, with a minimal or a non-minimal (lax-only) serial
// and optionally an empty ExtendedKeyUsage (a field-level non-fatal defect): both entry points
// return a usable certificate with no error exactly when nothing is wrong, and otherwise the
// certificate with an error that is classified non-fatal -- also when a structural and a
// field-level defect come together; trailing bytes after the TLS-encoded list are reported.
//
//verif:opt maxpaths=4000 reach=clean,trailing,double-defect
func Harness_C11_sctExtension() {
	issuer := derTLV(0x30, derTLV(0x31, derTLV(0x30, []byte{0x06, 0x03, 0x55, 0x04, 0x03}, derTLV(0x0c, []byte("ca")))))
	subject := derTLV(0x30)
	sct := vBytes("sct", 3)
	trailing := vChoice("trailing-bytes", 3)
	list := append([]byte{0x00, 0x05, 0x00, 0x03}, sct...)
	list = append(list, vBytes("trailer", trailing)...)
	exts := [][]byte{c03Ext(c03OIDSCT, false, derTLV(0x04, list))}
	emptyEKU := vChoice("empty-eku", 2) == 1
	if emptyEKU {
		exts = append(exts, c03Ext([]byte{0x06, 0x03, 0x55, 0x1d, 0x25}, false, []byte{}))
	}
	serial := []byte{0x23}
	nonMinimal := vChoice("non-minimal-serial", 2) == 1
	if nonMinimal {
		serial = []byte{0x00, 0x23}
	}
	tbs := c11TBS(serial, 0x0b, issuer, subject, vU8("key-bits"), exts)
	der := c11Cert(tbs, 0x0b, []byte{1, 2})
	defects := trailing > 0 || emptyEKU || nonMinimal
	for entry := 0; entry < 2; entry++ {
		var c *Certificate
		var err error
		if entry == 0 {
			c, err = ParseCertificate(der)
		} else {
			c, err = ParseTBSCertificate(tbs)
		}
		vAssert(c11Coherent(c != nil, err), "usable object with no or non-fatal error, or no object with a fatal error")
		vAssert(c != nil, "none of these defects is fatal")
		if c == nil {
			return
		}
		vAssert((err != nil) == defects, "an error exactly when something is wrong: trailing bytes after the TLS-encoded SCT list, an empty ExtendedKeyUsage and a non-minimal serial are each reported")
		vAssert(len(c.SCTList.SCTList) == 1 && string(c.SCTList.SCTList[0].Val) == string(sct), "the embedded SCT is decoded")
	}
	switch {
	case nonMinimal && (emptyEKU || trailing > 0):
		vReach("double-defect")
	case trailing > 0:
		vReach("trailing")
	case !defects:
		vReach("clean")
	}
}
