//go:build verif

//verif:package scanner

package scanner

import (
	"context"
	"errors"
	"strconv"
	"sync"

	ct "github.com/google/certificate-transparency-go"
)

// Concurrency harnesses (engine option sched=1): the goroutines of Fetcher.Run -- range generator
// and ParallelFetch workers -- are interleaved at every synchronisation point (preemption-bounded),
// the data-race detector watches every load and store.

// c16ParLog answers a request for [s, e] with 1 + short[s-base] (capped at the asked number) entries; the short-read
// decision is a function of the request, not of its timing, so a schedule can be replayed.
type c16ParLog struct {
	mu    sync.Mutex
	base  int64
	size  int64
	short []int
	fail  []bool // the first request starting at index i fails once
	asked int
}

func (l *c16ParLog) BaseURI() string { return "log" }
func (l *c16ParLog) GetSTH(context.Context) (*ct.SignedTreeHead, error) {
	return &ct.SignedTreeHead{TreeSize: uint64(l.size)}, nil
}
func (l *c16ParLog) GetRawEntries(_ context.Context, s, e int64) (*ct.GetEntriesResponse, error) {
	vSched("get " + strconv.FormatInt(s-l.base, 10))
	l.mu.Lock()
	defer l.mu.Unlock()
	l.asked++
	if s < l.base || e < s || e >= l.size {
		return nil, errors.New("bad range")
	}
	k := int(s - l.base)
	if l.fail[k] {
		l.fail[k] = false
		return nil, errors.New("connection reset")
	}
	n := 1 + l.short[k]
	if asked := int(e - s + 1); n > asked {
		n = asked
	}
	rsp := &ct.GetEntriesResponse{}
	for i := 0; i < n; i++ {
		rsp.Entries = append(rsp.Entries, ct.LeafEntry{LeafInput: []byte{byte(k + i)}, ExtraData: []byte{0xe0 + byte(k+i)}})
	}
	return rsp, nil
}

type c16Sink struct {
	mu    sync.Mutex
	base  int64
	count []int
	bad   bool
}

func (s *c16Sink) deliver(b EntryBatch) {
	s.mu.Lock()
	defer s.mu.Unlock()
	for i, e := range b.Entries {
		k := int(b.Start + int64(i) - s.base)
		if k < 0 || k >= len(s.count) {
			s.bad = true
			continue
		}
		s.count[k]++
		if len(e.LeafInput) != 1 || int(e.LeafInput[0]) != k || len(e.ExtraData) != 1 || e.ExtraData[0] != 0xe0+byte(k) {
			s.bad = true
		}
	}
}

func c16ParSetup(n int) (*c16ParLog, *c16Sink, int64) {
	base := int64(5) // concrete: the index arithmetic is decided for all values by genRanges / worker
	log := &c16ParLog{base: base, size: base + int64(n)}
	for i := 0; i < n; i++ {
		log.short = append(log.short, vChoice("short", 2))
		log.fail = append(log.fail, vChoice("fail", 2) == 1)
	}
	return log, &c16Sink{base: base, count: make([]int, n)}, base
}

// Harness_C16_runParallel: Fetcher.Run with two workers over 3-4 indices in batches of 2, short reads and one transient
// error per request start: on every interleaving Run returns, and every index reached the callback exactly once with its bytes.
//
//verif:opt sched=1 race=1 preempt=2 thorough.preempt=3 maxpaths=400000 thorough.maxpaths=4000000 decisions=3000 steps=20000000 reach=done
func Harness_C16_runParallel() {
	n := 3 + vTier()
	log, sink, base := c16ParSetup(n)
	f := NewFetcher(log, &FetcherOptions{BatchSize: 2, ParallelFetch: 2, StartIndex: base, EndIndex: base + int64(n)})
	err := f.Run(context.Background(), sink.deliver)
	vAssert(err == nil, "Run completes")
	vAssert(!sink.bad, "only indices of the range, each with the bytes the log returned for it")
	for k := 0; k < n; k++ {
		vAssert(sink.count[k] == 1, "every index of the range is delivered exactly once")
	}
	vReach("done")
}

// Harness_C16_sharedOptions: one options value configures two fetchers that run one after the
// other (a caller that scans the same range twice, e.g. for certificates and for precertificates):
// the options say which range is scanned, so each of the two runs delivers every index of
// [StartIndex, EndIndex) exactly once -- a scan does not move the configured start.
//
//verif:opt sched=1 race=1 preempt=1 thorough.preempt=2 maxpaths=400000 thorough.maxpaths=4000000 decisions=3000 steps=20000000 reach=done
func Harness_C16_sharedOptions() {
	n := 3
	log, sink, base := c16ParSetup(n)
	for i := range log.fail {
		log.fail[i] = false
	}
	opts := &FetcherOptions{BatchSize: 2, ParallelFetch: 1 + vChoice("fetchers", 2), StartIndex: base}
	if vChoice("end-given", 2) == 1 {
		opts.EndIndex = base + int64(n)
	}
	for run := 1; run <= 2; run++ {
		err := NewFetcher(log, opts).Run(context.Background(), sink.deliver)
		vAssert(err == nil, "Run completes")
		vAssert(!sink.bad, "only indices of the range, each with the bytes the log returned for it")
		for k := 0; k < n; k++ {
			vAssert(sink.count[k] == run, "every run on the same options delivers every index of the configured range exactly once")
		}
	}
	vReach("done")
}

// Harness_C16_stop: Stop arrives at an arbitrary moment: Run still returns (no goroutine is left
// blocked), nothing is delivered twice, and what was delivered is a union of whole answered requests.
//
//verif:opt sched=1 race=1 preempt=2 thorough.preempt=3 maxpaths=400000 thorough.maxpaths=4000000 decisions=3000 steps=20000000 reach=stopped
func Harness_C16_stop() {
	n := 3
	log, sink, base := c16ParSetup(n)
	f := NewFetcher(log, &FetcherOptions{BatchSize: 1, ParallelFetch: 2, StartIndex: base, EndIndex: base + int64(n)})
	done := make(chan struct{})
	go func() {
		vSched("stop")
		f.Stop()
		close(done)
	}()
	err := f.Run(context.Background(), sink.deliver)
	<-done
	vAssert(err == nil, "Run returns after Stop")
	vAssert(!sink.bad, "only indices of the range, each with its bytes")
	for k := 0; k < n; k++ {
		vAssert(sink.count[k] <= 1, "no index is delivered twice")
	}
	vReach("stopped")
}

// c16Leaf builds the RFC 6962 leaf_input / extra_data of a one-byte certificate or precertificate.
func c16Leaf(k int, precert bool) ct.LeafEntry {
	li := []byte{0, 0, 0, 0, 0, 0, 0, 0, 0, byte(k)} // version, leaf type, timestamp = k
	if !precert {
		li = append(li, 0, 0, 0, 0, 1, byte(0x30+k), 0, 0) // x509_entry, ASN.1Cert<1>, no extensions
		return ct.LeafEntry{LeafInput: li, ExtraData: []byte{0, 0, 0}}
	}
	li = append(li, 0, 1) // precert_entry
	li = append(li, make([]byte, 32)...)
	li = append(li, 0, 0, 1, byte(0x30+k), 0, 0) // TBS<1>, no extensions
	return ct.LeafEntry{LeafInput: li, ExtraData: []byte{0, 0, 1, byte(0x50 + k), 0, 0, 0}}
}

type c16ScanLogClient struct {
	c16ParLog
	pre []bool
}

func (l *c16ScanLogClient) GetRawEntries(ctx context.Context, s, e int64) (*ct.GetEntriesResponse, error) {
	rsp, err := l.c16ParLog.GetRawEntries(ctx, s, e)
	if err != nil {
		return nil, err
	}
	for i := range rsp.Entries {
		k := int(s-l.base) + i
		rsp.Entries[i] = c16Leaf(k, l.pre[k])
	}
	return rsp, nil
}

type c16Matcher struct{ sel []bool }

func (m c16Matcher) Matches(l *ct.LeafEntry) bool { return m.sel[int(l.LeafInput[9])] }

// Harness_C16_scanLog: Scanner.ScanLog with two matcher workers behind the fetcher: on every
// interleaving the certificate callback runs exactly once for every selected certificate entry, the
// precertificate callback exactly once for every selected precertificate entry, and neither for
// the entries the matcher does not select.
//
//verif:opt sched=1 race=1 preempt=1 thorough.preempt=2 maxpaths=400000 thorough.maxpaths=4000000 decisions=4000 steps=20000000 reach=scanned
func Harness_C16_scanLog() {
	n := 3
	log := &c16ScanLogClient{}
	log.base, log.size = 0, int64(n)
	m := c16Matcher{}
	// two entry patterns (the sequential entry handling is decided for all inputs by C07 / C12):
	// cert selected, precert selected, cert skipped -- or its complement
	flip := vChoice("pattern", 2) == 1
	for i := 0; i < n; i++ {
		log.short = append(log.short, (i+1)%2)
		log.fail = append(log.fail, false)
		log.pre = append(log.pre, (i == 1) != flip)
		m.sel = append(m.sel, (i != 2) != flip)
	}
	opts := ScannerOptions{FetcherOptions: FetcherOptions{BatchSize: 2, ParallelFetch: 1 + vChoice("fetchers", 2), StartIndex: 0, EndIndex: int64(n)},
		Matcher: m, NumWorkers: 2, BufferSize: vChoice("buffer", 2)}
	s := NewScanner(log, opts)
	var mu sync.Mutex
	certs, pres := make([]int, n), make([]int, n)
	bad := false
	got, err := s.ScanLog(context.Background(), func(e *ct.RawLogEntry) {
		mu.Lock()
		defer mu.Unlock()
		if e.Index < 0 || e.Index >= int64(n) || len(e.Cert.Data) != 1 || e.Cert.Data[0] != byte(0x30+e.Index) {
			bad = true
			return
		}
		certs[e.Index]++
	}, func(e *ct.RawLogEntry) {
		mu.Lock()
		defer mu.Unlock()
		if e.Index < 0 || e.Index >= int64(n) || len(e.Cert.Data) != 1 || e.Cert.Data[0] != byte(0x50+e.Index) {
			bad = true
			return
		}
		pres[e.Index]++
	})
	vAssert(err == nil && got == int64(n), "the scan completes and reports the end of its range")
	vAssert(!bad, "callbacks receive the entry's own index and bytes")
	for k := 0; k < n; k++ {
		wantCert, wantPre := 0, 0
		if m.sel[k] && !log.pre[k] {
			wantCert = 1
		}
		if m.sel[k] && log.pre[k] {
			wantPre = 1
		}
		vAssert(certs[k] == wantCert, "certificate callback exactly once per selected certificate entry")
		vAssert(pres[k] == wantPre, "precertificate callback exactly once per selected precertificate entry")
	}
	vReach("scanned")
}

// c16GrowingLog publishes tree heads of growing size: every GetSTH call after the first reports
// sizes[k] for the k-th call (the last one forever).
type c16GrowingLog struct {
	c16ParLog
	sizes []int64
	calls int
}

func (l *c16GrowingLog) GetSTH(context.Context) (*ct.SignedTreeHead, error) {
	vSched("get-sth")
	l.mu.Lock()
	defer l.mu.Unlock()
	k := l.calls
	if k >= len(l.sizes) {
		k = len(l.sizes) - 1
	}
	l.calls++
	if l.sizes[k] > l.size {
		l.size = l.sizes[k] // entries once published stay available, also while a lagging front end serves an older head
	}
	return &ct.SignedTreeHead{TreeSize: uint64(l.sizes[k])}, nil
}

// Harness_C16_continuous: continuous mode. The log first publishes 2 entries, then (after an
// unchanged or a stale, smaller head) 4; the fetcher carries on with the newly published entries without gaps or
// repeats, and stops when Stop is called after index 3 was delivered: every index of [start, 4)
// (start = 0, or 3: beyond the first tree head) reaches the callback exactly once, nothing else does, Run returns.
//
//verif:opt sched=1 race=1 preempt=1 thorough.preempt=2 maxpaths=400000 thorough.maxpaths=4000000 decisions=8000 steps=40000000 reach=stopped
func Harness_C16_continuous() {
	const n = 4
	// the tree heads the log serves: growing, or with stale (smaller) heads from a lagging front end in between
	log := &c16GrowingLog{sizes: [][]int64{{2, 2, 4, 4}, {2, 1, 4, 3, 4}}[vChoice("sth-history", 2)]}
	log.base = 0
	for i := 0; i < n; i++ {
		log.short = append(log.short, (i+vChoice("short", 2))%2)
		log.fail = append(log.fail, false)
	}
	sink := &c16Sink{count: make([]int, n)}
	all := make(chan struct{})
	total, closed := 0, false
	// the scan starts at 0, or at an index the log has not reached yet when the scan begins
	start := 3 * vChoice("start-beyond-first-head", 2)
	f := NewFetcher(log, &FetcherOptions{BatchSize: 2, ParallelFetch: 1 + vChoice("fetchers", 2), Continuous: true, StartIndex: int64(start)})
	done := make(chan error, 1)
	go func() {
		done <- f.Run(context.Background(), func(b EntryBatch) {
			sink.deliver(b)
			sink.mu.Lock()
			total += len(b.Entries)
			if total >= n-start && !closed {
				closed = true
				close(all)
			}
			sink.mu.Unlock()
		})
	}()
	<-all
	f.Stop()
	err := <-done
	vAssert(err == nil, "Run returns after Stop")
	sink.mu.Lock()
	defer sink.mu.Unlock()
	vAssert(!sink.bad, "only published indices, each with its bytes")
	for k := 0; k < n; k++ {
		if k < start {
			vAssert(sink.count[k] == 0, "nothing below the start index is delivered, also when the log was smaller than the start index at first")
		} else {
			vAssert(sink.count[k] == 1, "continuous mode carries on with newly published entries without gaps or repeats")
		}
	}
	vReach("stopped")
}

// Harness_C16_scanCancel: the caller cancels a scan at an arbitrary moment: ScanLog returns on
// every interleaving (no fetch or matcher goroutine is left blocked on the other), and no entry
// reached a callback twice.
//
//verif:opt sched=1 race=1 preempt=1 thorough.preempt=2 maxpaths=400000 thorough.maxpaths=4000000 decisions=4000 steps=20000000 reach=returned
func Harness_C16_scanCancel() {
	n := 3
	log := &c16ScanLogClient{}
	log.base, log.size = 0, int64(n)
	m := c16Matcher{}
	for i := 0; i < n; i++ {
		log.short = append(log.short, 1)
		log.fail = append(log.fail, false)
		log.pre = append(log.pre, i == 1)
		m.sel = append(m.sel, true)
	}
	opts := ScannerOptions{FetcherOptions: FetcherOptions{BatchSize: 3, ParallelFetch: 1, StartIndex: 0, EndIndex: int64(n)},
		Matcher: m, NumWorkers: 1 + vChoice("matchers", 2), BufferSize: vChoice("buffer", 2)}
	s := NewScanner(log, opts)
	ctx, cancel := context.WithCancel(context.Background())
	done := make(chan struct{})
	go func() {
		vSched("caller cancels")
		cancel()
		close(done)
	}()
	var mu sync.Mutex
	seen := make([]int, n)
	count := func(e *ct.RawLogEntry) {
		mu.Lock()
		defer mu.Unlock()
		if e.Index >= 0 && e.Index < int64(n) {
			seen[e.Index]++
		}
	}
	s.ScanLog(ctx, count, count)
	<-done
	mu.Lock()
	defer mu.Unlock()
	for k := 0; k < n; k++ {
		vAssert(seen[k] <= 1, "no entry reaches a callback twice")
	}
	vReach("returned")
}
