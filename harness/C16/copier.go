//go:build verif

//verif:package trillian/integration

package integration

import (
	"context"
	"sync"

	ct "github.com/google/certificate-transparency-go"
	"github.com/google/certificate-transparency-go/client"
	"github.com/google/certificate-transparency-go/scanner"
	"github.com/google/certificate-transparency-go/trillian/ctfe/configpb"
	"github.com/google/certificate-transparency-go/x509"
	"github.com/google/certificate-transparency-go/x509util"
)

// The source log is cut at the LogClient calls (the fetchers' calls in scanner/fetcher.go through
// the scanner hooks, the copier's own below); the root pools' overlap test is cut as well.

//verif:stub (*github.com/google/certificate-transparency-go/client.LogClient).GetAcceptedRoots files=copier.go method=GetAcceptedRoots
func c16GetAcceptedRoots(_ *client.LogClient, ctx context.Context) ([]ct.ASN1Cert, error) {
	return []ct.ASN1Cert{{Data: []byte{0x30, 0x00}}}, nil
}

//verif:stub github.com/google/certificate-transparency-go/x509.ParseCertificate files=copier.go
func c16ParseCertificate(der []byte) (*x509.Certificate, error) {
	return &x509.Certificate{Raw: der}, nil
}

//verif:stub (*github.com/google/certificate-transparency-go/x509util.PEMCertPool).Included files=copier.go method=Included
func c16Included(_ *x509util.PEMCertPool, _ *x509.Certificate) bool { return true }

// Harness_C16_copier: the chain copier scans its source log with two fetchers (certificates and
// precertificates) at once. Each of them is asked every index of the published range exactly
// once, starting at the configured start index, and the two scans do not interfere: no data
// race on any interleaving within the delay bound.
//
//verif:opt sched=1 race=1 preempt=1 thorough.preempt=2 maxpaths=200000 thorough.maxpaths=2000000 decisions=4000 steps=20000000 reach=scanned
func Harness_C16_copier() {
	const n = 4
	var mu sync.Mutex
	asked := make([]int, n)
	bad := false
	sths := 0
	scanner.VerifHookGetSTH = func(context.Context) (*ct.SignedTreeHead, error) {
		mu.Lock()
		defer mu.Unlock()
		sths++
		return &ct.SignedTreeHead{TreeSize: n}, nil
	}
	both := make(chan struct{})
	total := 0
	scanner.VerifHookGetRawEntries = func(_ context.Context, start, end int64) (*ct.GetEntriesResponse, error) {
		mu.Lock()
		defer mu.Unlock()
		if start < 0 || end >= n || start > end {
			bad = true
			return nil, context.Canceled
		}
		rsp := &ct.GetEntriesResponse{}
		for i := start; i <= end; i++ {
			asked[i]++
			total++
			rsp.Entries = append(rsp.Entries, ct.LeafEntry{LeafInput: []byte{byte(i)}}) // not a parsable leaf: the copier skips it
		}
		if total == 2*(n-1) {
			close(both)
		}
		return rsp, nil
	}
	ctx, cancel := context.WithCancel(context.Background())
	_, err := NewCopyChainGeneratorFromOpts(ctx, &client.LogClient{}, &configpb.LogConfig{Prefix: "target"},
		CopyChainOptions{StartIndex: 1, BufSize: 1, BatchSize: 2, ParallelFetch: 1})
	vAssert(err == nil, "the copier starts")
	<-both
	cancel()
	mu.Lock()
	defer mu.Unlock()
	vAssert(!bad, "only published indices are requested")
	vAssert(asked[0] == 0, "nothing below the start index is requested")
	for k := 1; k < n; k++ {
		vAssert(asked[k] == 2, "each of the two scans requests every index from the start index on exactly once")
	}
	vReach("scanned")
}
