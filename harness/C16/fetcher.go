//go:build verif

//verif:package scanner

package scanner

import (
	"context"
	"errors"

	ct "github.com/google/certificate-transparency-go"
	"github.com/google/certificate-transparency-go/jsonclient"
)

// Harness_C16_genRanges: the range generator partitions [Start, End) into contiguous,
// disjoint batches of at most BatchSize, in order (goroutine sequentialised, channel = FIFO).
//
//verif:opt sched=1 preempt=0 maxpaths=4000 reach=empty,covered
func Harness_C16_genRanges() {
	start, end := vI64("start"), vI64("end")
	batch := vInt("batch")
	vAssume(start >= 0 && end >= 0) // any indices up to MaxInt64, any positive batch size up to MaxInt64
	vAssume(batch >= 1)
	vAssume(end < start || (end-start)/3 < int64(batch)) // stated bound: at most 4 batches (unwinding)
	f := &Fetcher{uri: "log", opts: &FetcherOptions{BatchSize: batch, StartIndex: start, EndIndex: end}}
	ch := f.genRanges(context.Background())
	next := start
	n := 0
	for r := range ch {
		n++
		vAssert(r.start == next, "ranges are contiguous and in order, beginning at StartIndex")
		vAssert(r.start <= r.end, "no empty range")
		vAssert(r.end-r.start+1 <= int64(batch), "no range longer than the batch size")
		vAssert(r.end < end, "no range beyond EndIndex")
		next = r.end + 1
	}
	if start >= end {
		vAssert(n == 0, "empty range: nothing generated")
		vReach("empty")
		return
	}
	vAssert(next == end, "the ranges cover [StartIndex, EndIndex) exactly")
	vReach("covered")
}

type c16Log struct {
	calls   int
	asked   [][2]int64
	respond func(start, end int64) (*ct.GetEntriesResponse, error)
}

func (l *c16Log) BaseURI() string { return "log" }
func (l *c16Log) GetSTH(context.Context) (*ct.SignedTreeHead, error) {
	return nil, errors.New("not scripted")
}
func (l *c16Log) GetRawEntries(_ context.Context, start, end int64) (*ct.GetEntriesResponse, error) {
	l.calls++
	l.asked = append(l.asked, [2]int64{start, end})
	return l.respond(start, end)
}

// Harness_C16_worker: one worker on one range against a log that returns between one and the
// asked number of entries per request and fails up to twice: every index of the range is
// delivered exactly once, in order, with the bytes the log returned for it.
//
//verif:opt maxpaths=20000 reach=done
func Harness_C16_worker() {
	first := vI64("range-start")
	vAssume(first >= 0 && first < 1<<62)
	length := 1 + vChoice("range-len", 3)
	last := first + int64(length) - 1
	log := &c16Log{}
	failures := 0
	log.respond = func(s, e int64) (*ct.GetEntriesResponse, error) {
		vAssert(s <= e && e == last, "re-requests ask for the remainder of the range only")
		if failures < 2 && vChoice("fail", 2) == 1 {
			failures++
			switch vChoice("failure-kind", 3) {
			case 0:
				return nil, jsonclient.RspError{StatusCode: 429, Err: errors.New("slow down")}
			case 1:
				return nil, jsonclient.RspError{StatusCode: 500, Err: errors.New("oops")}
			}
			return nil, errors.New("connection reset")
		}
		asked := int(e - s + 1)
		n := 1 + vChoice("short-read", asked) // 1..asked entries
		rsp := &ct.GetEntriesResponse{}
		for i := 0; i < n; i++ {
			// the entry for index k carries (k - first) in its bytes
			rsp.Entries = append(rsp.Entries, ct.LeafEntry{LeafInput: []byte{byte(s - first + int64(i))}, ExtraData: []byte{0xe0 + byte(s-first+int64(i))}})
		}
		return rsp, nil
	}
	f := &Fetcher{uri: "log", client: log, opts: &FetcherOptions{BatchSize: 3}}
	ranges := make(chan fetchRange, 1)
	ranges <- fetchRange{first, last}
	close(ranges)
	next := first
	f.runWorker(context.Background(), ranges, func(b EntryBatch) {
		vAssert(b.Start == next, "batches arrive in order without gaps or repeats")
		for i, e := range b.Entries {
			idx := b.Start + int64(i)
			vAssert(idx <= last, "nothing outside the range")
			vAssert(len(e.LeafInput) == 1 && int64(e.LeafInput[0]) == idx-first && e.ExtraData[0] == 0xe0+byte(idx-first), "each index carries the bytes the log returned for it")
		}
		next = b.Start + int64(len(b.Entries))
	})
	vAssert(next == last+1, "every index of the range delivered exactly once")
	vReach("done")
}
