//go:build verif

//verif:package scanner

package scanner

import (
	"errors"

	ct "github.com/google/certificate-transparency-go"
	"github.com/google/certificate-transparency-go/x509"
)

// Certificate parsing of scanned entries is cut: the parsed entry (or the parse error) is chosen
// by the harness.
var (
	c16Parsed   *ct.LogEntry
	c16ParseErr error
)

//verif:stub (*github.com/google/certificate-transparency-go.RawLogEntry).ToLogEntry files=scanner.go method=ToLogEntry
func c16ToLogEntry(rle *ct.RawLogEntry) (*ct.LogEntry, error) { return c16Parsed, c16ParseErr }

type c16CertMatcher struct{ cert, pre bool }

func (m c16CertMatcher) CertificateMatches(*x509.Certificate) bool      { return m.cert }
func (m c16CertMatcher) PrecertificateMatches(*ct.Precertificate) bool { return m.pre }

// Harness_C16_processEntry: what the scanner does with one fetched entry, for both kinds of
// matcher, both entry types, the PrecertOnly option, every matcher verdict and every parse
// outcome: the certificate callback runs exactly once for a selected certificate entry (never
// with PrecertOnly), the precertificate callback exactly once for a selected precertificate
// entry, neither otherwise; an entry that fails to parse fatally is counted as unparsable and
// reaches no callback; a non-fatal parse error does not hide the entry.
//
//verif:opt maxpaths=4000 reach=cert,precert,none,unparsable
func Harness_C16_processEntry() {
	precert := vChoice("entry-is-precert", 2) == 1
	precertOnly := vChoice("precert-only", 2) == 1
	matcherKind := vChoice("matcher-kind", 3) // certificate matcher | leaf matcher | none given: the documented default selects everything
	leafMatcher := matcherKind == 1
	selCert, selPre := vChoice("matcher-selects-certs", 2) == 1, vChoice("matcher-selects-precerts", 2) == 1
	parse := vChoice("parse", 3) // ok | non-fatal error | fatal error
	k := 1
	entry := c16Leaf(k, precert)
	opts := ScannerOptions{PrecertOnly: precertOnly}
	switch matcherKind {
	case 1:
		sel := make([]bool, 3)
		sel[k] = selCert
		if precert {
			sel[k] = selPre
		}
		opts.Matcher = c16Matcher{sel: sel}
	case 0:
		opts.Matcher = c16CertMatcher{cert: selCert, pre: selPre}
	default:
		vAssume(selCert && selPre)
	}
	s := NewScanner(&c16ParLog{}, opts) // the scanner as its constructor configures it
	c16Parsed = &ct.LogEntry{Index: 7, Leaf: ct.MerkleTreeLeaf{TimestampedEntry: &ct.TimestampedEntry{}}}
	if precert {
		c16Parsed.Precert = &ct.Precertificate{}
	} else {
		c16Parsed.X509Cert = &x509.Certificate{}
	}
	c16ParseErr = nil
	switch parse {
	case 1:
		c16ParseErr = x509.NonFatalErrors{Errors: []error{errors.New("odd but usable")}}
	case 2:
		c16ParseErr = errors.New("x509: malformed certificate")
		c16Parsed = nil
	}
	certs, pres := 0, 0
	var got *ct.RawLogEntry
	err := s.processEntry(entryInfo{index: 7, entry: entry},
		func(e *ct.RawLogEntry) { certs++; got = e },
		func(e *ct.RawLogEntry) { pres++; got = e })
	vAssert(s.certsProcessed == 1, "every entry is counted as processed")
	if !leafMatcher && parse == 2 {
		vAssert(err != nil && certs == 0 && pres == 0, "an entry whose certificate fails to parse fatally reaches no callback and is reported")
		vReach("unparsable")
		return
	}
	vAssert(err == nil, "a parsable entry is not an error")
	wantCert, wantPre := 0, 0
	if precert && selPre {
		wantPre = 1
	}
	if !precert && selCert && !precertOnly {
		wantCert = 1
	}
	vAssert(certs == wantCert, "certificate callback exactly once for a selected certificate entry, never with PrecertOnly, never for others")
	vAssert(pres == wantPre, "precertificate callback exactly once for a selected precertificate entry, never for others")
	if wantCert+wantPre == 1 {
		vAssert(got != nil && got.Index == 7 && len(got.Cert.Data) == 1, "the callback receives the entry itself, with its index")
		if precert {
			vReach("precert")
		} else {
			vReach("cert")
		}
	} else {
		vReach("none")
	}
}
