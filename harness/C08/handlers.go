//go:build verif

//verif:package trillian/ctfe

package ctfe

import (
	"context"
	"net/http"

	"github.com/google/trillian"
	"google.golang.org/grpc/codes"
)

// Harness_C08_consistency: get-sth-consistency under every backend fault class.
//
//verif:opt maxpaths=6000 reach=ok200,fault,badparam
func Harness_C08_consistency() {
	be, rl := &envBackend{}, &envReqLog{}
	li := envLogInfo(be, rl)
	first, second := vI64("first"), vI64("second")
	fault := vChoice("fault", nFaults)
	var code codes.Code
	var sentHashes [][]byte
	be.consistency = func(in *trillian.GetConsistencyProofRequest) (*trillian.GetConsistencyProofResponse, error) {
		vAssert(in.FirstTreeSize == first && in.SecondTreeSize == second && in.LogId == 1, "first and second forwarded in that order")
		switch fault {
		case fErrStatus, fErrPlain:
			err, c := envBackendErr(fault == fErrPlain)
			code = c
			return nil, err
		}
		rsp := &trillian.GetConsistencyProofResponse{}
		size := vU64("tree-size")
		switch fault {
		case fRootMissing:
		case fRootGarbled:
			rsp.SignedLogRoot = &trillian.SignedLogRoot{LogRoot: vBytes("junk", 2)}
		case fRootSmall:
			vAssume(size < uint64(second))
			rsp.SignedLogRoot = envRoot(size, 32)
		default:
			vAssume(size >= uint64(second))
			rsp.SignedLogRoot = envRoot(size, 32)
		}
		if fault != fPartAbsent {
			n := vChoice("n-hashes", 3)
			p := &trillian.Proof{}
			for i := 0; i < n; i++ {
				hl := 32
				if fault == fHashSize && i == n-1 {
					hl = 31 + 2*vChoice("hash-len", 2) // 31 or 33
				}
				p.Hashes = append(p.Hashes, vBytes("hash", hl))
			}
			if fault == fHashSize && n == 0 {
				p.Hashes = append(p.Hashes, []byte{})
			}
			sentHashes = p.Hashes
			rsp.Proof = p
		}
		return rsp, nil
	}
	w := &envWriter{}
	r := envGet(map[string]string{getSTHConsistencyParamFirst: vDecStr(first), getSTHConsistencyParamSecond: vDecStr(second)})
	st, err := getSTHConsistency(context.Background(), li, w, r)
	vAssert((st == http.StatusOK) == (err == nil), "status 200 iff no error")
	if first < 0 || second < 0 || second < first {
		vAssert(st >= 400 && st < 500, "out-of-range parameters give 4xx")
		vAssert(be.calls == 0, "no backend call for bad parameters")
		vReach("badparam")
		return
	}
	if first == 0 {
		vAssert(st == http.StatusOK && be.calls == 0, "first=0 answered with the empty proof without a backend call")
		return
	}
	vAssert(be.calls == 1, "exactly one backend call")
	effective := fault
	if fault >= fSurplus { // not applicable to this endpoint: behaves as a good reply
		effective = fOK
	}
	if effective == fOK {
		vAssert(st == http.StatusOK, "good reply served")
		var got struct {
			Consistency [][]byte `json:"consistency"`
		}
		vAssert(vJSONDecode(w.body, &got) == nil, "response is JSON")
		vAssert(len(got.Consistency) == len(sentHashes), "all proof hashes relayed")
		for i := range sentHashes {
			vAssert(string(got.Consistency[i]) == string(sentHashes[i]), "proof hashes relayed unchanged and in order")
		}
		vReach("ok200")
		return
	}
	envCheckFaultStatus(st, effective, code)
	vAssert(w.writes == 0, "no success body written on a fault")
	vReach("fault")
}
