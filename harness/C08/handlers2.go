//go:build verif

//verif:package trillian/ctfe

package ctfe

import (
	"bytes"
	"context"
	"crypto/ecdsa"
	"crypto/elliptic"
	"encoding/base64"
	"errors"
	"net/http"
	"net/url"

	ct "github.com/google/certificate-transparency-go"
	"github.com/google/certificate-transparency-go/x509"
	"github.com/google/trillian"
	"google.golang.org/grpc/codes"
)

// Harness_C08_proofByHash: get-proof-by-hash under every backend fault class.
//
//verif:opt maxpaths=6000 reach=ok200,fault,badparam
func Harness_C08_proofByHash() {
	be, rl := &envBackend{}, &envReqLog{}
	li := envLogInfo(be, rl)
	treeSize := vI64("tree_size")
	fault := vChoice("fault", nFaults)
	hashParam := []string{"", "!!!", "AAAA"}[vChoice("hash-param", 3)]
	var code codes.Code
	var sent *trillian.Proof
	be.proofByHash = func(in *trillian.GetInclusionProofByHashRequest) (*trillian.GetInclusionProofByHashResponse, error) {
		vAssert(in.TreeSize == treeSize && len(in.LeafHash) == 3 && in.LogId == 1 && in.OrderBySequence, "hash and tree size forwarded")
		switch fault {
		case fErrStatus, fErrPlain:
			err, c := envBackendErr(fault == fErrPlain)
			code = c
			return nil, err
		}
		rsp := &trillian.GetInclusionProofByHashResponse{}
		size := vU64("tree-size")
		switch fault {
		case fRootMissing:
		case fRootGarbled:
			rsp.SignedLogRoot = &trillian.SignedLogRoot{LogRoot: vBytes("junk", 2)}
		case fRootSmall:
			vAssume(size < uint64(treeSize))
			rsp.SignedLogRoot = envRoot(size, 32)
		default:
			vAssume(size >= uint64(treeSize))
			rsp.SignedLogRoot = envRoot(size, 32)
		}
		if fault != fPartAbsent {
			p := &trillian.Proof{LeafIndex: vI64("leaf-index")}
			n := vChoice("n-hashes", 3)
			for i := 0; i < n; i++ {
				hl := 32
				if fault == fHashSize && i == 0 {
					hl = 31 + 2*vChoice("hash-len", 2)
				}
				p.Hashes = append(p.Hashes, vBytes("hash", hl))
			}
			if fault == fHashSize && n == 0 {
				p.Hashes = [][]byte{{}}
			}
			sent = p
			rsp.Proof = []*trillian.Proof{p}
			if fault == fSurplus {
				// the leaf hash is in the log more than once: a second proof, of any index, of any
				// hash sizes, or an absent one, follows the first; it is not what is served
				if vChoice("second-proof", 2) == 0 {
					rsp.Proof = append(rsp.Proof, nil)
				} else {
					rsp.Proof = append(rsp.Proof, &trillian.Proof{LeafIndex: vI64("second-leaf-index"), Hashes: [][]byte{vBytes("second-hash", 31+vChoice("second-hash-len", 2))}})
				}
			}
		}
		return rsp, nil
	}
	w := &envWriter{}
	r := envGet(map[string]string{getProofParamHash: hashParam, getProofParamTreeSize: vDecStr(treeSize)})
	st, err := getProofByHash(context.Background(), li, w, r)
	vAssert((st == http.StatusOK) == (err == nil), "status 200 iff no error")
	if hashParam != "AAAA" || treeSize < 1 {
		vAssert(st >= 400 && st < 500 && be.calls == 0, "bad parameters give 4xx without a backend call")
		vReach("badparam")
		return
	}
	vAssert(be.calls == 1, "exactly one backend call")
	effective := fault
	if fault >= fSurplus {
		effective = fOK
	}
	if effective == fOK {
		vAssert(st == http.StatusOK, "good reply served")
		var got ct.GetProofByHashResponse
		vAssert(vJSONDecode(w.body, &got) == nil, "response is JSON")
		vAssert(got.LeafIndex == sent.LeafIndex, "leaf index of the first proof relayed")
		vAssert(len(got.AuditPath) == len(sent.Hashes), "audit path relayed")
		for i := range sent.Hashes {
			vAssert(string(got.AuditPath[i]) == string(sent.Hashes[i]), "audit path hashes relayed unchanged and in order")
			vAssert(len(got.AuditPath[i]) == 32, "every hash of a served proof has the hash size")
		}
		vReach("ok200")
		return
	}
	if effective == fPartAbsent || effective == fRootSmall {
		// "no proof" and "tree too small" are the caller asking beyond the log: 4xx
		vAssert(st >= 400 && st < 500, "asking beyond the current tree gives 4xx")
	} else {
		envCheckFaultStatus(st, effective, code)
	}
	vAssert(w.writes == 0, "no success body written on a fault")
	vReach("fault")
}

// Harness_C08_getSTH: get-sth under every backend fault class; STH fields are the backend's.
//
//verif:opt maxpaths=6000 reach=ok200,fault
func Harness_C08_getSTH() {
	be, rl := &envBackend{}, &envReqLog{}
	li := envLogInfo(be, rl)
	sg := &envSigner{pub: &ecdsa.PublicKey{Curve: elliptic.P256()}, sig: vBytes("sig", 1+vChoice("sig-len", 2))}
	signFails := vChoice("sign-fails", 2) == 1
	sg.fail = signFails
	li.signer = sg
	fault := vChoice("fault", nFaults)
	var code codes.Code
	size, tsNanos := vU64("tree-size"), vU64("ts-nanos")
	var rootHash []byte
	be.latestRoot = func(in *trillian.GetLatestSignedLogRootRequest) (*trillian.GetLatestSignedLogRootResponse, error) {
		vAssert(in.LogId == 1, "log id forwarded")
		switch fault {
		case fErrStatus, fErrPlain:
			err, c := envBackendErr(fault == fErrPlain)
			code = c
			return nil, err
		}
		rsp := &trillian.GetLatestSignedLogRootResponse{}
		switch fault {
		case fRootMissing:
		case fRootGarbled:
			rsp.SignedLogRoot = &trillian.SignedLogRoot{LogRoot: vBytes("junk", 2)}
		case fHashSize:
			rsp.SignedLogRoot = envRootTS(size, 31+2*vChoice("hash-len", 2), tsNanos, &rootHash)
		default:
			rsp.SignedLogRoot = envRootTS(size, 32, tsNanos, &rootHash)
		}
		return rsp, nil
	}
	w := &envWriter{}
	st, err := getSTH(context.Background(), li, w, envGet(nil))
	vAssert((st == http.StatusOK) == (err == nil), "status 200 iff no error")
	vAssert(be.calls == 1, "exactly one backend call")
	effective := fault
	if fault == fRootSmall || fault == fPartAbsent || fault >= fSurplus {
		effective = fOK
	}
	if effective == fOK && !signFails {
		vAssert(st == http.StatusOK, "good reply served")
		var got ct.GetSTHResponse
		vAssert(vJSONDecode(w.body, &got) == nil, "response is JSON")
		vAssert(got.TreeSize == size, "STH reports the backend's tree size")
		vAssert(got.Timestamp == tsNanos/1000/1000, "STH timestamp is the backend's, in milliseconds")
		vAssert(string(got.SHA256RootHash) == string(rootHash), "STH reports the backend's root hash")
		vAssert(len(sg.digests) == 1, "signed exactly once")
		vReach("ok200")
		return
	}
	if effective == fOK && signFails {
		vAssert(st >= 500, "signing failure gives 5xx")
		return
	}
	envCheckFaultStatus(st, effective, code)
	vAssert(w.writes == 0, "no success body written on a fault")
	vReach("fault")
}

// Harness_C08_getSTHHistory: a fault injected at any call of a request sequence: three get-sth
// requests on one instance (regular log or mirror), each answered by the backend with a good
// tree head, a tree head whose root hash has 31 bytes, or junk -- the very same bytes whenever
// the same kind repeats. Each request is answered by its own reply: 200 for a good one, 5xx
// otherwise, whatever the instance saw before.
//
//verif:opt maxpaths=4000 reach=replayed
func Harness_C08_getSTHHistory() {
	be, rl := &envBackend{}, &envReqLog{}
	li := envLogInfo(be, rl)
	li.signer = &envSigner{pub: &ecdsa.PublicKey{Curve: elliptic.P256()}, sig: []byte{1, 2}}
	if vChoice("mirror", 2) == 1 {
		li.sthGetter = &MirrorSTHGetter{li: li, st: DefaultMirrorSTHStorage{}}
	}
	_, isMirror := li.sthGetter.(*MirrorSTHGetter)
	var h31 []byte
	replies := []*trillian.SignedLogRoot{
		envRootOf(9, make([]byte, 32), 5000000),
		envRootTS(9, 31, 5000000, &h31),
		{LogRoot: []byte{0x00, 0x07}},
	}
	kind := 0
	be.latestRoot = func(*trillian.GetLatestSignedLogRootRequest) (*trillian.GetLatestSignedLogRootResponse, error) {
		return &trillian.GetLatestSignedLogRootResponse{SignedLogRoot: replies[kind]}, nil
	}
	for call := 0; call < 3; call++ {
		kind = vChoice("reply-kind", 3)
		w := &envWriter{}
		st, err := getSTH(context.Background(), li, w, envGet(nil))
		if kind == 0 && !isMirror {
			vAssert(st == http.StatusOK && err == nil, "a good tree head is served")
		}
		if kind != 0 {
			vAssert(st >= 500 && st <= 599 && err != nil && w.writes == 0, "a garbled tree head is never answered 200, whatever the instance saw before")
		}
	}
	vReach("replayed")
}

func envRootTS(size uint64, hashLen int, ts uint64, hashOut *[]byte) *trillian.SignedLogRoot {
	h := vBytes("root-hash", hashLen)
	*hashOut = h
	return envRootOf(size, h, ts)
}

// Harness_C08_wrapper: AppHandler.ServeHTTP with an arbitrary handler outcome.
//
//verif:opt maxpaths=2000 reach=wrongmethod,handled
func Harness_C08_wrapper() {
	be, rl := &envBackend{}, &envReqLog{}
	li := envLogInfo(be, rl)
	li.instanceOpts.MaskInternalErrors = vBool("mask")
	method := []string{http.MethodGet, http.MethodPost}[vChoice("handler-method", 2)]
	reqMethod := []string{http.MethodGet, http.MethodPost, http.MethodPut}[vChoice("request-method", 3)]
	hst := int(vU16("handler-status"))
	vAssume(hst >= 100 && hst <= 599)
	herr := vChoice("handler-error", 2) == 1
	called := 0
	h := AppHandler{Info: li, Name: GetSTHName, Method: method, Handler: func(context.Context, *logInfo, http.ResponseWriter, *http.Request) (int, error) {
		called++
		if herr {
			return hst, errors.New("handler failed")
		}
		return hst, nil
	}}
	w := &envWriter{}
	r := envGet(nil)
	r.Method = reqMethod
	// a query string with a pair that does not parse (in a parameter no handler reads)
	badQuery := vChoice("malformed-query", 2) == 1
	if badQuery {
		r.Form = nil
		r.URL = &url.URL{Path: "/log/ct/v1/get-sth", RawQuery: []string{"first=1&second=2&x=%zz", "%zz", "pad=%"}[vChoice("query", 3)]}
	}
	h.ServeHTTP(w, r)
	if reqMethod == method && method == http.MethodGet && badQuery {
		vAssert(called == 0 && w.status == http.StatusBadRequest, "a malformed parameter string is rejected with 400 before the handler (and any backend call)")
		vReach("handled")
		return
	}
	if reqMethod != method {
		vAssert(called == 0, "wrong method rejected before the handler")
		vAssert(w.status == http.StatusMethodNotAllowed, "wrong method gives 405")
		vAssert(len(rl.statuses) == 1 && rl.statuses[0] == http.StatusMethodNotAllowed, "request log gets the status")
		vReach("wrongmethod")
		return
	}
	vReach("handled")
	vAssert(called == 1, "handler invoked once")
	vAssert(len(rl.statuses) == 1 && rl.statuses[0] == hst, "request log gets the handler status")
	switch {
	case herr:
		vAssert(w.status == hst, "handler error: its status is sent")
	case hst != http.StatusOK:
		vAssert(w.status == http.StatusInternalServerError, "non-200 without an error is answered 500")
	default:
		vAssert(w.status == 0 || w.status == http.StatusOK, "success is not turned into an error")
	}
}

// Harness_C08_getRoots: get-roots needs no backend: it answers 200 with exactly the DER of the
// log's trusted certificates, in pool order, and never touches the backend; through the wrapper a
// POST is refused with 405.
//
//verif:opt maxpaths=2000 reach=served,wrongmethod
func Harness_C08_getRoots() {
	be, rl := &envBackend{}, &envReqLog{}
	li := envLogInfo(be, rl)
	n := vChoice("n-roots", 3)
	var ders [][]byte
	for i := 0; i < n; i++ {
		d := append([]byte{0x30, byte(i)}, vBytes("root", 1+vChoice("root-len", 2))...)
		ders = append(ders, d)
		li.validationOpts.trustedRoots.AddCert(&x509.Certificate{Raw: d, RawSubject: []byte{byte(i)}})
	}
	h := AppHandler{Info: li, Handler: getRoots, Name: GetRootsName, Method: http.MethodGet}
	w := &envWriter{}
	r := envGet(nil)
	if vChoice("post", 2) == 1 {
		r.Method = http.MethodPost
		h.ServeHTTP(w, r)
		vAssert(w.status == http.StatusMethodNotAllowed && be.calls == 0, "wrong method refused with 405")
		vReach("wrongmethod")
		return
	}
	h.ServeHTTP(w, r)
	vAssert((w.status == 0 || w.status == http.StatusOK) && be.calls == 0, "get-roots answers 200 without a backend call")
	var served [][]byte
	if vSymbolic() {
		// JSON is a codec token under the engine: the body decodes to the very map the handler
		// encoded, whose "certificates" entry holds the DER strings (base64 is JSON's rendering of []byte)
		var m map[string]interface{}
		vAssert(vJSONDecode(w.body, &m) == nil, "the body is one JSON object")
		served, _ = m["certificates"].([][]byte)
	} else {
		var rsp ct.GetRootsResponse
		vAssert(vJSONDecode(w.body, &rsp) == nil, "the body is a get-roots response")
		for _, c := range rsp.Certificates {
			d, err := base64.StdEncoding.DecodeString(c)
			vAssert(err == nil, "entries are base64")
			served = append(served, d)
		}
	}
	vAssert(len(served) == n, "one entry per trusted certificate")
	for i := 0; i < n && i < len(served); i++ {
		vAssert(bytes.Equal(served[i], ders[i]), "each entry is that certificate's DER, in pool order")
	}
	vReach("served")
}

type c08MirrorStore struct {
	sth   *ct.SignedTreeHead
	err   error
	calls int
	max   int64
}

func (s *c08MirrorStore) GetMirrorSTH(_ context.Context, maxTreeSize int64) (*ct.SignedTreeHead, error) {
	s.calls++
	s.max = maxTreeSize
	return s.sth, s.err
}

// Harness_C08_getSTHMirror: get-sth on a mirror (MirrorSTHGetter): a backend error keeps its
// status class (429 / 503 / 504 for quota, unavailability and timeouts, 4xx for caller-caused, 5xx
// otherwise), a missing or garbled tree head or a failing mirror STH store gives a non-200, and a
// good reply serves the store's STH, which was asked for with the backend's tree size as bound.
//
//verif:opt maxpaths=6000 reach=ok200,fault
func Harness_C08_getSTHMirror() {
	be, rl := &envBackend{}, &envReqLog{}
	li := envLogInfo(be, rl)
	st := &c08MirrorStore{sth: &ct.SignedTreeHead{TreeSize: vU64("mirror-size"), Timestamp: vU64("mirror-ts")}}
	li.sthGetter = &MirrorSTHGetter{li: li, st: st}
	fault := []int{fOK, fErrStatus, fErrPlain, fRootMissing, fRootGarbled}[vChoice("fault", 5)]
	storeFails := vChoice("store-fails", 2) == 1
	if storeFails {
		st.sth, st.err = nil, errors.New("no mirrored tree head yet")
	}
	var code codes.Code
	size := vU64("tree-size")
	vAssume(size < 1<<62)
	var rootHash []byte
	be.latestRoot = func(in *trillian.GetLatestSignedLogRootRequest) (*trillian.GetLatestSignedLogRootResponse, error) {
		switch fault {
		case fErrStatus, fErrPlain:
			err, c := envBackendErr(fault == fErrPlain)
			code = c
			return nil, err
		}
		rsp := &trillian.GetLatestSignedLogRootResponse{}
		switch fault {
		case fRootMissing:
		case fRootGarbled:
			rsp.SignedLogRoot = &trillian.SignedLogRoot{LogRoot: vBytes("junk", 2)}
		default:
			rsp.SignedLogRoot = envRootTS(size, 32, 5, &rootHash)
		}
		return rsp, nil
	}
	w := &envWriter{}
	status, err := getSTH(context.Background(), li, w, envGet(nil))
	vAssert((status == http.StatusOK) == (err == nil), "status 200 iff no error")
	if fault != fOK {
		envCheckFaultStatus(status, fault, code)
		vAssert(st.calls == 0 && w.writes == 0, "no STH is served on a backend fault")
		vReach("fault")
		return
	}
	vAssert(st.calls == 1 && st.max == int64(size), "the mirror store is asked for a head no larger than the backend's tree")
	if storeFails {
		vAssert(status != http.StatusOK && status >= 400 && w.writes == 0, "a failing mirror STH store never surfaces as success")
		vReach("fault")
		return
	}
	var got ct.GetSTHResponse
	vAssert(status == http.StatusOK && vJSONDecode(w.body, &got) == nil && got.TreeSize == st.sth.TreeSize && got.Timestamp == st.sth.Timestamp, "the mirrored tree head is served")
	vReach("ok200")
}
