//go:build verif

//verif:package trillian/ctfe

package ctfe

import (
	"context"
	"errors"
	"net/http"
	"strings"

	"google.golang.org/grpc/codes"
)

var c08BadNumbers = []string{"", "abc", "1.5", " 1", "0x10", "9223372036854775808", "--1"}

// Harness_C08_params: missing or malformed numeric parameters are answered 4xx before any
// backend call, on every GET endpoint that takes parameters.
//
//verif:opt maxpaths=3000 reach=checked
func Harness_C08_params() {
	be, rl := &envBackend{}, &envReqLog{}
	li := envLogInfo(be, rl)
	bad := c08BadNumbers[vChoice("bad-value", len(c08BadNumbers))]
	good := vDecStr(vI64("good-value"))
	which := vChoice("bad-param", 2)
	absent := vChoice("absent", 2) == 1
	mk := func(a, b string) *http.Request {
		m := map[string]string{a: good, b: good}
		if which == 0 {
			m[a] = bad
			if absent {
				delete(m, a)
			}
		} else {
			m[b] = bad
			if absent {
				delete(m, b)
			}
		}
		return envGet(m)
	}
	w := &envWriter{}
	var st int
	var err error
	switch vChoice("endpoint", 4) {
	case 0:
		st, err = getSTHConsistency(context.Background(), li, w, mk(getSTHConsistencyParamFirst, getSTHConsistencyParamSecond))
	case 1:
		st, err = getEntries(context.Background(), li, w, mk(getEntriesParamStart, getEntriesParamEnd))
	case 2:
		st, err = getEntryAndProof(context.Background(), li, w, mk(getEntryAndProofParamLeafIndex, getEntryAndProofParamTreeSize))
	case 3:
		r := mk(getProofParamTreeSize, getProofParamTreeSize)
		r.Form[getProofParamHash] = []string{"AAAA"}
		st, err = getProofByHash(context.Background(), li, w, r)
	}
	vAssert(st >= 400 && st < 500 && err != nil, "missing or malformed parameter gives 4xx")
	vAssert(be.calls == 0, "no backend call for a missing or malformed parameter")
	vAssert(w.writes == 0, "no success body")
	vReach("checked")
}

// Harness_C08_mask: internal error text is withheld from 500 responses when masking is enabled,
// and only then.
//
//verif:opt maxpaths=500 reach=masked,shown
func Harness_C08_mask() {
	be, rl := &envBackend{}, &envReqLog{}
	li := envLogInfo(be, rl)
	mask := vChoice("mask", 2) == 1
	li.instanceOpts.MaskInternalErrors = mask
	st := int(vU16("status"))
	vAssume(st >= 400 && st <= 599)
	w := &envWriter{}
	li.SendHTTPError(w, st, errors.New("SECRET-DETAIL"))
	vAssert(w.status == st, "status sent")
	leaked := strings.Contains(string(w.body), "SECRET-DETAIL")
	if mask && st == http.StatusInternalServerError {
		vAssert(!leaked, "internal error text withheld from a masked 500")
		vReach("masked")
	} else {
		vAssert(leaked, "error text present when not masked or not a 500")
		vReach("shown")
	}
}

// Harness_C08_statusMap: the gRPC-code mapping the property is anchored in, for every code value:
// InvalidArgument / OutOfRange / AlreadyExists -> 400, NotFound -> 404, PermissionDenied -> 403,
// Unauthenticated -> 401, FailedPrecondition -> 412, Aborted -> 409, ResourceExhausted -> 429,
// Unavailable -> 503, Canceled / DeadlineExceeded -> 504, Unimplemented -> 501, anything else
// (and any non-gRPC error) -> 500; an installed ErrorMapper takes precedence only when it claims
// the error.
//
//verif:opt maxpaths=2000 reach=mapped
func Harness_C08_statusMap() {
	li := envLogInfo(&envBackend{}, &envReqLog{})
	plain := vChoice("plain-error", 2) == 1
	err, code := envBackendErr(plain)
	mapper := vChoice("error-mapper", 3) // none | declines | claims with 418
	switch mapper {
	case 1:
		li.instanceOpts.ErrorMapper = func(error) (int, bool) { return 200, false }
	case 2:
		li.instanceOpts.ErrorMapper = func(error) (int, bool) { return 418, true }
	}
	st := li.toHTTPStatus(err)
	if mapper == 2 {
		vAssert(st == 418, "an error mapper that claims the error decides")
		vReach("mapped")
		return
	}
	want := 500
	if !plain {
		switch code {
		case codes.Canceled, codes.DeadlineExceeded:
			want = 504
		case codes.InvalidArgument, codes.OutOfRange, codes.AlreadyExists:
			want = 400
		case codes.NotFound:
			want = 404
		case codes.PermissionDenied:
			want = 403
		case codes.ResourceExhausted:
			want = 429
		case codes.Unauthenticated:
			want = 401
		case codes.FailedPrecondition:
			want = 412
		case codes.Aborted:
			want = 409
		case codes.Unimplemented:
			want = 501
		case codes.Unavailable:
			want = 503
		}
	}
	vAssert(st == want, "gRPC code mapped to the documented HTTP status")
	vReach("mapped")
}
