//go:build verif

//verif:package trillian/ctfe

package ctfe

import (
	"context"
	"errors"
	"net/http"
	"strings"
)

var c08BadNumbers = []string{"", "abc", "1.5", " 1", "0x10", "9223372036854775808", "--1"}

// Harness_C08_params: missing or malformed numeric parameters are answered 4xx before any
// backend call, on every GET endpoint that takes parameters.
//
//verif:opt maxpaths=3000 reach=checked
func Harness_C08_params() {
	be, rl := &envBackend{}, &envReqLog{}
	li := envLogInfo(be, rl)
	bad := c08BadNumbers[vChoice("bad-value", len(c08BadNumbers))]
	good := vDecStr(vI64("good-value"))
	which := vChoice("bad-param", 2)
	absent := vChoice("absent", 2) == 1
	mk := func(a, b string) *http.Request {
		m := map[string]string{a: good, b: good}
		if which == 0 {
			m[a] = bad
			if absent {
				delete(m, a)
			}
		} else {
			m[b] = bad
			if absent {
				delete(m, b)
			}
		}
		return envGet(m)
	}
	w := &envWriter{}
	var st int
	var err error
	switch vChoice("endpoint", 4) {
	case 0:
		st, err = getSTHConsistency(context.Background(), li, w, mk(getSTHConsistencyParamFirst, getSTHConsistencyParamSecond))
	case 1:
		st, err = getEntries(context.Background(), li, w, mk(getEntriesParamStart, getEntriesParamEnd))
	case 2:
		st, err = getEntryAndProof(context.Background(), li, w, mk(getEntryAndProofParamLeafIndex, getEntryAndProofParamTreeSize))
	case 3:
		r := mk(getProofParamTreeSize, getProofParamTreeSize)
		r.Form[getProofParamHash] = []string{"AAAA"}
		st, err = getProofByHash(context.Background(), li, w, r)
	}
	vAssert(st >= 400 && st < 500 && err != nil, "missing or malformed parameter gives 4xx")
	vAssert(be.calls == 0, "no backend call for a missing or malformed parameter")
	vAssert(w.writes == 0, "no success body")
	vReach("checked")
}

// Harness_C08_mask: internal error text is withheld from 500 responses when masking is enabled,
// and only then.
//
//verif:opt maxpaths=500 reach=masked,shown
func Harness_C08_mask() {
	be, rl := &envBackend{}, &envReqLog{}
	li := envLogInfo(be, rl)
	mask := vChoice("mask", 2) == 1
	li.instanceOpts.MaskInternalErrors = mask
	st := int(vU16("status"))
	vAssume(st >= 400 && st <= 599)
	w := &envWriter{}
	li.SendHTTPError(w, st, errors.New("SECRET-DETAIL"))
	vAssert(w.status == st, "status sent")
	leaked := strings.Contains(string(w.body), "SECRET-DETAIL")
	if mask && st == http.StatusInternalServerError {
		vAssert(!leaked, "internal error text withheld from a masked 500")
		vReach("masked")
	} else {
		vAssert(leaked, "error text present when not masked or not a 500")
		vReach("shown")
	}
}
