//go:build verif

//verif:package trillian/ctfe

package ctfe

import (
	"context"
	"crypto/ecdsa"
	"crypto/elliptic"
	"net/http"

	ct "github.com/google/certificate-transparency-go"
	"github.com/google/certificate-transparency-go/tls"
	"github.com/google/trillian"
	"google.golang.org/grpc/codes"
)

const (
	qOK = iota
	qDuplicate
	qErrStatus
	qErrPlain
	qNoQueuedLeaf
	qNoLeaf
	qGarbled
	qTrailing
	qEmptyValue
	nQ
)

// Harness_C08_addChain: add-chain under every fault of the QueueLeaf call; no SCT is emitted or
// recorded as issued on any non-200 path.
//
//verif:opt maxpaths=6000 reach=ok200,fault,rejected
func Harness_C08_addChain() {
	be, rl := &envBackend{}, &envReqLog{}
	li := envLogInfo(be, rl)
	sg := &envSigner{pub: &ecdsa.PublicKey{Curve: elliptic.P256()}, sig: vBytes("sig", 2)}
	li.signer = sg
	nchain := 1 + vChoice("chain-len", 2)
	envChain = nil
	for i := 0; i < nchain; i++ {
		envChain = append(envChain, envCert("cert", 1+vChoice("der-len", 2)))
	}
	envChainErr = nil
	if vChoice("chain-invalid", 2) == 1 {
		envChainErr = errEnvChain
	}
	envVCalls = 0
	fault := vChoice("queue-fault", nQ)
	var code codes.Code
	be.queueLeaf = func(in *trillian.QueueLeafRequest) (*trillian.QueueLeafResponse, error) {
		switch fault {
		case qErrStatus, qErrPlain:
			err, c := envBackendErr(fault == qErrPlain)
			code = c
			return nil, err
		case qNoQueuedLeaf:
			return &trillian.QueueLeafResponse{}, nil
		case qNoLeaf:
			return &trillian.QueueLeafResponse{QueuedLeaf: &trillian.QueuedLogLeaf{}}, nil
		case qGarbled:
			return &trillian.QueueLeafResponse{QueuedLeaf: &trillian.QueuedLogLeaf{Leaf: &trillian.LogLeaf{LeafValue: vBytes("junk", 3)}}}, nil
		case qEmptyValue:
			// the leaf is echoed with every field but its value
			return &trillian.QueueLeafResponse{QueuedLeaf: &trillian.QueuedLogLeaf{Leaf: &trillian.LogLeaf{ExtraData: in.Leaf.ExtraData, LeafIdentityHash: in.Leaf.LeafIdentityHash, LeafIndex: in.Leaf.LeafIndex}}}, nil
		case qTrailing:
			lv := append(append([]byte{}, in.Leaf.LeafValue...), vU8("extra"))
			return &trillian.QueueLeafResponse{QueuedLeaf: &trillian.QueuedLogLeaf{Leaf: &trillian.LogLeaf{LeafValue: lv}}}, nil
		case qDuplicate:
			// the backend already holds this certificate under an older timestamp
			var old ct.MerkleTreeLeaf
			_, err := tls.Unmarshal(in.Leaf.LeafValue, &old)
			vAssume(err == nil)
			old.TimestampedEntry.Timestamp = vU64("stored-ts")
			lv, err := tls.Marshal(old)
			vAssume(err == nil)
			return &trillian.QueueLeafResponse{QueuedLeaf: &trillian.QueuedLogLeaf{Leaf: &trillian.LogLeaf{LeafValue: lv, ExtraData: in.Leaf.ExtraData, LeafIdentityHash: in.Leaf.LeafIdentityHash}}}, nil
		}
		return &trillian.QueueLeafResponse{QueuedLeaf: &trillian.QueuedLogLeaf{Leaf: in.Leaf}}, nil
	}
	w := &envWriter{}
	var raw [][]byte
	for _, c := range envChain {
		raw = append(raw, c.Raw)
	}
	st, err := addChain(context.Background(), li, w, envPost(raw))
	vAssert((st == http.StatusOK) == (err == nil), "status 200 iff no error")
	if st != http.StatusOK {
		vAssert(rl.issued == 0, "no SCT recorded as issued on a non-200 path")
		vAssert(w.writes == 0, "no SCT emitted on a non-200 path")
	}
	if envChainErr != nil {
		vAssert(st >= 400 && st < 500 && be.calls == 0, "invalid chain gives 4xx without a backend call")
		vReach("rejected")
		return
	}
	vAssert(be.calls == 1, "exactly one backend call")
	if fault == qOK || fault == qDuplicate {
		vAssert(st == http.StatusOK, "good reply: SCT issued")
		vAssert(rl.issued == 1 && w.writes == 1, "SCT recorded and emitted once")
		vReach("ok200")
		return
	}
	switch fault {
	case qErrStatus:
		envCheckFaultStatus(st, fErrStatus, code)
	case qErrPlain:
		envCheckFaultStatus(st, fErrPlain, code)
	default:
		envCheckFaultStatus(st, fLeafGarbled, code)
	}
	vReach("fault")
}
