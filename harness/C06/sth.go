//go:build verif

//verif:package trillian/ctfe

package ctfe

import (
	"bytes"
	"context"
	"crypto/ecdsa"
	"crypto/elliptic"
	"crypto/sha256"
	"net/http"
	"time"

	ct "github.com/google/certificate-transparency-go"
	"github.com/google/certificate-transparency-go/tls"
	"github.com/google/certificate-transparency-go/x509"
	"github.com/google/trillian"
)

// Harness_C06_sth: every STH served reports the backend's tree size, root and millisecond
// timestamp and carries the log signer's signature over the RFC 6962 tree-head input.
//
//verif:opt maxpaths=500 reach=served
func Harness_C06_sth() {
	be, rl := &envBackend{}, &envReqLog{}
	li := envLogInfo(be, rl)
	sig := vBytes("sig", 1+vChoice("sig-len", 3))
	sg := &envSigner{pub: &ecdsa.PublicKey{Curve: elliptic.P256()}, sig: sig}
	li.signer = sg
	size, tsNanos := vU64("tree-size"), vU64("ts-nanos")
	root := vBytes("root", 32)
	be.latestRoot = func(in *trillian.GetLatestSignedLogRootRequest) (*trillian.GetLatestSignedLogRootResponse, error) {
		return &trillian.GetLatestSignedLogRootResponse{SignedLogRoot: envRootOf(size, root, tsNanos)}, nil
	}
	w := &envWriter{}
	st, err := getSTH(context.Background(), li, w, envGet(nil))
	vAssert(st == http.StatusOK && err == nil, "healthy backend: STH served")
	if st != http.StatusOK {
		return
	}
	var got ct.GetSTHResponse
	vAssert(vJSONDecode(w.body, &got) == nil, "response is JSON")
	ms := tsNanos / 1000 / 1000 // same expression shape as the code under test keeps the query trivial; any other divisor still yields a decidable difference
	vAssert(got.TreeSize == size && got.Timestamp == ms && bytes.Equal(got.SHA256RootHash, root), "STH reports the backend's tree size, root and millisecond timestamp")
	want := sha256.Sum256(rfcSTHSignatureInput(ms, size, root))
	vAssert(len(sg.digests) == 1 && bytes.Equal(sg.digests[0], want[:]), "the log signer signed SHA-256 of the RFC 6962 TreeHeadSignature input of exactly these values")
	vAssert(bytes.Equal(got.TreeHeadSignature, rfcDigitallySigned(byte(tls.SHA256), byte(tls.ECDSA), sig)), "tree_head_signature is the DigitallySigned of the signer's output")
	vReach("served")
}

// Harness_C06_sigcache: from an arbitrary cache state, a cached signature is reused only for
// byte-identical signed input (one inductive step of the SignatureCache).
//
//verif:opt maxpaths=2000 reach=hit,miss
func Harness_C06_sigcache() {
	sig := vBytes("fresh-sig", 2)
	sg := &envSigner{pub: &ecdsa.PublicKey{Curve: elliptic.P256()}, sig: sig}
	var cache SignatureCache
	cachedLen := []int{0, 49, 50, 51}[vChoice("cached-len", 4)]
	cachedIn := vBytes("cached-input", cachedLen)
	cachedSig := vBytes("cached-sig", 2)
	if vChoice("cache-empty", 2) == 0 {
		cache.SetSignature(cachedIn, ct.DigitallySigned{Algorithm: tls.SignatureAndHashAlgorithm{Hash: tls.SHA256, Signature: tls.ECDSA}, Signature: cachedSig})
	} else {
		cachedLen = -1
	}
	sth := &ct.SignedTreeHead{Version: ct.V1, TreeSize: vU64("size"), Timestamp: vU64("ts")}
	root := vBytes("root", 32)
	copy(sth.SHA256RootHash[:], root)
	err := signV1TreeHead(sg, sth, &cache)
	vAssert(err == nil, "signing succeeds")
	input := rfcSTHSignatureInput(sth.Timestamp, sth.TreeSize, root)
	same := cachedLen == len(input) && bytes.Equal(cachedIn, input)
	if same {
		vAssert(bytes.Equal(sth.TreeHeadSignature.Signature, cachedSig) && len(sg.digests) == 0, "identical input: cached signature reused")
		vReach("hit")
	} else {
		want := sha256.Sum256(input)
		vAssert(len(sg.digests) == 1 && bytes.Equal(sg.digests[0], want[:]), "different input: a fresh signature over the new input")
		vAssert(bytes.Equal(sth.TreeHeadSignature.Signature, sig), "fresh signature returned")
		again := &ct.SignedTreeHead{Version: ct.V1, TreeSize: sth.TreeSize, Timestamp: sth.Timestamp, SHA256RootHash: sth.SHA256RootHash}
		vAssert(signV1TreeHead(sg, again, &cache) == nil && len(sg.digests) == 1 && bytes.Equal(again.TreeHeadSignature.Signature, sig), "the fresh signature is cached for the same input")
		vReach("miss")
	}
}

// Harness_C06_leafhash: the leaf hash a client computes from the certificate and the SCT
// timestamp alone equals the Merkle leaf hash of the LeafValue queued for that submission.
//
//verif:opt maxpaths=2000 reach=agree
func Harness_C06_leafhash() {
	be, rl := &envBackend{}, &envReqLog{}
	li := envLogInfo(be, rl)
	li.signer = &envSigner{pub: &ecdsa.PublicKey{Curve: elliptic.P256()}, sig: vBytes("sig", 2)}
	sec := vI64("clock.sec")
	vAssume(sec >= 0 && sec <= 4102444800)
	li.TimeSource = envTime{time.Unix(sec, 0)}
	c := envCert("cert", 1+vChoice("der-len", 3))
	envChain, envChainErr = append([]*x509.Certificate{c}, envCert("root", 1)), nil
	var queued []byte
	duplicate := vChoice("duplicate", 2) == 1
	storedTS := vU64("stored-ts")
	be.queueLeaf = func(in *trillian.QueueLeafRequest) (*trillian.QueueLeafResponse, error) {
		queued = in.Leaf.LeafValue
		if duplicate {
			// the log already holds this certificate: the sequenced entry is the older one
			queued = rfcMerkleTreeLeaf(storedTS, false, c.Raw, nil, nil, nil)
			return &trillian.QueueLeafResponse{QueuedLeaf: &trillian.QueuedLogLeaf{Leaf: &trillian.LogLeaf{LeafValue: queued, ExtraData: in.Leaf.ExtraData, LeafIdentityHash: in.Leaf.LeafIdentityHash}}}, nil
		}
		return &trillian.QueueLeafResponse{QueuedLeaf: &trillian.QueuedLogLeaf{Leaf: in.Leaf}}, nil
	}
	w := &envWriter{}
	st, _ := addChain(context.Background(), li, w, envPost([][]byte{c.Raw}))
	vAssert(st == http.StatusOK, "submission accepted")
	if st != http.StatusOK {
		return
	}
	var rsp ct.AddChainResponse
	vAssert(vJSONDecode(w.body, &rsp) == nil, "response is JSON")
	// client side: certificate + SCT timestamp only
	leaf := ct.CreateX509MerkleTreeLeaf(ct.ASN1Cert{Data: c.Raw}, rsp.Timestamp)
	h, err := ct.LeafHashForLeaf(leaf)
	backend := sha256.Sum256(append([]byte{0x00}, queued...)) // RFC 6962 2.1 leaf hash of the entry the log holds
	vAssert(err == nil && h == backend, "client-computed leaf hash equals the backend's Merkle leaf hash of the entry the log holds (fresh or duplicate)")
	vReach("agree")
}

// Harness_C06_sthHistory: two get-sth requests on one log instance, with a sequencing step of
// any batch size in between (including an empty one: same tree, newer timestamp; and the
// unchanged head): the second STH served reports the backend's tree size, root and millisecond
// timestamp as of the second request, and is signed over exactly those values (a cached
// signature may only be reused for byte-identical signed input).
//
//verif:opt maxpaths=2000 reach=advanced,empty-step,unchanged
func Harness_C06_sthHistory() {
	be, rl := &envBackend{}, &envReqLog{}
	li := envLogInfo(be, rl)
	sg := &envSigner{pub: &ecdsa.PublicKey{Curve: elliptic.P256()}, sig: []byte{0x30, 0x01}}
	li.signer = sg
	size1, ts1 := vU64("size1"), vU64("ts1")
	root1 := vBytes("root1", 32)
	size2, ts2, root2 := size1, ts1, root1
	switch vChoice("step", 3) {
	case 0: // entries were sequenced
		size2, ts2, root2 = vU64("size2"), vU64("ts2"), vBytes("root2", 32)
		vAssume(size2 > size1 && ts2 >= ts1)
	case 1: // an empty sequencing step: the backend re-issues the root with a newer timestamp
		ts2 = vU64("ts2")
		vAssume(ts2 > ts1)
	}
	call := 0
	be.latestRoot = func(in *trillian.GetLatestSignedLogRootRequest) (*trillian.GetLatestSignedLogRootResponse, error) {
		call++
		if call == 1 {
			return &trillian.GetLatestSignedLogRootResponse{SignedLogRoot: envRootOf(size1, root1, ts1)}, nil
		}
		return &trillian.GetLatestSignedLogRootResponse{SignedLogRoot: envRootOf(size2, root2, ts2)}, nil
	}
	w1 := &envWriter{}
	st, err := getSTH(context.Background(), li, w1, envGet(nil))
	vAssert(st == http.StatusOK && err == nil, "first STH served")
	w2 := &envWriter{}
	st, err = getSTH(context.Background(), li, w2, envGet(nil))
	vAssert(st == http.StatusOK && err == nil && call == 2, "second STH served from a fresh backend read")
	var got ct.GetSTHResponse
	vAssert(vJSONDecode(w2.body, &got) == nil, "response is JSON")
	ms2 := ts2 / 1000 / 1000
	vAssert(got.TreeSize == size2 && got.Timestamp == ms2 && bytes.Equal(got.SHA256RootHash, root2), "the second STH reports the backend's tree size, root and millisecond timestamp as of the second request")
	want := sha256.Sum256(rfcSTHSignatureInput(ms2, size2, root2))
	last := sg.digests[len(sg.digests)-1]
	ms1 := ts1 / 1000 / 1000
	if ms1 == ms2 && size1 == size2 && bytes.Equal(root1, root2) {
		vAssert(len(sg.digests) == 1, "byte-identical signed input: the cached signature is reused")
		vReach("unchanged")
	} else {
		vAssert(len(sg.digests) == 2 && bytes.Equal(last, want[:]), "a different tree head is signed afresh over exactly its own values")
		if size2 > size1 {
			vReach("advanced")
		} else {
			vReach("empty-step")
		}
	}
}
