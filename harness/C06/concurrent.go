//go:build verif

//verif:package trillian/ctfe

package ctfe

import (
	"bytes"
	"crypto"
	"crypto/ecdsa"
	"crypto/sha256"
	"io"
	"sync"

	ct "github.com/google/certificate-transparency-go"
)

// c06ConcSigner signs with a value derived from the digest, so that a signature can be matched to its input.
type c06ConcSigner struct {
	mu    sync.Mutex
	signs int
}

func (s *c06ConcSigner) Public() crypto.PublicKey { return &ecdsa.PublicKey{} }
func (s *c06ConcSigner) Sign(_ io.Reader, digest []byte, _ crypto.SignerOpts) ([]byte, error) {
	vSched("sign")
	s.mu.Lock()
	s.signs++
	s.mu.Unlock()
	return append([]byte{0x30}, digest[:4]...), nil
}

// Harness_C06_sthConcurrent: get-sth requests running concurrently on one log share the STH
// signature cache while the tree head advances between them: on every interleaving (within the
// delay bound, race detector on) each request's STH carries the signature made over its own
// input, never one made for another tree head.
//
//verif:opt sched=1 race=1 preempt=3 maxpaths=400000 reach=joined
func Harness_C06_sthConcurrent() {
	sg := &c06ConcSigner{}
	var cache SignatureCache
	heads := [3]*ct.SignedTreeHead{}
	sameHead := vChoice("same-head", 2) == 1
	for i := range heads {
		heads[i] = &ct.SignedTreeHead{Version: ct.V1, TreeSize: uint64(10 + i), Timestamp: 1000}
		if sameHead {
			heads[i].TreeSize = 10
		}
		heads[i].SHA256RootHash[0] = byte(heads[i].TreeSize)
	}
	var wg sync.WaitGroup
	var errs [3]error
	for i := range heads {
		i := i
		wg.Add(1)
		go func() {
			defer wg.Done()
			errs[i] = signV1TreeHead(sg, heads[i], &cache)
		}()
	}
	wg.Wait()
	vReach("joined")
	for i, h := range heads {
		vAssert(errs[i] == nil, "signing succeeds")
		root := h.SHA256RootHash[:]
		in := rfcSTHSignatureInput(h.Timestamp, h.TreeSize, root)
		d := sha256.Sum256(in)
		vAssert(bytes.Equal(h.TreeHeadSignature.Signature, append([]byte{0x30}, d[:4]...)), "every served STH carries the signature over its own input")
	}
	vAssert(sg.signs >= 1 && sg.signs <= 3, "at most one signing operation per request")
}
