//go:build verif

//verif:package .

package ct

import (
	"bytes"
	"crypto"
	"crypto/dsa"
	"crypto/ecdsa"
	"crypto/ed25519"
	"crypto/elliptic"
	"crypto/rsa"
	"errors"
	"math/big"

	"github.com/google/certificate-transparency-go/tls"
)

// Harness_C05_newVerifier: key policy of NewSignatureVerifier.
//
//verif:opt maxpaths=2000 reach=built,refused
func Harness_C05_newVerifier() {
	allow := vChoice("allow-noncompliant", 2) == 1
	AllowVerificationWithNonCompliantKeys = allow
	var pk crypto.PublicKey
	compliant, defined := false, true
	switch vChoice("key-kind", 5) {
	case 0:
		bits := []uint{1024, 2047, 2048, 4096}[vChoice("rsa-bits", 4)]
		n := new(big.Int).Lsh(big.NewInt(1), bits-1)
		pk = &rsa.PublicKey{N: n, E: 65537}
		compliant = bits >= 2048
	case 1:
		// the NIST curves, and a 256-bit curve that is not P-256 (brainpoolP256, secp256k1, ... are such)
		other256 := &elliptic.CurveParams{Name: "other-256", BitSize: 256, P: big.NewInt(23), N: big.NewInt(29), B: big.NewInt(1), Gx: big.NewInt(1), Gy: big.NewInt(2)}
		curves := []elliptic.Curve{elliptic.P224(), elliptic.P256(), elliptic.P384(), elliptic.P521(), other256}
		ci := vChoice("curve", 5)
		pk = &ecdsa.PublicKey{Curve: curves[ci], X: big.NewInt(1), Y: big.NewInt(2)}
		compliant = ci == 1
	case 2:
		pk = &dsa.PublicKey{}
		defined = false
	case 3:
		pk = ed25519.PublicKey{1, 2, 3}
		defined = false
	case 4:
		pk = rsa.PublicKey{} // not a pointer: not a supported key representation
		defined = false
	}
	v, err := NewSignatureVerifier(pk)
	AllowVerificationWithNonCompliantKeys = false
	if defined && (compliant || allow) {
		vAssert(err == nil && v != nil && v.PubKey == pk, "compliant key (or explicit opt-in): verifier for exactly this key")
		vReach("built")
	} else {
		vAssert(err != nil && v == nil, "weak RSA / off-P256 ECDSA without opt-in, and key types RFC 6962 does not define, are refused")
		vReach("refused")
	}
}

var (
	c05Data    []byte
	c05Sig     tls.DigitallySigned
	c05Key     crypto.PublicKey
	c05Calls   int
	c05Verdict bool
)

//verif:stub github.com/google/certificate-transparency-go/tls.VerifySignature files=*
func c05TLSVerify(pub crypto.PublicKey, data []byte, sig tls.DigitallySigned) error {
	c05Calls++
	c05Key, c05Data, c05Sig = pub, data, sig
	if c05Verdict {
		return nil
	}
	return errors.New("bad signature")
}

// Harness_C05_signedBytes: VerifySCTSignature / VerifySTHSignature verify the carried signature,
// under the verifier's key, over exactly the RFC encoding of the given object; every signed
// field is therefore bound (the encoding is injective in each of them).
//
//verif:opt maxpaths=3000 reach=sct,sth
func Harness_C05_signedBytes() {
	key := &ecdsa.PublicKey{Curve: elliptic.P256()}
	sv := SignatureVerifier{PubKey: key}
	c05Verdict = vChoice("primitive-accepts", 2) == 1
	c05Calls = 0
	sig := DigitallySigned{Algorithm: tls.SignatureAndHashAlgorithm{Hash: tls.HashAlgorithm(vU8("h")), Signature: tls.SignatureAlgorithm(vU8("a"))}, Signature: vBytes("sig", 2)}
	if vChoice("object", 2) == 0 {
		ts := vU64("ts")
		ext := vBytes("ext", vChoice("ext-len", 3))
		cert := vBytes("cert", 1+vChoice("cert-len", 3))
		sct := SignedCertificateTimestamp{SCTVersion: V1, Timestamp: ts, Extensions: ext, Signature: sig}
		leaf := CreateX509MerkleTreeLeaf(ASN1Cert{Data: cert}, vU64("leaf-ts"))
		// the leaf's own timestamp and extensions are not signed fields of the SCT: they never reach the signed bytes
		leaf.TimestampedEntry.Extensions = vBytes("leaf-ext", vChoice("leaf-ext-len", 3))
		err := sv.VerifySCTSignature(sct, LogEntry{Leaf: *leaf})
		vAssert(c05Calls == 1 && c05Key == crypto.PublicKey(key), "verified under the verifier's key")
		vAssert(bytes.Equal(c05Data, rfcSCTSignatureInput(ts, false, cert, nil, nil, ext)), "signed bytes are the RFC 6962 input built from the SCT's timestamp and extensions and the entry")
		vAssert(c05Sig.Algorithm == sig.Algorithm && bytes.Equal(c05Sig.Signature, sig.Signature), "the SCT's own signature and algorithms are checked")
		vAssert((err == nil) == c05Verdict, "verdict is the signature check's verdict")
		// injectivity: a second object with the same encoding has the same signed fields
		ts2, ext2, cert2 := vU64("ts2"), vBytes("ext2", len(ext)), vBytes("cert2", len(cert))
		if bytes.Equal(rfcSCTSignatureInput(ts2, false, cert2, nil, nil, ext2), c05Data) {
			vAssert(ts2 == ts && bytes.Equal(ext2, ext) && bytes.Equal(cert2, cert), "changing any signed field changes the signed bytes")
		}
		vReach("sct")
		return
	}
	sth := SignedTreeHead{Version: V1, TreeSize: vU64("size"), Timestamp: vU64("ts"), TreeHeadSignature: sig}
	root := vBytes("root", 32)
	copy(sth.SHA256RootHash[:], root)
	err := sv.VerifySTHSignature(sth)
	vAssert(c05Calls == 1 && c05Key == crypto.PublicKey(key), "verified under the verifier's key")
	vAssert(bytes.Equal(c05Data, rfcSTHSignatureInput(sth.Timestamp, sth.TreeSize, root)), "signed bytes are the RFC 6962 tree-head input of the STH's fields")
	vAssert((err == nil) == c05Verdict, "verdict is the signature check's verdict")
	vReach("sth")
}
