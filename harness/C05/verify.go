//go:build verif

//verif:package tls

package tls

import (
	"bytes"
	"crypto"
	"crypto/dsa"
	"crypto/ecdsa"
	"crypto/ed25519"
	"crypto/md5"
	"crypto/rsa"
	"crypto/sha1"
	"crypto/sha256"
	"crypto/sha512"
	"math/big"
)

// The cryptographic primitives are cut: each records its arguments and returns the verdict the
// harness chose. The claim is that exactly the right key, digest and signature value reach the
// right primitive, and that its verdict decides the result.
var (
	c05Verdict bool
	c05Calls   int
	c05Key     any
	c05Hash    []byte
	c05HashID  crypto.Hash
	c05R, c05S *big.Int
	c05Sig     []byte
	c05Prim    string
)

//verif:stub crypto/rsa.VerifyPKCS1v15 files=*
func c05RSAVerify(pub *rsa.PublicKey, hash crypto.Hash, hashed []byte, sig []byte) error {
	c05Calls++
	c05Prim, c05Key, c05HashID, c05Hash, c05Sig = "rsa", pub, hash, hashed, sig
	if c05Verdict {
		return nil
	}
	return rsa.ErrVerification
}

//verif:stub crypto/dsa.Verify files=*
func c05DSAVerify(pub *dsa.PublicKey, hash []byte, r, s *big.Int) bool {
	c05Calls++
	c05Prim, c05Key, c05Hash, c05R, c05S = "dsa", pub, hash, r, s
	return c05Verdict
}

//verif:stub crypto/ecdsa.Verify files=*
func c05ECDSAVerify(pub *ecdsa.PublicKey, hash []byte, r, s *big.Int) bool {
	c05Calls++
	c05Prim, c05Key, c05Hash, c05R, c05S = "ecdsa", pub, hash, r, s
	return c05Verdict
}

func c05RefHash(algo HashAlgorithm, data []byte) ([]byte, bool) {
	switch algo {
	case MD5:
		h := md5.Sum(data)
		return h[:], true
	case SHA1:
		h := sha1.Sum(data)
		return h[:], true
	case SHA224:
		h := sha256.Sum224(data)
		return h[:], true
	case SHA256:
		h := sha256.Sum256(data)
		return h[:], true
	case SHA384:
		h := sha512.Sum384(data)
		return h[:], true
	case SHA512:
		h := sha512.Sum512(data)
		return h[:], true
	}
	return nil, false
}

func c05Keys() []any {
	return []any{&rsa.PublicKey{}, &dsa.PublicKey{}, &ecdsa.PublicKey{}, ed25519.PublicKey{1}, nil}
}

// derInt encodes a positive integer 1..0x7fff minimally.
func c05DERInt(v uint16) []byte {
	if v < 0x80 {
		return []byte{0x02, 0x01, byte(v)}
	}
	if v < 0x8000 && v>>8 != 0 {
		return []byte{0x02, 0x02, byte(v >> 8), byte(v)}
	}
	return []byte{0x02, 0x02, 0x00, byte(v)} // 0x80..0xff need a leading zero
}

// Harness_C05_verify: all hash and signature algorithm codes, all key kinds, well-formed (r,s)
// with optional trailing bytes.
//
//verif:opt maxpaths=20000 reach=accepted,mismatch,badhash,primitive-rejects
func Harness_C05_verify() {
	keys := c05Keys()
	ki := vChoice("key-kind", len(keys))
	key := keys[ki]
	h := HashAlgorithm(vU8("hash-alg"))
	a := SignatureAlgorithm(vU8("sig-alg"))
	data := vBytes("data", 2)
	c05Verdict = vChoice("primitive-accepts", 2) == 1
	c05Calls, c05Prim, c05Key = 0, "", nil
	r, s := vU16("r"), vU16("s")
	vAssume(r >= 1 && r < 0x8000 && s >= 1 && s < 0x8000)
	body := append(c05DERInt(r), c05DERInt(s)...)
	sig := append([]byte{0x30, byte(len(body))}, body...)
	rsaSig := vBytes("rsa-sig", 2)
	if vChoice("trailing", 2) == 1 {
		sig = append(sig, vU8("junk"))
	}
	wire := sig
	if a == RSA {
		wire = rsaSig
	}
	err := VerifySignature(key, data, DigitallySigned{Algorithm: SignatureAndHashAlgorithm{Hash: h, Signature: a}, Signature: wire})
	want, hashOK := c05RefHash(h, data)
	if !hashOK {
		vAssert(err != nil && c05Calls == 0, "unsupported hash algorithm is an error, no primitive consulted")
		vReach("badhash")
		return
	}
	match := (a == RSA && ki == 0) || (a == DSA && ki == 1) || (a == ECDSA && ki == 2)
	if !match {
		vAssert(err != nil && c05Calls == 0, "mismatch between declared algorithm and key type is an error, never a pass")
		vReach("mismatch")
		return
	}
	vAssert(c05Calls == 1, "exactly one primitive consulted")
	vAssert(c05Key == key, "the given key reaches the primitive")
	vAssert(bytes.Equal(c05Hash, want), "the digest is the declared hash of exactly the data")
	switch a {
	case RSA:
		vAssert(c05Prim == "rsa" && bytes.Equal(c05Sig, rsaSig), "RSA: PKCS#1 v1.5 over the signature bytes")
		vAssert((h == MD5 && c05HashID == crypto.MD5) || (h == SHA1 && c05HashID == crypto.SHA1) || (h == SHA224 && c05HashID == crypto.SHA224) ||
			(h == SHA256 && c05HashID == crypto.SHA256) || (h == SHA384 && c05HashID == crypto.SHA384) || (h == SHA512 && c05HashID == crypto.SHA512), "declared hash identifier passed on")
	case DSA:
		vAssert(c05Prim == "dsa", "DSA primitive")
	case ECDSA:
		vAssert(c05Prim == "ecdsa", "ECDSA primitive")
	}
	if a != RSA {
		vAssert(c05R.Cmp(big.NewInt(int64(r))) == 0 && c05S.Cmp(big.NewInt(int64(s))) == 0, "(r, s) are the DER integers; trailing bytes ignored")
	}
	if c05Verdict {
		vAssert(err == nil, "valid signature verifies")
		vReach("accepted")
	} else {
		vAssert(err != nil, "a signature the primitive rejects never verifies")
		vReach("primitive-rejects")
	}
}

// Harness_C05_malformed: arbitrary signature bytes for DSA/ECDSA: no panic; a pass implies the
// primitive accepted positive (r, s).
//
//verif:opt maxpaths=30000 reach=rejected,accepted
func Harness_C05_malformed() {
	key := &ecdsa.PublicKey{}
	n := vChoice("sig-len", 9+2*vTier())
	sig := vBytes("sig", n)
	c05Verdict = true
	c05Calls = 0
	err := VerifySignature(key, []byte("x"), DigitallySigned{Algorithm: SignatureAndHashAlgorithm{Hash: SHA256, Signature: ECDSA}, Signature: sig})
	if err == nil {
		vAssert(c05Calls == 1 && c05R.Sign() > 0 && c05S.Sign() > 0, "a pass implies the primitive accepted strictly positive r and s")
		vAssert(n >= 8 && sig[0] == 0x30 && sig[2] == 0x02, "a pass implies a DER SEQUENCE of two INTEGERs")
		// DER level: both INTEGERs are positive as encoded (top bit of the first content octet clear)
		l1 := int(sig[3])
		vAssert(sig[4]&0x80 == 0, "a pass implies r is encoded as a positive INTEGER (negative encodings never verify)")
		vAssert(4+l1+2 < n && sig[4+l1] == 0x02 && sig[4+l1+2]&0x80 == 0, "a pass implies s is encoded as a positive INTEGER")
		vReach("accepted")
	} else {
		vReach("rejected")
	}
}
