//go:build verif

//verif:package loglist3

package loglist3

import (
	"bytes"
	"crypto/dsa"
	"crypto/ecdsa"
	"crypto/ed25519"
	"crypto/rsa"

	"github.com/google/certificate-transparency-go/tls"
)

// Harness_C05_signedLogList: a signed log list is parsed only after its signature verified under
// the given key over exactly the given bytes, with the algorithm that matches the key type;
// other key types are refused.
//
//verif:opt maxpaths=2000 reach=verified,rejected,unsupported
func Harness_C05_signedLogList() {
	keys := []any{&rsa.PublicKey{}, &ecdsa.PublicKey{}, &dsa.PublicKey{}, ed25519.PublicKey{1}, nil}
	ki := vChoice("key-kind", len(keys))
	data := vJSONEncode(LogList{Version: "7"})
	if vChoice("garbled-json", 2) == 1 {
		data = []byte("{")
	}
	sig := vBytes("sig", 2)
	tls.VerifLLVerdict = vChoice("signature-valid", 2) == 1
	tls.VerifLLCalls = 0
	ll, err := NewFromSignedJSON(data, sig, keys[ki])
	vAssert((ll == nil) != (err == nil), "a list or an error")
	if ki >= 2 {
		vAssert(err != nil && tls.VerifLLCalls == 0, "key types without a defined log-list signature algorithm are refused")
		vReach("unsupported")
		return
	}
	vAssert(tls.VerifLLCalls == 1 && tls.VerifLLKey == keys[ki] && bytes.Equal(tls.VerifLLData, data) && bytes.Equal(tls.VerifLLSig.Signature, sig), "the signature is checked under the given key over exactly the given bytes")
	vAssert(tls.VerifLLSig.Algorithm.Hash == tls.SHA256 && ((ki == 0 && tls.VerifLLSig.Algorithm.Signature == tls.RSA) || (ki == 1 && tls.VerifLLSig.Algorithm.Signature == tls.ECDSA)), "with SHA-256 and the algorithm of the key type")
	if !tls.VerifLLVerdict {
		vAssert(err != nil && ll == nil, "an invalid signature never yields a log list")
		vReach("rejected")
		return
	}
	if err == nil {
		vAssert(ll.Version == "7", "the verified bytes are what is parsed")
	}
	vReach("verified")
}
