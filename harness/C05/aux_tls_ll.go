//go:build verif

//verif:aux tls

package tls

import "crypto"

// Cut of the signature check as seen from package loglist3.
var (
	VerifLLVerdict bool
	VerifLLCalls   int
	VerifLLKey     crypto.PublicKey
	VerifLLData    []byte
	VerifLLSig     DigitallySigned
)

//verif:stub github.com/google/certificate-transparency-go/tls.VerifySignature dir=loglist3 files=* as=tls.VerifStubLLVerify
func VerifStubLLVerify(pubKey crypto.PublicKey, data []byte, sig DigitallySigned) error {
	VerifLLCalls++
	VerifLLKey, VerifLLData, VerifLLSig = pubKey, data, sig
	if VerifLLVerdict {
		return nil
	}
	return verifLLErr{}
}

type verifLLErr struct{}

func (verifLLErr) Error() string { return "signature does not verify" }
