//go:build verif

//verif:package tls

package tls

import (
	"bytes"
	"encoding/binary"
	"errors"
	"fmt"
	"sort"
	"strconv"
	"strings"
)

// The SELF suite validates the translator: every assertion here is a fact of Go semantics, so
// any counterexample the solver finds is an engine bug (it will not replay natively), and the
// "must fail" harnesses check that real counterexamples are found and do replay.

type selfPair struct {
	a int32
	b [3]uint8
	s []byte
}

type selfIface interface{ Get() int }
type selfImplA struct{ v int }
type selfImplB struct{ v int }

func (a selfImplA) Get() int  { return a.v }
func (b *selfImplB) Get() int { return b.v * 2 }

//verif:opt maxpaths=2000
func Harness_SELF_arith() {
	x, y := vI64("x"), vI64("y")
	a8 := int8(vU8("a8"))
	u8 := vU8("u8")
	// widening/narrowing
	vAssert(int64(a8) >= -128 && int64(a8) <= 127, "int8 range")
	vAssert(uint64(u8) <= 255, "uint8 range")
	vAssert(int64(int32(x)) == (x<<32)>>32, "int32 truncation is sign extension of low bits")
	vAssert(uint8(x) == uint8(uint64(x)&0xff), "uint8 truncation")
	// wrap-around
	if x == 9223372036854775807 {
		vAssert(x+1 < 0, "int64 add wraps")
	}
	vAssert(x-y == x+(-y), "sub is add neg")
	vAssert(x^y^y == x, "xor involution")
	vAssert(x&^y == x&(^y), "and-not")
	// division semantics
	x16, y16 := int8(x), int8(y)
	if y16 != 0 {
		q, r := x16/y16, x16%y16
		vAssert(q*y16+r == x16, "div/rem identity")
		if x16 >= 0 && y16 > 0 {
			vAssert(r >= 0 && r < y16, "rem range for non-negative operands")
		}
		if x16 < 0 && y16 > 0 {
			vAssert(r <= 0, "rem sign follows dividend")
		}
		if x16 == -128 && y16 == -1 {
			vAssert(q == -128 && r == 0, "MinInt / -1 wraps")
		}
	}
	// shifts
	s := vU8("s")
	vAssert((uint64(x)<<s)>>s <= uint64(x) || s >= 64, "shl/shr")
	if s >= 64 {
		vAssert(uint64(x)<<s == 0, "shift by >= width is zero")
		vAssert(x>>s == 0 || x>>s == -1, "arithmetic shift by >= width is sign fill")
	}
	var sh uint64 = uint64(s)
	vAssert(uint32(x)<<sh == uint32(uint64(uint32(x))<<sh), "32-bit shift by 64-bit count")
	vReach("end")
}

//verif:opt maxpaths=3000
func Harness_SELF_memory() {
	n := vChoice("n", 4)
	b := vBytes("b", n)
	c := make([]byte, len(b))
	copy(c, b)
	vAssert(bytes.Equal(b, c), "copy equal")
	if n > 0 {
		i := int(vU8("i")) % n
		old := b[i]
		b[i] = old + 1
		vAssert(c[i] == old, "copy does not alias")
		vAssert(b[i] != c[i], "store through symbolic index visible")
		d := b[:i]
		vAssert(len(d) == i && cap(d) == n, "slicing keeps capacity")
	}
	// append aliasing within capacity
	base := make([]int, 2, 4)
	s1 := append(base, 1)
	s2 := append(base, 2)
	vAssert(s1[2] == 2 && s2[2] == 2, "append within capacity aliases")
	// structs copy by value
	p := selfPair{a: vI32("a"), s: b}
	q := p
	q.a++
	q.b[1] = 7
	vAssert(p.a+1 == q.a && p.b[1] == 0, "struct assignment copies arrays")
	pp := &p
	pp.b[2] = 9
	vAssert(p.b[2] == 9, "pointer aliasing")
	// arrays compare
	var a1, a2 [3]uint8
	a1[0], a2[0] = vU8("e"), vU8("f")
	vAssert((a1 == a2) == (a1[0] == a2[0]), "array equality")
	// maps
	m := map[string]int{"a": 1, "b": 2}
	m["c"] = 3
	delete(m, "a")
	_, ok := m["a"]
	vAssert(!ok && len(m) == 2 && m["c"] == 3, "map ops")
	keys := []string{}
	for k := range m {
		keys = append(keys, k)
	}
	sort.Strings(keys)
	vAssert(strings.Join(keys, ",") == "b,c", "map range + sort + join")
	vReach("end")
}

func selfDivide(a, b int) (res int, err error) {
	defer func() {
		if r := recover(); r != nil {
			err = fmt.Errorf("recovered: %v", r)
		}
	}()
	return a / b, nil
}

var errSelf = errors.New("self")

type selfErr struct{ code int }

func (e *selfErr) Error() string { return "selfErr" }

//verif:opt maxpaths=3000
func Harness_SELF_control() {
	// defer / recover
	d := vInt("d")
	r, err := selfDivide(10, d)
	if d == 0 {
		vAssert(err != nil && r == 0, "recovered division by zero")
	} else {
		vAssert(err == nil && r == 10/d, "division")
	}
	// interfaces and method sets
	var it selfIface
	if vBool("which") {
		it = selfImplA{v: 3}
	} else {
		it = &selfImplB{v: 3}
	}
	switch v := it.(type) {
	case selfImplA:
		vAssert(v.Get() == 3, "value receiver")
	case *selfImplB:
		vAssert(v.Get() == 6, "pointer receiver")
	default:
		vFail("type switch")
	}
	// closures
	cnt := 0
	inc := func() int { cnt++; return cnt }
	inc()
	inc()
	vAssert(cnt == 2, "closure captures by reference")
	// errors
	w := fmt.Errorf("wrap: %w", errSelf)
	vAssert(errors.Is(w, errSelf), "errors.Is through %w")
	var se *selfErr
	w2 := fmt.Errorf("wrap: %w", &selfErr{code: 4})
	vAssert(errors.As(w2, &se) && se.code == 4, "errors.As")
	vAssert(!errors.Is(w2, errSelf), "errors.Is negative")
	// strconv / strings on concrete data
	n, e2 := strconv.ParseInt("-123", 10, 64)
	vAssert(e2 == nil && n == -123, "ParseInt concrete")
	_, e3 := strconv.ParseInt("12x", 10, 64)
	vAssert(e3 != nil, "ParseInt error")
	vAssert(strconv.Itoa(405) == "405", "Itoa")
	vAssert(strings.Split("a://b", "://")[1] == "b", "Split")
	vAssert(strings.HasPrefix("hello", "he") && strings.Contains("hello", "ll") && strings.ToUpper("ab") == "AB", "strings")
	var sb strings.Builder
	sb.WriteString("x")
	sb.WriteByte('y')
	vAssert(sb.String() == "xy" && sb.Len() == 2, "strings.Builder")
	var bb bytes.Buffer
	bb.Write([]byte{1, 2})
	bb.WriteByte(3)
	vAssert(bytes.Equal(bb.Bytes(), []byte{1, 2, 3}), "bytes.Buffer")
	// binary
	v := vU32("v")
	buf := make([]byte, 4)
	binary.BigEndian.PutUint32(buf, v)
	vAssert(binary.BigEndian.Uint32(buf) == v, "binary round trip")
	vAssert(buf[0] == byte(v>>24), "big endian order")
	// decimal token
	x := vI64("x")
	y, e4 := strconv.ParseInt(vDecStr(x), 10, 64)
	vAssert(e4 == nil && y == x, "decimal token round trip")
	// goto-ish loops with symbolic bound
	k := int(vU8("k") % 5)
	sum := 0
	for i := 0; i < k; i++ {
		sum += i
	}
	vAssert(sum == k*(k-1)/2, "loop with symbolic trip count")
	vReach("end")
}

// Must-fail harnesses: the engine has to find these and the replay has to reproduce them.

//verif:opt expect=violation
func Harness_SELF_mustfail_overflow() {
	x := vI64("x")
	vAssume(x > 0)
	vAssert(x+1 > 0, "no overflow (false for MaxInt64)")
}

//verif:opt expect=violation
func Harness_SELF_mustfail_index() {
	b := vBytes("b", 3)
	i := int(vU8("i"))
	vAssume(i <= 3)
	_ = b[i] // panics for i == 3
}

//verif:opt expect=violation
func Harness_SELF_mustfail_nilmap() {
	var m map[string]int
	if vBool("w") {
		m["a"] = 1
	}
}

//verif:opt expect=violation
func Harness_SELF_mustfail_mul() {
	x := vU32("x")
	vAssert(x*3 != 7, "x*3 == 7 has a solution mod 2^32")
}

// Division of a symbolic length by a constant, used as a capacity and as a slice bound.
//
//verif:opt maxpaths=200 reach=made
func Harness_SELF_divLen() {
	b := vBytes("b", 16)
	n := int(vU16("n"))
	vAssume(n <= 12)
	if n%8 != 0 {
		return
	}
	c := n / 8
	s := make([]uint64, 0, c)
	for i := 0; i < c; i++ {
		s = append(s, uint64(b[8*i]))
	}
	w := b[:c*8]
	vAssert(len(s) == c && len(w) == n && (c == 0 || c == 1), "n/8 for n in {0, 8}")
	vReach("made")
}
