//go:build verif

//verif:package tls

package tls

import (
	"context"
	"sync"
	"sync/atomic"
)

// Scheduler self-tests: facts of the Go memory / scheduling model that must hold on every
// interleaving, and "must fail" twins whose violating interleaving the explorer has to find and
// the native replay has to reproduce.

//verif:opt sched=1 race=1 preempt=2 maxpaths=20000 reach=joined
func Harness_SELF_schedLockedCounter() {
	var mu sync.Mutex
	var wg sync.WaitGroup
	n := 0
	for i := 0; i < 2; i++ {
		wg.Add(1)
		go func() {
			defer wg.Done()
			mu.Lock()
			v := n
			vSched("rmw")
			n = v + 1
			mu.Unlock()
		}()
	}
	wg.Wait()
	vReach("joined")
	vAssert(n == 2, "a mutex makes read-modify-write atomic")
}

//verif:opt sched=1 preempt=2 maxpaths=20000 expect=violation
func Harness_SELF_schedLostUpdate() {
	var mu sync.Mutex
	var wg sync.WaitGroup
	n := 0
	for i := 0; i < 2; i++ {
		wg.Add(1)
		i := i
		go func() {
			defer wg.Done()
			mu.Lock()
			v := n
			mu.Unlock()
			vSched([]string{"a", "b"}[i] + "-read")
			mu.Lock()
			n = v + 1
			mu.Unlock()
			vSched([]string{"a", "b"}[i] + "-written")
		}()
	}
	wg.Wait()
	vAssert(n == 2, "must-fail: the update is not atomic, one increment can be lost")
}

//verif:opt sched=1 race=1 preempt=1 maxpaths=20000 expect=violation replays=50
func Harness_SELF_schedRace() {
	var wg sync.WaitGroup
	n := 0
	for i := 0; i < 2; i++ {
		wg.Add(1)
		go func() {
			defer wg.Done()
			n++
		}()
	}
	wg.Wait()
	_ = n
}

//verif:opt sched=1 race=1 preempt=2 maxpaths=20000 reach=got
func Harness_SELF_schedChannels() {
	unbuf := make(chan int)
	buf := make(chan int, 2)
	done := make(chan struct{})
	var got []int
	go func() {
		for v := range unbuf {
			buf <- v * 10
		}
		close(buf)
	}()
	go func() {
		for v := range buf {
			got = append(got, v)
		}
		close(done)
	}()
	for i := 1; i <= 3; i++ {
		unbuf <- i
	}
	close(unbuf)
	<-done
	vReach("got")
	vAssert(len(got) == 3 && got[0] == 10 && got[1] == 20 && got[2] == 30, "channels are FIFO and close is observed after the buffered values")
}

//verif:opt sched=1 race=1 preempt=2 maxpaths=20000 reach=first,second
func Harness_SELF_schedSelect() {
	a, b := make(chan int, 1), make(chan int, 1)
	a <- 1
	b <- 2
	sum := 0
	for i := 0; i < 2; i++ {
		select {
		case v := <-a:
			if i == 0 {
				vReach("first")
			}
			sum += v
		case v := <-b:
			if i == 0 {
				vReach("second")
			}
			sum += v
		}
	}
	vAssert(sum == 3, "select takes each ready case once")
	select {
	case <-a:
		vFail("empty channel is not ready")
	default:
	}
}

//verif:opt sched=1 race=1 preempt=2 maxpaths=20000 reach=cancelled
func Harness_SELF_schedContext() {
	ctx, cancel := context.WithCancel(context.Background())
	res := make(chan int, 1)
	var flag atomic.Int32
	go func() {
		<-ctx.Done()
		flag.Store(1)
		res <- 7
	}()
	vAssert(flag.Load() == 0, "the goroutine cannot pass Done before cancel")
	cancel()
	v := <-res
	vReach("cancelled")
	vAssert(v == 7 && flag.Load() == 1 && ctx.Err() == context.Canceled, "cancel releases the waiter")
}

//verif:opt sched=1 preempt=2 maxpaths=20000 expect=violation
func Harness_SELF_schedDeadlock() {
	var a, b sync.Mutex
	var wg sync.WaitGroup
	wg.Add(2)
	go func() {
		defer wg.Done()
		a.Lock()
		vSched("a-held")
		b.Lock()
		b.Unlock()
		a.Unlock()
	}()
	go func() {
		defer wg.Done()
		b.Lock()
		vSched("b-held")
		a.Lock()
		a.Unlock()
		b.Unlock()
	}()
	wg.Wait()
}

//verif:opt sched=1 race=1 preempt=2 maxpaths=20000 reach=once
func Harness_SELF_schedOnce() {
	var once sync.Once
	var wg sync.WaitGroup
	n := 0
	seen := [2]int{}
	for i := 0; i < 2; i++ {
		wg.Add(1)
		i := i
		go func() {
			defer wg.Done()
			once.Do(func() { n++ })
			seen[i] = n
		}()
	}
	wg.Wait()
	vReach("once")
	vAssert(n == 1 && seen[0] == 1 && seen[1] == 1, "Once runs the function once and every caller returns after it completed")
}
