//go:build verif

//verif:package .

package ct

import (
	"bytes"
	"crypto/sha256"

	"github.com/google/certificate-transparency-go/x509"
)

// Harness_C03_routes: the log entry computed from a precertificate chain and the entry computed
// from the final certificate with its SCT list removed use the same entry type, the same issuer
// key hash source and the respective TBS transformation of the leaf's TBS; with a pre-issuer the
// final issuer is the certificate after it. (The transformations are cut here; their byte-level
// commutation is Harness_C03_commutation.)
//
//verif:opt maxpaths=2000 reach=direct,preissuer
func Harness_C03_routes() {
	ts := vU64("sct-timestamp")
	leafTBS := vBytes("leaf-tbs", 2)
	out := vBytes("transformed-tbs", 2)
	preIssuer := vChoice("pre-issuer", 2) == 1
	pre := &x509.Certificate{Raw: vBytes("precert", 2), RawTBSCertificate: leafTBS}
	fin := &x509.Certificate{Raw: vBytes("final", 2), RawTBSCertificate: vBytes("final-tbs", 2)}
	issuer := &x509.Certificate{Raw: []byte{1}, RawSubjectPublicKeyInfo: vBytes("issuer-spki", 2)}
	// the pre-issuer carries the CT EKU, alone or next to another one, in either order
	pi := &x509.Certificate{Raw: []byte{2}, RawSubjectPublicKeyInfo: vBytes("preissuer-spki", 2), ExtKeyUsage: [][]x509.ExtKeyUsage{
		{x509.ExtKeyUsageCertificateTransparency},
		{x509.ExtKeyUsageServerAuth, x509.ExtKeyUsageCertificateTransparency},
		{x509.ExtKeyUsageCertificateTransparency, x509.ExtKeyUsageOCSPSigning}}[vChoice("preissuer-ekus", 3)]}
	x509.VerifCtlBuildTBS = func(tbs []byte, p *x509.Certificate) ([]byte, error) {
		vAssert(bytes.Equal(tbs, leafTBS), "the precertificate's own TBS is transformed")
		if preIssuer {
			vAssert(p == pi, "with the pre-issuer")
		} else {
			vAssert(p == nil, "without a pre-issuer")
		}
		return out, nil
	}
	x509.VerifCtlRemoveSCT = func(tbs []byte) ([]byte, error) {
		vAssert(bytes.Equal(tbs, fin.RawTBSCertificate), "the final certificate's own TBS is transformed")
		return out, nil // the commutation law: both transformations give the same bytes
	}
	chain := []*x509.Certificate{pre, issuer}
	if preIssuer {
		chain = []*x509.Certificate{pre, pi, issuer}
		if vChoice("final-issuer-missing", 2) == 1 {
			// the chain ends at the precert-signing certificate: there is no final issuer to take the key hash from
			_, err := MerkleTreeLeafFromChain(chain[:2], PrecertLogEntryType, ts)
			vAssert(err != nil, "a precertificate chain that ends at its precert-signing certificate yields no entry")
			vReach("preissuer")
			return
		}
	}
	a, err := MerkleTreeLeafFromChain(chain, PrecertLogEntryType, ts)
	vAssert(err == nil, "precert route builds an entry")
	b, err2 := MerkleTreeLeafForEmbeddedSCT([]*x509.Certificate{fin, issuer}, ts)
	vAssert(err2 == nil, "embedded-SCT route builds an entry")
	if err != nil || err2 != nil {
		return
	}
	want := sha256.Sum256(issuer.RawSubjectPublicKeyInfo)
	vAssert(a.TimestampedEntry.EntryType == PrecertLogEntryType && b.TimestampedEntry.EntryType == PrecertLogEntryType, "both routes give a precert entry")
	vAssert(a.TimestampedEntry.PrecertEntry.IssuerKeyHash == want && b.TimestampedEntry.PrecertEntry.IssuerKeyHash == want, "issuer key hash is the final issuer's on both routes (also behind a pre-issuer)")
	vAssert(bytes.Equal(a.TimestampedEntry.PrecertEntry.TBSCertificate, out) && bytes.Equal(b.TimestampedEntry.PrecertEntry.TBSCertificate, out), "TBS is the respective transformation's output")
	vAssert(a.TimestampedEntry.Timestamp == ts && b.TimestampedEntry.Timestamp == ts, "timestamp passed through")
	ha, _ := LeafHashForLeaf(a)
	hb, _ := LeafHashForLeaf(b)
	vAssert(ha == hb, "identical log entry, identical leaf hash: the embedded SCT verifies exactly when the log signed that precertificate")
	if preIssuer {
		vReach("preissuer")
	} else {
		vReach("direct")
	}
}

// Harness_C03_routesHistory: the embedded-SCT route is a function of the certificate it is given,
// whatever was asked before: after a certificate whose SCT list can be removed, one whose list
// cannot (absent or present twice) fails, fails again when retried, and a third certificate gets
// its own transformation's output -- for every order of a short history of calls.
//
//verif:opt maxpaths=4000 reach=replayed
func Harness_C03_routesHistory() {
	ts := vU64("sct-timestamp")
	issuer := &x509.Certificate{Raw: []byte{1}, RawSubjectPublicKeyInfo: vBytes("issuer-spki", 2)}
	// three certificates: two good ones with different outputs, one whose SCT list cannot be removed
	tbss := [][]byte{{0xa1, 0x01}, {0xa2, 0x02}, {0xbb, 0x03}}
	outs := [][]byte{{0x11}, {0x22}, nil}
	x509.VerifCtlRemoveSCT = func(tbs []byte) ([]byte, error) {
		for i := range tbss {
			if bytes.Equal(tbs, tbss[i]) {
				if outs[i] == nil {
					return nil, x509.ErrVerifNoSCTList
				}
				return outs[i], nil
			}
		}
		vFail("a TBS that was never submitted is transformed")
		return nil, nil
	}
	for call := 0; call < 4; call++ {
		k := vChoice("which-certificate", 3)
		fin := &x509.Certificate{Raw: []byte{0x30, byte(k)}, RawTBSCertificate: append([]byte{}, tbss[k]...)}
		leaf, err := MerkleTreeLeafForEmbeddedSCT([]*x509.Certificate{fin, issuer}, ts)
		if outs[k] == nil {
			vAssert(err != nil && leaf == nil, "a certificate whose SCT list cannot be removed yields no entry, however often it is tried")
		} else {
			vAssert(err == nil && leaf != nil && bytes.Equal(leaf.TimestampedEntry.PrecertEntry.TBSCertificate, outs[k]), "each certificate gets the transformation of its own TBS")
		}
	}
	vReach("replayed")
}
