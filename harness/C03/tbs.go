//go:build verif

//verif:package x509

package x509

import (
	"bytes"

	"github.com/google/certificate-transparency-go/x509/pkix"
)

type c03Content struct {
	serial, sigOID, keyBits byte
	issuer, subject         []byte
	others                  [][]byte // the extensions other than poison / SCT list, in order
}

func c03Symbolic() c03Content {
	var c c03Content
	c.serial, c.sigOID, c.keyBits = vU8("serial"), vU8("sig-oid"), vU8("key-bits")
	vAssume(c.serial >= 1 && c.serial < 0x80 && c.sigOID < 0x80) // canonical: minimal positive serial, one-octet OID
	c.issuer = derTLV(0x30, derTLV(0x31, derTLV(0x30, []byte{0x06, 0x03, 0x55, 0x04, 0x03}, derTLV(0x0c, vBytes("issuer-cn", 2)))))
	c.subject = derTLV(0x30, vBytes("subject-raw", 2)[:0]) // empty subject sequence
	n := vChoice("n-other-extensions", 3)
	kinds := [][]byte{c03OIDKU, c03OIDBC}
	for i := 0; i < n; i++ {
		c.others = append(c.others, c03Ext(kinds[i], vChoice("critical", 2) == 1, vBytes("ext-value", 2)))
	}
	return c
}

func c03With(others [][]byte, pos int, ext []byte) [][]byte {
	var out [][]byte
	out = append(out, others[:pos]...)
	out = append(out, ext)
	out = append(out, others[pos:]...)
	return out
}

// Harness_C03_commutation: the precertificate route and the embedded-SCT route yield the
// byte-identical TBS: removing the poison from the precertificate equals removing the SCT list
// from the final certificate, wherever the two sit among the other extensions, and equals the
// same skeleton without that one extension (all other bytes untouched, lengths re-computed).
//
//verif:opt maxpaths=4000 reach=checked wall=600
func Harness_C03_commutation() {
	c := c03Symbolic()
	vAssume(c.issuer[len(c.issuer)-1] < 0x80 && c.issuer[len(c.issuer)-2] < 0x80) // UTF8String content: ASCII
	p := vChoice("poison-position", len(c.others)+1)
	q := vChoice("sct-position", len(c.others)+1)
	poison := c03Ext(c03OIDPoison, true, []byte{0x05, 0x00})
	sctl := c03Ext(c03OIDSCT, false, derTLV(0x04, vBytes("sct-list", 3)))
	pre := c03TBS(c.serial, c.sigOID, c.issuer, c.subject, c.keyBits, c03With(c.others, p, poison))
	fin := c03TBS(c.serial, c.sigOID, c.issuer, c.subject, c.keyBits, c03With(c.others, q, sctl))
	c03KeepEmptyExtensions = true
	want := c03TBS(c.serial, c.sigOID, c.issuer, c.subject, c.keyBits, c.others)
	c03KeepEmptyExtensions = false
	a, err := BuildPrecertTBS(pre, nil)
	vAssert(err == nil, "poison removed from a canonical precertificate TBS")
	b, err2 := RemoveSCTList(fin)
	vAssert(err2 == nil, "SCT list removed from a canonical final TBS")
	if err != nil || err2 != nil {
		return
	}
	vAssert(bytes.Equal(a, want), "precert route: exactly the poison extension is removed, every other DER byte untouched and in order")
	vAssert(bytes.Equal(b, want), "embedded-SCT route: exactly the SCT list extension is removed, every other DER byte untouched and in order")
	vAssert(bytes.Equal(a, b), "both routes yield the identical entry")
	rp, err3 := RemoveCTPoison(pre)
	vAssert(err3 == nil && bytes.Equal(rp, a), "RemoveCTPoison is the pre-issuer-free transformation")
	vReach("checked")
}

// Harness_C03_counts: the transformation fails if the targeted extension is absent or present twice.
//
//verif:opt maxpaths=2000 reach=absent,twice
func Harness_C03_counts() {
	c := c03Symbolic()
	vAssume(c.issuer[len(c.issuer)-1] < 0x80 && c.issuer[len(c.issuer)-2] < 0x80)
	poison := c03Ext(c03OIDPoison, true, []byte{0x05, 0x00})
	if vChoice("count", 2) == 0 {
		tbs := c03TBS(c.serial, c.sigOID, c.issuer, c.subject, c.keyBits, c.others)
		_, err := BuildPrecertTBS(tbs, nil)
		_, err2 := RemoveSCTList(tbs)
		vAssert(err != nil && err2 != nil, "absent extension: the transformation fails")
		vReach("absent")
		return
	}
	exts := append(c03With(c.others, vChoice("first", len(c.others)+1), poison), poison)
	tbs := c03TBS(c.serial, c.sigOID, c.issuer, c.subject, c.keyBits, exts)
	_, err := BuildPrecertTBS(tbs, nil)
	vAssert(err != nil, "extension present twice: the transformation fails")
	vReach("twice")
}

// Harness_C03_preissuer: with a dedicated precert-signing issuer the issuer name is replaced by
// the pre-issuer's issuer and the authority key identifier is replaced / removed / appended;
// without the CT EKU the transformation fails; nothing else changes.
//
//verif:opt maxpaths=6000 reach=replaced,removed,appended,untouched,noeku wall=600
func Harness_C03_preissuer() {
	c := c03Symbolic()
	vAssume(c.issuer[len(c.issuer)-1] < 0x80 && c.issuer[len(c.issuer)-2] < 0x80)
	poison := c03Ext(c03OIDPoison, true, []byte{0x05, 0x00})
	certHasAKI := vChoice("precert-has-aki", 2) == 1
	issuerHasAKI := vChoice("preissuer-has-aki", 2) == 1
	hasEKU := vChoice("preissuer-has-ct-eku", 2) == 1
	certAKI := vBytes("cert-aki", 2)
	issuerAKI := vBytes("issuer-aki", 3)
	others := c.others
	akiPos := -1
	akiCritical := false // the precertificate's own criticality flag survives a replacement of the value
	if certHasAKI {
		akiPos = vChoice("aki-position", len(others)+1)
		akiCritical = vChoice("aki-critical", 2) == 1
		others = c03With(others, akiPos, c03Ext(c03OIDAKI, akiCritical, certAKI))
	}
	pre := c03TBS(c.serial, c.sigOID, c.issuer, c.subject, c.keyBits, c03With(others, vChoice("poison-position", len(others)+1), poison))
	finalIssuer := derTLV(0x30, derTLV(0x31, derTLV(0x30, []byte{0x06, 0x03, 0x55, 0x04, 0x0a}, derTLV(0x0c, vBytes("final-issuer-o", 2)))))
	pi := &Certificate{RawIssuer: finalIssuer}
	if issuerHasAKI {
		pi.Extensions = []pkix.Extension{{Id: OIDExtensionAuthorityKeyId, Value: issuerAKI}}
	}
	if hasEKU {
		pi.ExtKeyUsage = []ExtKeyUsage{ExtKeyUsageServerAuth, ExtKeyUsageCertificateTransparency}
	}
	got, err := BuildPrecertTBS(pre, pi)
	if !hasEKU {
		vAssert(err != nil, "a pre-issuer without the CT EKU is refused")
		vReach("noeku")
		return
	}
	vAssert(err == nil, "pre-issuer transformation succeeds")
	if err != nil {
		return
	}
	var wantExts [][]byte
	switch {
	case certHasAKI && issuerHasAKI:
		wantExts = c03With(c.others, akiPos, c03Ext(c03OIDAKI, akiCritical, issuerAKI))
		vReach("replaced")
	case certHasAKI && !issuerHasAKI:
		wantExts = c.others
		vReach("removed")
	case !certHasAKI && issuerHasAKI:
		wantExts = append(append([][]byte{}, c.others...), c03Ext(c03OIDAKI, false, issuerAKI))
		vReach("appended")
	default:
		wantExts = c.others
		vReach("untouched")
	}
	c03KeepEmptyExtensions = true
	want := c03TBS(c.serial, c.sigOID, finalIssuer, c.subject, c.keyBits, wantExts)
	c03KeepEmptyExtensions = false
	vAssert(bytes.Equal(got, want), "issuer replaced by the pre-issuer's issuer, authority key identifier replaced / removed / appended, every other byte untouched")
}
