//go:build verif

//verif:package x509util

package x509util

import (
	"bytes"

	ct "github.com/google/certificate-transparency-go"
	"github.com/google/certificate-transparency-go/tls"
	"github.com/google/certificate-transparency-go/x509"
)

// Harness_C03_sctlist: the SCT list read back equals, element for element, the list embedded.
//
//verif:opt maxpaths=2000 reach=roundtrip
func Harness_C03_sctlist() {
	n := 1 + vChoice("n-scts", 2)
	var scts []*ct.SignedCertificateTimestamp
	for i := 0; i < n; i++ {
		s := &ct.SignedCertificateTimestamp{SCTVersion: ct.V1, Timestamp: vU64("ts"), Extensions: vBytes("ext", vChoice("ext-len", 3)),
			Signature: ct.DigitallySigned{Algorithm: tls.SignatureAndHashAlgorithm{Hash: tls.HashAlgorithm(vU8("h")), Signature: tls.SignatureAlgorithm(vU8("a"))}, Signature: vBytes("sig", vChoice("sig-len", 3))}}
		copy(s.LogID.KeyID[:], vBytes("log-id", 32))
		scts = append(scts, s)
	}
	list, err := MarshalSCTsIntoSCTList(scts)
	vAssert(err == nil && len(list.SCTList) == n, "one serialized SCT per SCT")
	wire, err := tls.Marshal(*list)
	vAssert(err == nil, "the list encodes as the extension payload")
	var back x509.SignedCertificateTimestampList
	rest, err := tls.Unmarshal(wire, &back)
	vAssert(err == nil && len(rest) == 0, "the payload decodes completely")
	got, err := ParseSCTsFromSCTList(&back)
	vAssert(err == nil && len(got) == n, "same number of SCTs read back")
	for i := range scts {
		vAssert(got[i].Timestamp == scts[i].Timestamp && got[i].LogID == scts[i].LogID && got[i].SCTVersion == scts[i].SCTVersion, "same log, version and timestamp, in order")
		vAssert(bytes.Equal(got[i].Extensions, scts[i].Extensions) && bytes.Equal(got[i].Signature.Signature, scts[i].Signature.Signature) && got[i].Signature.Algorithm == scts[i].Signature.Algorithm, "same extensions and signature")
	}
	vReach("roundtrip")
}
