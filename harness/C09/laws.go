//go:build verif

//verif:package tls

package tls

import (
	"bytes"
	"reflect"
)

// c09DecodeLaw: for every byte string of length n, if it decodes then nothing panics, no
// allocation exceeds the input length, and re-encoding reproduces exactly the consumed bytes.
func c09DecodeLaw[T any](n int) {
	b := vBytes("b", n)
	var v T
	vResetAlloc()
	rest, err := Unmarshal(b, &v)
	vAssert(vMaxAlloc() <= n, "no allocation larger than the input")
	if err != nil {
		vReach("rejected")
		return
	}
	vReach("accepted")
	vAssert(len(rest) <= n, "rest is a suffix")
	out, err := Marshal(v)
	vAssert(err == nil, "decoded value is encodable (bounds enforced identically in both directions)")
	if err != nil {
		return
	}
	vAssert(bytes.Equal(out, b[:n-len(rest)]), "re-encoding reproduces exactly the consumed bytes")
}

// c09EncodeLaw: if v encodes, the encoding decodes to v with nothing left over.
func c09EncodeLaw[T any](v T) []byte {
	out, err := Marshal(v)
	if err != nil {
		vReach("refused")
		return nil
	}
	vReach("encoded")
	var w T
	rest, err := Unmarshal(out, &w)
	vAssert(err == nil, "encoding decodes (bounds enforced identically in both directions)")
	if err != nil {
		return out
	}
	vAssert(len(rest) == 0, "nothing left over")
	vAssert(reflect.DeepEqual(v, w), "round trip returns the value")
	return out
}

//verif:opt maxpaths=3000 reach=accepted,rejected
func Harness_C09_B_decode() { c09DecodeLaw[c09B](6 + vChoice("len", 7+2*vTier())) }

//verif:opt maxpaths=3000 reach=encoded,refused
func Harness_C09_B_encode() {
	v := c09B{V: vBytes("v", vChoice("vlen", 5)), W: vU32("w"), E: Enum(vU64("e")), U: Uint24(vU32("u"))}
	out := c09EncodeLaw(v)
	inBounds := len(v.V) >= 1 && len(v.V) <= 3 && v.E <= 255 && v.U < 1<<24
	if inBounds {
		vAssert(out != nil, "every value inside the declared bounds is encodable")
		// RFC 5246 4.3: 1-byte length prefix for <1..3>
		vAssert(len(out) == 1+len(v.V)+4+1+3, "RFC length")
		vAssert(int(out[0]) == len(v.V), "length prefix")
		k := 1 + len(v.V)
		vAssert(out[k] == byte(v.W>>24) && out[k+3] == byte(v.W), "uint32 after the vector")
		vAssert(out[k+4] == byte(v.E), "enum width 1")
		vAssert(out[k+5] == byte(v.U>>16) && out[k+7] == byte(v.U), "uint24 after the vector")
	}
	if len(v.V) < 1 || len(v.V) > 3 || v.E > 255 || v.U >= 1<<24 {
		vAssert(out == nil, "value outside the declared bounds refused")
	}
}

//verif:opt maxpaths=3000 reach=accepted,rejected
func Harness_C09_C_decode() { c09DecodeLaw[c09C](9 + vChoice("len", 6+2*vTier())) }

//verif:opt maxpaths=3000 reach=encoded,refused
func Harness_C09_C_encode() {
	v := c09C{Sel: Enum(vU64("sel")), T: vU64("t")}
	switch vChoice("which", 4) {
	case 0:
		v.I = &c09Inner{A: vU16("a"), B: [2]byte{vU8("b0"), vU8("b1")}}
	case 1:
		n := vU32("n")
		v.N = &n
	case 2:
		n := vU32("n")
		v.N = &n
		v.I = &c09Inner{}
	}
	out := c09EncodeLaw(v)
	valid := (v.Sel == 0 && v.I != nil && v.N == nil) || (v.Sel == 1 && v.N != nil && v.I == nil)
	if valid {
		vAssert(out != nil, "exactly the selected variant set: encodable")
		if v.Sel == 0 {
			vAssert(len(out) == 1+4+8 && out[0] == 0 && out[1] == byte(v.I.A>>8) && out[3] == v.I.B[0] && out[12] == byte(v.T), "variant 0 layout")
		} else {
			vAssert(len(out) == 1+4+8 && out[0] == 1 && out[1] == byte(*v.N>>24) && out[12] == byte(v.T), "variant 1 layout")
		}
	} else {
		vAssert(out == nil, "wrong, missing or surplus variant refused")
	}
}

//verif:opt maxpaths=3000 reach=accepted,rejected
func Harness_C09_D_decode() { c09DecodeLaw[c09D](3 + vChoice("len", 8+2*vTier())) }

//verif:opt maxpaths=3000 reach=encoded
func Harness_C09_D_encode() {
	n := vChoice("n", 4)
	v := c09D{E: Enum(vU64("e"))}
	for i := 0; i < n; i++ {
		v.L = append(v.L, c09Inner{A: vU16("a"), B: [2]byte{vU8("b0"), vU8("b1")}})
	}
	if n == 0 {
		v.L = []c09Inner{}
	}
	out := c09EncodeLaw(v)
	if v.E <= 0xffff {
		vAssert(out != nil && len(out) == 1+4*n+2, "RFC length: 1-byte prefix counts bytes, 2-byte enum")
		vAssert(int(out[0]) == 4*n, "vector prefix is the byte length")
	} else {
		vAssert(out == nil, "enum beyond its 2 bytes refused")
	}
}

// Enum widths 1..8 via size:, and maxval boundaries.
type c09E struct {
	E1 Enum `tls:"size:1"`
	E3 Enum `tls:"size:3"`
	E8 Enum `tls:"size:8"`
	M2 Enum `tls:"maxval:256"`
	M1 Enum `tls:"maxval:255"`
}

//verif:opt maxpaths=3000 reach=accepted,rejected
func Harness_C09_E_decode() { c09DecodeLaw[c09E](13 + vChoice("len", 4+2*vTier())) }

//verif:opt maxpaths=3000 reach=encoded,refused
func Harness_C09_E_encode() {
	v := c09E{E1: Enum(vU64("e1")), E3: Enum(vU64("e3")), E8: Enum(vU64("e8")), M2: Enum(vU64("m2")), M1: Enum(vU64("m1"))}
	out := c09EncodeLaw(v)
	fits := v.E1 < 1<<8 && v.E3 < 1<<24 && v.M2 < 1<<16 && v.M1 < 1<<8
	if fits && v.M2 <= 256 && v.M1 <= 255 {
		vAssert(out != nil, "every enum value within its declared bounds (including all 8-byte values) is encodable")
		vAssert(len(out) == 1+3+8+2+1, "enum widths 1,3,8 and maxval 256 -> 2 bytes, 255 -> 1 byte")
		vAssert(out[0] == byte(v.E1) && out[1] == byte(v.E3>>16) && out[4] == byte(v.E8>>56) && out[11] == byte(v.E8) && out[12] == byte(v.M2>>8) && out[14] == byte(v.M1), "big-endian enums")
	}
	if !fits {
		vAssert(out == nil, "enum value wider than its field refused")
	}
}

// Vector length-prefix widths at the 1/2/3-byte boundaries and nesting.
type c09F struct {
	A []byte `tls:"maxlen:255"`
	B []byte `tls:"maxlen:256"`
	C []byte `tls:"minlen:1,maxlen:65536"`
	G [4]uint8
	S c09Inner
}

//verif:opt maxpaths=4000 thorough.maxpaths=40000 reach=accepted,rejected
func Harness_C09_F_decode() { c09DecodeLaw[c09F](13 + vChoice("len", 3+2*vTier())) }

//verif:opt maxpaths=3000 reach=encoded,refused
func Harness_C09_F_encode() {
	v := c09F{A: vBytes("a", vChoice("alen", 3)), B: vBytes("b", vChoice("blen", 3)), C: vBytes("c", vChoice("clen", 3))}
	v.G[1], v.G[2] = vU8("g1"), vU8("g2")
	v.S = c09Inner{A: vU16("sa"), B: [2]byte{vU8("sb0"), vU8("sb1")}}
	out := c09EncodeLaw(v)
	if len(v.C) >= 1 {
		vAssert(out != nil, "in-bounds vectors encodable")
		vAssert(len(out) == 1+len(v.A)+2+len(v.B)+3+len(v.C)+4+4, "prefix widths 1 (<=255), 2 (<=256), 3 (<=65536)")
		k := 1 + len(v.A)
		vAssert(int(out[0]) == len(v.A) && out[k] == 0 && int(out[k+1]) == len(v.B), "1- and 2-byte prefixes")
		k += 2 + len(v.B)
		vAssert(out[k] == 0 && out[k+1] == 0 && int(out[k+2]) == len(v.C), "3-byte prefix")
	} else {
		vAssert(out == nil, "vector shorter than minlen refused")
	}
}

// Variant two fields after its selector, vector of vectors.
type c09G struct {
	Sel Enum `tls:"maxval:1"`
	Pad uint16
	Vs  [][]byte `tls:"minlen:0,maxlen:12"`
	A   *uint8   `tls:"selector:Sel,val:0"`
	B   *Uint24  `tls:"selector:Sel,val:1"`
}

//verif:opt maxpaths=4000 reach=accepted,rejected
func Harness_C09_G_decode() { c09DecodeLaw[c09G](5 + vChoice("len", 7+2*vTier())) }

// Vectors whose declared maximum is far larger than any input: the decoder must check the
// length prefix against the remaining input before allocating.
type c09H struct {
	V []uint64 `tls:"minlen:0,maxlen:16777215"`
	W []byte   `tls:"minlen:0,maxlen:16777215"`
}

//verif:opt maxpaths=4000 reach=accepted,rejected
func Harness_C09_H_decode() { c09DecodeLaw[c09H](6 + vChoice("len", 6+2*vTier())) }

// Vectors of fixed-width integers whose wire width differs from their Go size (Uint24 is 3 bytes on
// the wire, 4 in memory), next to a uint16 vector with a minimum length.
type c09I struct {
	V []Uint24 `tls:"minlen:0,maxlen:12"`
	W []uint16 `tls:"minlen:2,maxlen:8"`
}

//verif:opt maxpaths=4000 reach=accepted,rejected
func Harness_C09_I_decode() { c09DecodeLaw[c09I](3 + vChoice("len", 8+2*vTier())) }

//verif:opt maxpaths=3000 reach=encoded,refused
func Harness_C09_I_encode() {
	nv, nw := vChoice("nv", 4), vChoice("nw", 4)
	v := c09I{V: []Uint24{}, W: []uint16{}}
	for i := 0; i < nv; i++ {
		v.V = append(v.V, Uint24(vU32("v")&0xffffff))
	}
	for i := 0; i < nw; i++ {
		v.W = append(v.W, vU16("w"))
	}
	out := c09EncodeLaw(v)
	if nw >= 1 {
		vAssert(out != nil && len(out) == 1+3*nv+1+2*nw, "RFC length: prefixes count bytes, uint24 elements take three")
		vAssert(int(out[0]) == 3*nv && int(out[1+3*nv]) == 2*nw, "vector prefixes are byte lengths")
	} else {
		vAssert(out == nil, "vector shorter than its minimum refused")
	}
}

// A vector of structures with a non-zero minimum length (the shape of sct_list<1..2^16-1>): the
// empty vector is refused in both directions.
type c09J struct {
	L []c09Inner `tls:"minlen:1,maxlen:65535"`
	T uint8
}

//verif:opt maxpaths=4000 reach=accepted,rejected
func Harness_C09_J_decode() { c09DecodeLaw[c09J](2 + vChoice("len", 7+2*vTier())) }

//verif:opt maxpaths=3000 reach=encoded,refused
func Harness_C09_J_encode() {
	n := vChoice("n", 3)
	v := c09J{T: vU8("t")}
	if vChoice("nil-or-empty", 2) == 1 {
		v.L = []c09Inner{}
	}
	for i := 0; i < n; i++ {
		v.L = append(v.L, c09Inner{A: vU16("a"), B: [2]byte{vU8("b0"), vU8("b1")}})
	}
	out, err := Marshal(v)
	if n == 0 {
		vAssert(err != nil && out == nil, "an empty vector below the declared minimum is refused on encode, as it is on decode")
		var w c09J
		_, derr := Unmarshal([]byte{0, 0, v.T}, &w)
		vAssert(derr != nil, "and on decode")
		vReach("refused")
		return
	}
	vAssert(err == nil && len(out) == 2+4*n+1 && int(out[1]) == 4*n && out[len(out)-1] == v.T, "RFC layout: 2-byte prefix, elements, trailing field")
	var w c09J
	rest, derr := Unmarshal(out, &w)
	vAssert(derr == nil && len(rest) == 0 && len(w.L) == n && w.T == v.T, "round trip")
	vReach("encoded")
}

// A vector of variants: consecutive elements may take the same arm, and each must keep its own value.
type c09Var struct {
	Sel Enum    `tls:"maxval:1"`
	A   *uint16 `tls:"selector:Sel,val:0"`
	B   *uint8  `tls:"selector:Sel,val:1"`
}
type c09L struct {
	Vals []c09Var `tls:"minlen:0,maxlen:40"`
}

//verif:opt maxpaths=6000 reach=accepted,rejected
func Harness_C09_L_decode() { c09DecodeLaw[c09L](3 + vChoice("len", 7+2*vTier())) } // from 3 bytes: parsing the field tags allocates a 2-element slice whatever the input

//verif:opt maxpaths=3000 reach=encoded
func Harness_C09_L_encode() {
	n := vChoice("n", 4)
	v := c09L{Vals: []c09Var{}}
	wantLen := 1
	for i := 0; i < n; i++ {
		if vChoice("arm", 2) == 0 {
			a := vU16("a")
			v.Vals = append(v.Vals, c09Var{Sel: 0, A: &a})
			wantLen += 3
		} else {
			b := vU8("b")
			v.Vals = append(v.Vals, c09Var{Sel: 1, B: &b})
			wantLen += 2
		}
	}
	out := c09EncodeLaw(v)
	vAssert(out != nil && len(out) == wantLen && int(out[0]) == wantLen-1, "RFC length: selector byte plus the chosen arm per element")
	// the decoded elements are independent objects holding their own values
	var w c09L
	_, err := Unmarshal(out, &w)
	vAssert(err == nil && len(w.Vals) == n, "decodes")
	for i := 0; i < n && i < len(w.Vals); i++ {
		if v.Vals[i].Sel == 0 {
			vAssert(w.Vals[i].A != nil && w.Vals[i].B == nil && *w.Vals[i].A == *v.Vals[i].A, "element keeps its own value (same arm as a neighbour or not)")
		} else {
			vAssert(w.Vals[i].B != nil && w.Vals[i].A == nil && *w.Vals[i].B == *v.Vals[i].B, "element keeps its own value (same arm as a neighbour or not)")
		}
	}
}

// Shapes at the edge of what the tags can express.

// An 8-byte length prefix: lengths of 2^63 and more do not fit an int.
type c09K struct {
	V []byte `tls:"minlen:0,maxlen:18446744073709551615"`
}

//verif:opt maxpaths=4000 reach=accepted,rejected
func Harness_C09_K_decode() { c09DecodeLaw[c09K](8 + vChoice("len", 3)) }

// Vectors and arrays of a named byte type.
type c09Byte uint8
type c09M struct {
	V []c09Byte `tls:"minlen:0,maxlen:255"`
	A [2]c09Byte
}

//verif:opt maxpaths=4000 reach=accepted,rejected
func Harness_C09_M_decode() { c09DecodeLaw[c09M](3 + vChoice("len", 4)) }

//verif:opt maxpaths=3000 reach=encoded
func Harness_C09_M_encode() {
	n := vChoice("n", 3)
	v := c09M{V: []c09Byte{}, A: [2]c09Byte{c09Byte(vU8("a0")), c09Byte(vU8("a1"))}}
	for i := 0; i < n; i++ {
		v.V = append(v.V, c09Byte(vU8("v")))
	}
	out := c09EncodeLaw(v)
	vAssert(out != nil && len(out) == 1+n+2 && int(out[0]) == n && out[1+n] == byte(v.A[0]), "RFC layout of byte vectors and arrays, whatever the element type is called")
}
