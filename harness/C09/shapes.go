//go:build verif

//verif:package tls

package tls

import "bytes"

// Shapes chosen so that every primitive occurs at offset 0, after one byte and after a vector.

type c09A struct {
	X uint8
	Y Uint24
	Z uint16
}

type c09B struct {
	V []byte `tls:"minlen:1,maxlen:3"`
	W uint32
	E Enum `tls:"maxval:255"`
	U Uint24
}

type c09Inner struct {
	A uint16
	B [2]byte
}

type c09C struct {
	Sel Enum      `tls:"maxval:2"`
	I   *c09Inner `tls:"selector:Sel,val:0"`
	N   *uint32   `tls:"selector:Sel,val:1"`
	T   uint64
}

type c09D struct {
	L []c09Inner `tls:"minlen:0,maxlen:20"`
	E Enum       `tls:"size:2"`
}

// Harness_C09_A_decode: for every 6..8-byte input, decode then re-encode reproduces the consumed bytes.
//
//verif:opt maxpaths=200
func Harness_C09_A_decode() {
	n := 4 + vChoice("len", 5)
	b := vBytes("b", n)
	var v c09A
	rest, err := Unmarshal(b, &v)
	if n < 6 {
		vAssert(err != nil, "truncated input rejected")
		return
	}
	vAssert(err == nil, "well-formed input accepted")
	vAssert(len(rest) == n-6, "exactly the structure is consumed")
	vAssert(v.X == b[0], "uint8 at offset 0")
	vAssert(uint32(v.Y) == uint32(b[1])<<16|uint32(b[2])<<8|uint32(b[3]), "uint24 after one byte (RFC 5246 4.4 big endian)")
	vAssert(v.Z == uint16(b[4])<<8|uint16(b[5]), "uint16 after uint24")
	out, err := Marshal(v)
	vAssert(err == nil, "decoded value re-encodes")
	vAssert(bytes.Equal(out, b[:6]), "re-encoding reproduces the consumed bytes")
}

// Harness_C09_A_encode: every value of the shape round-trips and matches the RFC layout.
//
//verif:opt maxpaths=200
func Harness_C09_A_encode() {
	v := c09A{X: vU8("x"), Y: Uint24(vU32("y")), Z: vU16("z")}
	out, err := Marshal(v)
	if uint32(v.Y) >= 1<<24 {
		vAssert(err != nil, "uint24 out of range refused")
		return
	}
	vAssert(err == nil, "in-range value encodes")
	vAssert(len(out) == 6, "RFC length")
	vAssert(out[0] == v.X && out[1] == byte(v.Y>>16) && out[2] == byte(v.Y>>8) && out[3] == byte(v.Y) && out[4] == byte(v.Z>>8) && out[5] == byte(v.Z), "RFC 5246 big-endian layout")
	var w c09A
	rest, err := Unmarshal(out, &w)
	vAssert(err == nil && len(rest) == 0, "decodes with nothing left over")
	vAssert(w == v, "round trip returns the value")
}
