//go:build verif

//verif:package x509

package x509

import "errors"

// The signature primitive is cut: whether `child` carries a valid signature by `parent` is a
// free relation chosen by the harness (forged and unrelated certificates are in range).
var (
	c02Sig    map[[2]byte]bool // (child id, parent id) -> valid
	c02SigAsk int
)

//verif:stub (*github.com/google/certificate-transparency-go/x509.Certificate).CheckSignature files=x509.go method=CheckSignature
func c02CheckSignature(parent *Certificate, algo SignatureAlgorithm, signed, signature []byte) error {
	c02SigAsk++
	// the harness stores the child's id in its TBS bytes and the parent's in its raw SPKI
	if c02Sig[[2]byte{signed[0], parent.RawSubjectPublicKeyInfo[0]}] {
		return nil
	}
	return errors.New("x509: signature verification failed")
}

func c02VCert(id byte, role string) *Certificate {
	c := &Certificate{
		Raw: []byte{0x30, id}, RawTBSCertificate: []byte{id}, RawSubjectPublicKeyInfo: []byte{id},
		RawSubject: []byte{vU8(role + ".subject")}, RawIssuer: []byte{vU8(role + ".issuer")},
		Version: 3, PublicKeyAlgorithm: ECDSA, SignatureAlgorithm: ECDSAWithSHA256,
		BasicConstraintsValid: vBool(role + ".bc-valid"), IsCA: vBool(role + ".is-ca"), MaxPathLen: -1,
	}
	if role != "leaf" && vChoice(role+".has-ski", 2) == 1 {
		c.SubjectKeyId = []byte{vU8(role + ".ski")}
	}
	if role == "leaf" && vChoice(role+".has-aki", 2) == 1 {
		c.AuthorityKeyId = []byte{vU8(role + ".aki")}
	}
	if role == "intermediate" {
		c.AuthorityKeyId = []byte{vU8(role + ".aki")} // may or may not match the root's key identifier
	}
	c.KeyUsage = KeyUsage(vU16(role+".keyusage")) & 0x1ff // 0 = extension absent
	return c
}

func c02CanSign(p *Certificate) bool {
	if !(p.BasicConstraintsValid && p.IsCA) {
		return false
	}
	return p.KeyUsage == 0 || p.KeyUsage&KeyUsageCertSign != 0
}

// Harness_C02_pathBuilder: x509 path building under the log server's relaxed options on a small
// symbolic PKI (leaf, one submitted intermediate, one root; arbitrary names, key identifiers,
// CA flags, key usages and signature relation): every returned path starts with the leaf, ends
// with a root of the pool, and each certificate in it names and is validly signed by the next
// one, which is entitled to sign; and the honest chain is found.
//
//verif:opt maxpaths=60000 reach=found,none wall=900
func Harness_C02_pathBuilder() {
	leaf, inter, root := c02VCert(1, "leaf"), c02VCert(2, "intermediate"), c02VCert(3, "root")
	c02Sig = map[[2]byte]bool{}
	for _, pr := range [][2]byte{{1, 2}, {1, 3}, {2, 3}, {2, 2}, {1, 1}} {
		c02Sig[pr] = vBool("signature-valid")
	}
	c02SigAsk = 0
	roots, inters := NewCertPool(), NewCertPool()
	roots.AddCert(root)
	inters.AddCert(inter)
	opts := VerifyOptions{Roots: roots, Intermediates: inters, DisableTimeChecks: true, DisableCriticalExtensionChecks: true,
		DisableEKUChecks: true, DisablePathLenChecks: true, DisableNameConstraintChecks: true}
	chains, err := leaf.Verify(opts)
	vAssert((err == nil) == (len(chains) > 0), "an error exactly when no path was found")
	id := func(c *Certificate) byte { return c.Raw[1] }
	for _, ch := range chains {
		vAssert(len(ch) >= 2 && ch[0] == leaf, "every path starts with the leaf")
		vAssert(ch[len(ch)-1] == root, "every path ends with a certificate of the trusted pool")
		for i := 0; i+1 < len(ch); i++ {
			child, parent := ch[i], ch[i+1]
			vAssert(child.RawIssuer[0] == parent.RawSubject[0], "each certificate names the next one")
			vAssert(c02Sig[[2]byte{id(child), id(parent)}], "each certificate is validly signed by the next one")
			vAssert(c02CanSign(parent), "the next one is a CA entitled to sign certificates")
		}
	}
	// completeness for the honest shapes
	direct := leaf.RawIssuer[0] == root.RawSubject[0] && c02Sig[[2]byte{1, 3}] && c02CanSign(root) &&
		(len(leaf.AuthorityKeyId) == 0 || len(root.SubjectKeyId) == 0 || leaf.AuthorityKeyId[0] == root.SubjectKeyId[0])
	if direct && len(leaf.AuthorityKeyId) == 0 {
		vAssert(len(chains) > 0, "a leaf directly issued by a trusted root is accepted")
	}
	// key identifiers are hints: a mismatch between the child's authority key identifier and the
	// issuer's subject key identifier does not hide the issuer when no certificate of the pool
	// carries the child's identifier
	named := leaf.RawIssuer[0] == root.RawSubject[0] && c02Sig[[2]byte{1, 3}] && c02CanSign(root)
	if named && !(len(inter.SubjectKeyId) > 0 && len(leaf.AuthorityKeyId) > 0 && inter.SubjectKeyId[0] == leaf.AuthorityKeyId[0]) {
		vAssert(len(chains) > 0, "a leaf named and validly signed by a trusted root is accepted whatever its key identifier hints say")
	}
	via := leaf.RawIssuer[0] == inter.RawSubject[0] && c02Sig[[2]byte{1, 2}] && c02CanSign(inter) &&
		inter.RawIssuer[0] == root.RawSubject[0] && c02Sig[[2]byte{2, 3}] && c02CanSign(root)
	if via && !(len(root.SubjectKeyId) > 0 && len(leaf.AuthorityKeyId) > 0 && root.SubjectKeyId[0] == leaf.AuthorityKeyId[0]) &&
		!(len(inter.SubjectKeyId) > 0 && inter.SubjectKeyId[0] == inter.AuthorityKeyId[0]) {
		vAssert(len(chains) > 0, "the honest chain through the submitted intermediate is accepted whatever the key identifier hints say")
	}
	if len(chains) > 0 {
		vReach("found")
	} else {
		vReach("none")
	}
}

// Harness_C02_reissued: a re-issued CA. Two certificates of the same CA (same subject, same key),
// the older one self-issued, the newer one issued by the trusted root, are submitted one after
// the other: leaf, R_old, R_new. Every link names and is validly signed by the next certificate,
// which is a CA, and the last one is directly issued by a trusted root, so the path that uses
// every submitted certificate in order must be among the paths found.
//
//verif:opt maxpaths=2000 reach=found
func Harness_C02_reissued() {
	mk := func(id, key, subj, iss byte, ca bool) *Certificate {
		return &Certificate{Raw: []byte{0x30, id}, RawTBSCertificate: []byte{id}, RawSubjectPublicKeyInfo: []byte{key},
			RawSubject: []byte{subj}, RawIssuer: []byte{iss}, Version: 3, PublicKeyAlgorithm: ECDSA, SignatureAlgorithm: ECDSAWithSHA256,
			BasicConstraintsValid: ca, IsCA: ca, MaxPathLen: -1}
	}
	leaf := mk(1, 0x11, 0x0a, 0x05, false)
	rOld := mk(2, 0x20, 0x05, 0x05, true)
	rNew := mk(3, 0x20, 0x05, 0x07, true)
	root := mk(4, 0x40, 0x07, 0x07, true)
	if vChoice("key-identifiers", 2) == 1 {
		rOld.SubjectKeyId, rNew.SubjectKeyId, leaf.AuthorityKeyId = []byte{9}, []byte{9}, []byte{9}
	}
	c02Sig = map[[2]byte]bool{{1, 0x20}: true, {2, 0x20}: true, {3, 0x40}: true, {4, 0x40}: true}
	roots, inters := NewCertPool(), NewCertPool()
	roots.AddCert(root)
	// ValidateChain fills the intermediate pool in submission order. (With the pool in the
	// opposite order the path builder's per-certificate cache returns the chains found in the
	// first context, a known quirk of this generation of buildChains; that order does not arise
	// from a submission whose required path is this one.)
	inters.AddCert(rOld)
	inters.AddCert(rNew)
	opts := VerifyOptions{Roots: roots, Intermediates: inters, DisableTimeChecks: true, DisableCriticalExtensionChecks: true,
		DisableEKUChecks: true, DisablePathLenChecks: true, DisableNameConstraintChecks: true}
	chains, err := leaf.Verify(opts)
	vAssert(err == nil && len(chains) > 0, "the chain is accepted")
	full := false
	for _, ch := range chains {
		if len(ch) == 4 && ch[0] == leaf && ch[1] == rOld && ch[2] == rNew && ch[3] == root {
			full = true
		}
	}
	vAssert(full, "the path leaf, R_old, R_new, root -- every submitted certificate, in the order given -- is found")
	vReach("found")
}

// Harness_C02_twoRoots: the trusted pool holds two different certificates of the same CA (same
// subject and key): a cross certificate issued by a CA the log does not know, and the
// self-signed root, loaded in either order. The hierarchy is leaf <- I <- X (or leaf <- X). The
// path builder returns one path per trusted certificate, each ending in that very certificate
// (a submission ending in either of them is matched by ValidateChain), and no path twice.
//
//verif:opt maxpaths=2000 reach=found
func Harness_C02_twoRoots() {
	mk := func(id, key, subj, iss byte, ca bool) *Certificate {
		return &Certificate{Raw: []byte{0x30, id}, RawTBSCertificate: []byte{id}, RawSubjectPublicKeyInfo: []byte{key},
			RawSubject: []byte{subj}, RawIssuer: []byte{iss}, Version: 3, PublicKeyAlgorithm: ECDSA, SignatureAlgorithm: ECDSAWithSHA256,
			BasicConstraintsValid: ca, IsCA: ca, MaxPathLen: -1}
	}
	withInter := vChoice("intermediate", 2) == 1
	leaf := mk(1, 0x11, 0x0a, 0x05, false)
	inter := mk(2, 0x20, 0x05, 0x07, true)
	if !withInter {
		leaf.RawIssuer = []byte{0x07}
	}
	xCross := mk(3, 0x40, 0x07, 0x09, true) // issued by an unknown CA
	xSelf := mk(4, 0x40, 0x07, 0x07, true)
	c02Sig = map[[2]byte]bool{{1, 0x20}: withInter, {1, 0x40}: !withInter, {2, 0x40}: true, {4, 0x40}: true}
	roots, inters := NewCertPool(), NewCertPool()
	if vChoice("pool-order", 2) == 0 {
		roots.AddCert(xCross)
		roots.AddCert(xSelf)
	} else {
		roots.AddCert(xSelf)
		roots.AddCert(xCross)
	}
	if withInter {
		inters.AddCert(inter)
	}
	opts := VerifyOptions{Roots: roots, Intermediates: inters, DisableTimeChecks: true, DisableCriticalExtensionChecks: true,
		DisableEKUChecks: true, DisablePathLenChecks: true, DisableNameConstraintChecks: true}
	chains, err := leaf.Verify(opts)
	vAssert(err == nil && len(chains) > 0, "the chain is accepted")
	want := 2
	if withInter {
		want = 3
	}
	endsIn := map[*Certificate]int{}
	for _, ch := range chains {
		vAssert(len(ch) == want && ch[0] == leaf && (!withInter || ch[1] == inter), "every path runs leaf, (intermediate,) trusted certificate")
		endsIn[ch[len(ch)-1]]++
	}
	vAssert(endsIn[xCross] == 1 && endsIn[xSelf] == 1 && len(chains) == 2, "one path per trusted certificate of the CA, each ending in that certificate")
	vReach("found")
}
