//go:build verif

//verif:package trillian/ctfe

package ctfe

import (
	"errors"
	"time"

	"github.com/google/certificate-transparency-go/asn1"
	"github.com/google/certificate-transparency-go/x509"
	"github.com/google/certificate-transparency-go/x509/pkix"
	"github.com/google/certificate-transparency-go/x509util"
)

// Cut points of ValidateChain: certificate parsing (C11) and the path builder (H02e) are
// replaced by harness functions returning arbitrary results.

var (
	c02Certs     []*x509.Certificate
	c02ParseErr  []error
	c02VerifyFn  func(c *x509.Certificate, opts x509.VerifyOptions) ([][]*x509.Certificate, error)
	c02VerifyHit int
)

//verif:stub github.com/google/certificate-transparency-go/x509.ParseCertificate files=*
func c02ParseCertificate(b []byte) (*x509.Certificate, error) {
	i := int(b[0])
	return c02Certs[i], c02ParseErr[i]
}

//verif:stub (*github.com/google/certificate-transparency-go/x509.Certificate).Verify files=cert_checker.go method=Verify
func c02Verify(c *x509.Certificate, opts x509.VerifyOptions) ([][]*x509.Certificate, error) {
	c02VerifyHit++
	return c02VerifyFn(c, opts)
}

func c02Instant(name string) (time.Time, int64, int64) {
	sec := vI64(name + ".sec")
	nsec := vI64(name + ".nsec")
	vAssume(sec > -62135596800 && sec <= 253402300799) // non-zero instants of years 0001..9999
	vAssume(nsec >= 0 && nsec < 1000000000)
	return time.Unix(sec, nsec).UTC(), sec, nsec
}

func c02Before(s1, n1, s2, n2 int64) bool { return s1 < s2 || (s1 == s2 && n1 < n2) }

func c02MkCert(i int) *x509.Certificate {
	return &x509.Certificate{Raw: []byte{0x30, byte(i)}, RawSubject: []byte{byte(i)}, RawIssuer: []byte{byte(i + 1)}}
}

// c02Setup prepares n submitted certificates (+1 root at index n, +1 stranger at n+1).
func c02Setup(n int) [][]byte {
	c02Certs, c02ParseErr = nil, nil
	var raw [][]byte
	for i := 0; i < n+2; i++ {
		c02Certs = append(c02Certs, c02MkCert(i))
		c02ParseErr = append(c02ParseErr, nil)
		if i < n {
			raw = append(raw, []byte{byte(i)})
		}
	}
	c02VerifyHit = 0
	return raw
}

func c02OKVerify(n int) {
	c02VerifyFn = func(c *x509.Certificate, opts x509.VerifyOptions) ([][]*x509.Certificate, error) {
		return [][]*x509.Certificate{c02Certs[:n+1]}, nil
	}
}

// Harness_C02_window: leaf filters on NotAfter window, expiry and CA bit (also C18's server side).
//
//verif:opt maxpaths=4000 reach=admitted,rejected
func Harness_C02_window() {
	raw := c02Setup(1)
	c02OKVerify(1)
	leaf := c02Certs[0]
	na, ts, tn := c02Instant("notafter")
	leaf.NotAfter = na
	leaf.IsCA = vBool("isCA")
	now, ns, nn := c02Instant("now")
	opts := CertValidationOpts{trustedRoots: x509util.NewPEMCertPool(), currentTime: now}
	ok := true
	if vChoice("has-start", 2) == 1 {
		st, ss, sn := c02Instant("start")
		opts.notAfterStart = &st
		if c02Before(ts, tn, ss, sn) {
			ok = false
		}
	}
	if vChoice("has-limit", 2) == 1 {
		li, ls, ln := c02Instant("limit")
		opts.notAfterLimit = &li
		if !c02Before(ts, tn, ls, ln) {
			ok = false
		}
	}
	opts.rejectExpired = vBool("rejectExpired")
	opts.rejectUnexpired = vBool("rejectUnexpired")
	opts.acceptOnlyCA = vBool("acceptOnlyCA")
	expired := c02Before(ts, tn, ns, nn) // now > NotAfter
	if opts.rejectExpired && expired {
		ok = false
	}
	if opts.rejectUnexpired && !expired {
		ok = false
	}
	if opts.acceptOnlyCA && !leaf.IsCA {
		ok = false
	}
	path, err := ValidateChain(raw, opts)
	if ok {
		vAssert(err == nil, "leaf passing every configured filter is admitted")
		vAssert(len(path) == 2 && path[0] == leaf, "validated path starts with the submitted leaf")
		vReach("admitted")
	} else {
		vAssert(err != nil && path == nil, "leaf failing a configured filter is rejected")
		vAssert(c02VerifyHit == 0, "rejected before path building")
		vReach("rejected")
	}
}

var c02OIDs = []asn1.ObjectIdentifier{
	{1, 3, 6, 1, 4, 1, 11129, 2, 4, 3}, // CT poison
	{2, 5, 29, 35},                     // AKI
	{1, 2, 3, 4},
}

// Harness_C02_extfilter: forbidden extension IDs.
//
//verif:opt maxpaths=6000 reach=admitted,rejected
func Harness_C02_extfilter() {
	raw := c02Setup(1)
	c02OKVerify(1)
	leaf := c02Certs[0]
	leaf.NotAfter = time.Unix(2000000000, 0)
	opts := CertValidationOpts{trustedRoots: x509util.NewPEMCertPool(), currentTime: time.Unix(1000000000, 0)}
	ne := vChoice("n-ext", 3)
	var have [3]bool
	for i := 0; i < ne; i++ {
		k := vChoice("ext-oid", 3)
		have[k] = true
		leaf.Extensions = append(leaf.Extensions, pkix.Extension{Id: c02OIDs[k], Critical: vBool("crit"), Value: vBytes("val", 1)})
	}
	nr := vChoice("n-reject", 3)
	bad := false
	for i := 0; i < nr; i++ {
		k := vChoice("reject-oid", 3)
		opts.rejectExtIds = append(opts.rejectExtIds, c02OIDs[k])
		if have[k] {
			bad = true
		}
	}
	_, err := ValidateChain(raw, opts)
	if bad {
		vAssert(err != nil, "certificate with a forbidden extension is rejected")
		vReach("rejected")
	} else {
		vAssert(err == nil, "certificate without forbidden extensions is admitted")
		vReach("admitted")
	}
}

// Harness_C02_eku: required extended key usages.
//
//verif:opt maxpaths=6000 reach=admitted,rejected
func Harness_C02_eku() {
	raw := c02Setup(1)
	c02OKVerify(1)
	leaf := c02Certs[0]
	leaf.NotAfter = time.Unix(2000000000, 0)
	opts := CertValidationOpts{trustedRoots: x509util.NewPEMCertPool(), currentTime: time.Unix(1000000000, 0)}
	ekus := []x509.ExtKeyUsage{x509.ExtKeyUsageServerAuth, x509.ExtKeyUsageClientAuth, x509.ExtKeyUsageAny}
	var want, has [3]bool
	nw := vChoice("n-want", 3)
	for i := 0; i < nw; i++ {
		k := vChoice("want", 3)
		want[k] = true
		opts.extKeyUsages = append(opts.extKeyUsages, ekus[k])
	}
	nh := vChoice("n-has", 3)
	for i := 0; i < nh; i++ {
		k := vChoice("has", 3)
		has[k] = true
		leaf.ExtKeyUsage = append(leaf.ExtKeyUsage, ekus[k])
	}
	good := nw == 0
	for k := 0; k < 3; k++ {
		if want[k] && has[k] {
			good = true
		}
	}
	_, err := ValidateChain(raw, opts)
	if good {
		vAssert(err == nil, "leaf carrying a required EKU (or no EKU required) is admitted")
		vReach("admitted")
	} else {
		vAssert(err != nil, "leaf without any required EKU is rejected")
		vReach("rejected")
	}
}

// Harness_C02_order: the verdict of the path builder is arbitrary (an error, or up to two paths
// of arbitrary length made of certificates with arbitrary DER identity); the chain is admitted
// iff some returned path uses every submitted certificate in the submitted order (root
// optional), and the path handed on is that path.
//
//verif:opt maxpaths=80000 reach=admitted,rejected
func Harness_C02_order() {
	n := 1 + vChoice("n-submitted", 3)
	raw := c02Setup(n)
	leaf := c02Certs[0]
	leaf.NotAfter = time.Unix(2000000000, 0)
	opts := CertValidationOpts{trustedRoots: x509util.NewPEMCertPool(), currentTime: time.Unix(1000000000, 0)}
	pf := vChoice("parse-fails", n+1) // index of the certificate that fails to parse (n = none)
	if pf < n {
		c02ParseErr[pf] = errors.New("x509: malformed certificate")
		c02Certs[pf] = nil
	}
	// one of the submitted certificates (or none) is itself in the trusted pool -- a root
	// submitted with its chain, or a trusted intermediate
	if tr := vChoice("trusted-submitted", n+1); tr < n && tr != pf {
		opts.trustedRoots.AddCert(c02Certs[tr])
	}
	verr := vBool("verify-error")
	nch := vChoice("n-chains", 3)
	var chains [][]*x509.Certificate
	firstEquiv := -1
	for c := 0; c < nch; c++ {
		l := n - 1 + vChoice("chain-len", 4) // n-1 .. n+2
		var ch []*x509.Certificate
		equiv := l == n || l == n+1
		for j := 0; j < l; j++ {
			id := vU8("der-identity")
			ch = append(ch, &x509.Certificate{Raw: []byte{0x30, id}})
			if j < n && id != byte(j) {
				equiv = false
			}
		}
		chains = append(chains, ch)
		if equiv && firstEquiv < 0 {
			firstEquiv = c
		}
	}
	c02VerifyFn = func(c *x509.Certificate, o x509.VerifyOptions) ([][]*x509.Certificate, error) {
		vAssert(c == leaf, "path building starts from the submitted leaf")
		// what the path builder is given: every submitted certificate but the leaf as a candidate
		// intermediate (trusted or not: a trusted certificate can only end a path, so a chain
		// that continues past it needs it as an intermediate too), the log's pool as roots, and
		// the relaxed options
		subj := o.Intermediates.Subjects()
		vAssert(len(subj) == n-1, "every submitted certificate except the leaf is offered as an intermediate")
		for i := 0; i+1 < n && i < len(subj); i++ {
			vAssert(len(subj[i]) == 1 && subj[i][0] == byte(i+1), "the intermediates are the submitted certificates, in order")
		}
		vAssert(o.Roots == opts.trustedRoots.CertPool(), "the roots are the log's trusted pool")
		vAssert(o.DisableTimeChecks && o.DisableCriticalExtensionChecks && o.DisableEKUChecks && o.DisablePathLenChecks && o.DisableNameConstraintChecks, "relaxed verification options")
		vAssert(!o.DisableNameChecks, "issuer / subject name chaining stays checked (each certificate names the next one)")
		if verr {
			return nil, errors.New("x509: certificate signed by unknown authority")
		}
		return chains, nil
	}
	path, err := ValidateChain(raw, opts)
	if pf < n {
		vAssert(err != nil && path == nil, "chain with an unparsable certificate is rejected")
		vAssert(c02VerifyHit == 0, "no path building for unparsable chains")
		vReach("rejected")
		return
	}
	if !verr && firstEquiv >= 0 {
		vAssert(err == nil, "chain with an order-preserving verified path is admitted")
		want := chains[firstEquiv]
		vAssert(len(path) == len(want), "returned path is the verified path")
		for i := range path {
			vAssert(path[i] == want[i], "returned path is the verified path, certificate for certificate")
		}
		vReach("admitted")
	} else {
		vAssert(err != nil && path == nil, "chain without an order-preserving verified path is rejected")
		vReach("rejected")
	}
}

// Harness_C02_poison: precertificate detection.
//
//verif:opt maxpaths=20000 reach=precert,cert,malformed
func Harness_C02_poison() {
	cert := &x509.Certificate{}
	ne := vChoice("n-ext", 4)
	firstPoison := -1
	var crit []bool
	var vals [][]byte
	for i := 0; i < ne; i++ {
		k := vChoice("oid", 3)
		c := vBool("critical")
		vl := vChoice("val-len", 4)
		v := vBytes("val", vl)
		cert.Extensions = append(cert.Extensions, pkix.Extension{Id: c02OIDs[k], Critical: c, Value: v})
		crit = append(crit, c)
		vals = append(vals, v)
		if k == 0 && firstPoison < 0 {
			firstPoison = i
		}
	}
	is, err := IsPrecertificate(cert)
	if firstPoison < 0 {
		vAssert(err == nil && !is, "no poison extension: ordinary certificate")
		vReach("cert")
		return
	}
	v := vals[firstPoison]
	wellFormed := crit[firstPoison] && len(v) == 2 && v[0] == 0x05 && v[1] == 0x00
	if wellFormed {
		vAssert(err == nil && is, "critical poison with NULL value: precertificate")
		vReach("precert")
	} else {
		vAssert(err != nil && !is, "malformed poison extension is an error")
		vReach("malformed")
	}
}
