//go:build verif

//verif:package trillian/migrillian/core

package core

import (
	"context"
	"errors"
	"strconv"
	"sync"

	ct "github.com/google/certificate-transparency-go"
	"github.com/google/certificate-transparency-go/client"
	"github.com/google/certificate-transparency-go/scanner"
	"github.com/google/trillian"
	"github.com/google/trillian/monitoring"
	"github.com/google/trillian/types"
	"google.golang.org/grpc"
	"google.golang.org/grpc/codes"
	"google.golang.org/grpc/status"
)

// The migrator may also ask the source for its tree head itself (rather than through the fetcher):
// the same scripted answers are served.
//
//verif:stub (*github.com/google/certificate-transparency-go/client.LogClient).GetSTH files=controller.go method=GetSTH
func c20GetSTH(_ *client.LogClient, ctx context.Context) (*ct.SignedTreeHead, error) {
	return scanner.VerifHookGetSTH(ctx)
}

// Concurrency harness (engine option sched=1): Controller.fetchTail with its range generator,
// fetch workers and submitters interleaved at every synchronisation point within the delay bound.

type c20Dest struct {
	trillian.TrillianLogClient
	mu      sync.Mutex
	size    uint64
	root    []byte
	stored  map[int64][]byte
	times   map[int64]int
	quota   map[int64]bool // the first submission of the batch starting here is answered "quota exhausted"
	fatalAt int64          // the batch starting here is refused for good (-1: none)
	bad     bool
	refused bool
}

func (d *c20Dest) GetLatestSignedLogRoot(context.Context, *trillian.GetLatestSignedLogRootRequest, ...grpc.CallOption) (*trillian.GetLatestSignedLogRootResponse, error) {
	lr := types.LogRootV1{TreeSize: d.size, RootHash: d.root}
	b, err := lr.MarshalBinary()
	if err != nil {
		return nil, err
	}
	return &trillian.GetLatestSignedLogRootResponse{SignedLogRoot: &trillian.SignedLogRoot{LogRoot: b}}, nil
}

func (d *c20Dest) AddSequencedLeaves(_ context.Context, in *trillian.AddSequencedLeavesRequest, _ ...grpc.CallOption) (*trillian.AddSequencedLeavesResponse, error) {
	first := int64(-1)
	if len(in.Leaves) > 0 {
		first = in.Leaves[0].LeafIndex
	}
	vSched("add " + strconv.FormatInt(first, 10))
	d.mu.Lock()
	defer d.mu.Unlock()
	if d.quota[first] {
		d.quota[first] = false
		return nil, status.Error(codes.ResourceExhausted, "quota")
	}
	if first == d.fatalAt {
		d.refused = true
		return nil, status.Error(codes.Internal, "refused")
	}
	for i, l := range in.Leaves {
		if l.LeafIndex != first+int64(i) {
			d.bad = true
		}
		if old, ok := d.stored[l.LeafIndex]; ok && string(old) != string(l.LeafValue) {
			d.bad = true // conflicting duplicate
		}
		d.stored[l.LeafIndex] = l.LeafValue
		d.times[l.LeafIndex]++
	}
	return &trillian.AddSequencedLeavesResponse{}, nil
}

// Harness_C20_fetchTail: destination at size 1, source at size 4, batches of 2, two fetch
// workers, two submitters, short reads, one quota-exhausted reply, optionally one batch refused
// for good: on every interleaving fetchTail returns; if it reports success the destination holds
// exactly the source's bytes at every index of [1, 4) and nothing else; in every case nothing
// outside [1, 4) and no conflicting duplicate was submitted.
//
//verif:opt sched=1 race=1 preempt=1 thorough.preempt=1 maxpaths=400000 thorough.maxpaths=4000000 decisions=8000 steps=40000000 reach=migrated,aborted
func Harness_C20_fetchTail() {
	c20FetchTail(false)
}

// Harness_C20_fetchTailDeep: the same pass, restricted to the one-shot configuration over the
// whole log with an unbuffered batch channel, under a delay bound of 2 (thorough tier only).
//
//verif:opt tier=thorough sched=1 race=1 preempt=2 maxpaths=4000000 decisions=8000 steps=40000000 wall=3000 reach=migrated,aborted
func Harness_C20_fetchTailDeep() {
	c20FetchTail(true)
}

func c20FetchTail(deep bool) {
	c20ParseErr = nil
	initMetrics(monitoring.InertMetricFactory{})
	const destSize, srcSize = 1, 4
	dst := &c20Dest{size: destSize, root: make([]byte, 32), stored: map[int64][]byte{}, times: map[int64]int{}, quota: map[int64]bool{}, fatalAt: -1}
	// either one quota-exhausted reply (retried after a back-off pause) or one batch refused for good;
	// the two are not combined so that counterexample schedules do not hinge on timer durations,
	// which the native replay cannot steer
	if q := vChoice("quota-at", 4); q < 3 {
		dst.quota[int64(1+q)] = true
	} else {
		dst.fatalAt = int64(1 + vChoice("fatal-at", 3))
	}
	short := vChoice("short-read", 2) == 1
	// the source keeps growing: the first tree head it serves has size 4 (that is the head whose
	// consistency the migrator verifies), every later one has size 5
	src := make([]ct.LeafEntry, 51)
	for i := range src {
		src[i] = c20Leaf([]byte{byte(0x40 + i)})
	}
	var sthMu sync.Mutex
	sthCalls := 0
	scanner.VerifHookGetSTH = func(context.Context) (*ct.SignedTreeHead, error) {
		sthMu.Lock()
		defer sthMu.Unlock()
		sthCalls++
		if sthCalls == 1 {
			return &ct.SignedTreeHead{TreeSize: srcSize}, nil
		}
		return &ct.SignedTreeHead{TreeSize: srcSize + 1}, nil
	}
	scanner.VerifHookGetRawEntries = func(_ context.Context, s, e int64) (*ct.GetEntriesResponse, error) {
		vSched("get " + strconv.FormatInt(s, 10))
		if s < 0 || e < s || e > 50 {
			return nil, errors.New("bad range")
		}
		// (the source keeps growing: whatever index is asked for exists by the time it is asked for)
		if short && e > s {
			e = s
		}
		return &ct.GetEntriesResponse{Entries: append([]ct.LeafEntry(nil), src[s:e+1]...)}, nil
	}
	// range configuration: one-shot over the whole log; continuous mode (which ignores the configured
	// range, here an end index below the tail); one-shot with an end index beyond the verified size
	fo := scanner.FetcherOptions{BatchSize: 2, ParallelFetch: 2}
	rc := 0
	if !deep {
		rc = vChoice("range-config", 3)
	}
	switch rc {
	case 1:
		fo.Continuous, fo.StartIndex, fo.EndIndex = true, 0, 2
	case 2:
		fo.EndIndex = 7
	}
	channel := 0
	if !deep && !fo.Continuous && fo.EndIndex == 0 {
		channel = vChoice("channel", 2)
	}
	c20ProofCalls, c20VerifyCalls, c20ProofErr, c20VerifyOK = 0, 0, nil, true
	c := &Controller{label: "t", ctClient: &client.LogClient{}, plClient: &PreorderedLogClient{cli: dst, treeID: 7, idFunc: idHashLeafIndex},
		opts: Options{FetcherOptions: fo, Submitters: 2, ChannelSize: channel}}
	pos, err := c.fetchTail(context.Background(), destSize)
	dst.mu.Lock()
	defer dst.mu.Unlock()
	vAssert(c20ProofCalls == 1 && c20First == destSize && c20Second == srcSize, "the source's consistency with the destination root is checked before anything is copied")
	vAssert(!dst.bad, "leaves are submitted under consecutive source indices and never with conflicting bytes")
	for idx, v := range dst.stored {
		vAssert(idx >= destSize && idx < srcSize, "nothing outside [destination size, verified source size)")
		vAssert(string(v) == string(src[idx].LeafInput), "the destination holds the source's leaf_input for the index")
	}
	if err == nil {
		vAssert(pos == srcSize, "success: the position moves to the verified source size")
		vAssert(!dst.refused, "a batch refused for good is not reported as success")
		for i := int64(destSize); i < srcSize; i++ {
			_, ok := dst.stored[i]
			vAssert(ok, "success: every index of the tail is stored, no gaps")
		}
		vReach("migrated")
	} else {
		vReach("aborted")
	}
}
