//go:build verif

//verif:package trillian/migrillian/core

package core

import (
	"context"
	"crypto/sha256"
	"encoding/binary"
	"errors"

	ct "github.com/google/certificate-transparency-go"
	"github.com/google/certificate-transparency-go/scanner"
	"github.com/google/certificate-transparency-go/trillian/migrillian/configpb"
	"github.com/google/trillian/crypto/keyspb"
	"github.com/google/trillian"
	"google.golang.org/grpc"
	"google.golang.org/grpc/codes"
	"google.golang.org/grpc/status"
)

// Certificate parsing of migrated entries is cut: whatever it says, the entry is copied.
var c20ParseErr error

//verif:stub (*github.com/google/certificate-transparency-go.RawLogEntry).ToLogEntry files=trillian.go method=ToLogEntry
func c20ToLogEntry(rle *ct.RawLogEntry) (*ct.LogEntry, error) { return nil, c20ParseErr }

type c20Backend struct {
	trillian.TrillianLogClient
	calls int
	reqs  []*trillian.AddSequencedLeavesRequest
	reply func(n int) (*trillian.AddSequencedLeavesResponse, error)
}

func (b *c20Backend) AddSequencedLeaves(_ context.Context, in *trillian.AddSequencedLeavesRequest, _ ...grpc.CallOption) (*trillian.AddSequencedLeavesResponse, error) {
	b.calls++
	b.reqs = append(b.reqs, in)
	return b.reply(b.calls)
}

// rfc-style leaf_input for an X.509 entry with a 1-byte certificate
func c20Leaf(cert []byte) ct.LeafEntry {
	li := []byte{0, 0, 0, 0, 0, 0, 0, 0, 0, 1, 0, 0, 0, 0, byte(len(cert))}
	li = append(li, cert...)
	li = append(li, 0, 0)
	return ct.LeafEntry{LeafInput: li, ExtraData: []byte{0, 0, 0}}
}

// Harness_C20_buildLeaf: entries are copied verbatim under their index with the configured
// identity hash, whatever the certificate parser says.
//
//verif:opt maxpaths=2000 reach=certdata,leafindex
func Harness_C20_buildLeaf() {
	c20ParseErr = nil
	if vChoice("cert-unparsable", 2) == 1 {
		c20ParseErr = errors.New("x509: malformed certificate")
	}
	be := &c20Backend{}
	byIndex := vChoice("id-by-index", 2) == 1
	c := &PreorderedLogClient{cli: be, treeID: 7, idFunc: idHashCertData}
	if byIndex {
		c.idFunc = idHashLeafIndex
	}
	start := vI64("start")
	vAssume(start >= 0 && start < 1<<62)
	n := 1 + vChoice("n", 2)
	var batch scanner.EntryBatch
	batch.Start = start
	var certs [][]byte
	for i := 0; i < n; i++ {
		cert := vBytes("cert", 1+vChoice("cert-len", 2))
		certs = append(certs, cert)
		batch.Entries = append(batch.Entries, c20Leaf(cert))
	}
	be.reply = func(int) (*trillian.AddSequencedLeavesResponse, error) {
		return &trillian.AddSequencedLeavesResponse{}, nil
	}
	err := c.addSequencedLeaves(context.Background(), &batch)
	vAssert(err == nil && be.calls == 1, "batch submitted once")
	req := be.reqs[0]
	vAssert(req.LogId == 7 && len(req.Leaves) == n, "one leaf per source entry, to the destination tree")
	for i, l := range req.Leaves {
		vAssert(vSame(l.LeafValue, batch.Entries[i].LeafInput), "leaf_input copied verbatim")
		vAssert(vSame(l.ExtraData, batch.Entries[i].ExtraData), "extra_data copied verbatim")
		vAssert(l.LeafIndex == start+int64(i), "submitted under the source index")
		var want [32]byte
		if byIndex {
			d := make([]byte, 8)
			binary.LittleEndian.PutUint64(d, uint64(start+int64(i)))
			want = sha256.Sum256(d)
		} else {
			want = sha256.Sum256(certs[i])
		}
		vAssert(string(l.LeafIdentityHash) == string(want[:]), "identity hash by the configured function")
	}
	if byIndex {
		vReach("leafindex")
	} else {
		vReach("certdata")
	}
}

// Harness_C20_retry: quota-exhausted replies are retried with the same request; other errors
// abort; success ends the submission.
//
//verif:opt maxpaths=4000 reach=retried,aborted,succeeded
func Harness_C20_retry() {
	c20ParseErr = nil
	be := &c20Backend{}
	c := &PreorderedLogClient{cli: be, treeID: 7, idFunc: idHashLeafIndex}
	batch := scanner.EntryBatch{Start: 3, Entries: []ct.LeafEntry{c20Leaf([]byte{1})}}
	// the destination answers ResourceExhausted k times, then with a final outcome
	k := vChoice("quota-errors", 3)
	final := vChoice("final", 3) // OK | other gRPC error | OK without a reply
	fcode := codes.Code(vU32("final-code"))
	vAssume(fcode != codes.OK && fcode != codes.ResourceExhausted)
	// codes the dependency's Retry treats as retryable on its own are outside this harness
	vAssume(fcode != codes.DeadlineExceeded && fcode != codes.Unavailable && fcode != codes.Aborted)
	be.reply = func(n int) (*trillian.AddSequencedLeavesResponse, error) {
		if n <= k {
			return nil, status.Error(codes.ResourceExhausted, "quota")
		}
		switch final {
		case 0:
			return &trillian.AddSequencedLeavesResponse{}, nil
		case 1:
			return nil, status.Error(fcode, "fatal")
		}
		return nil, nil
	}
	err := c.addSequencedLeaves(context.Background(), &batch)
	vAssert(be.calls == k+1, "quota-exhausted replies are retried, everything else ends the submission")
	for _, r := range be.reqs {
		vAssert(r == be.reqs[0], "the same request is re-sent")
	}
	if k > 0 {
		vReach("retried")
	}
	if final == 0 {
		vAssert(err == nil, "success after the retries")
		vReach("succeeded")
	} else {
		vAssert(err != nil, "fatal error or missing reply is reported")
		vReach("aborted")
	}
}

// Harness_C20_counts: fetcher / submitter counts of a configuration: whatever the configured
// numbers, a configuration that validation accepts runs with at least one fetcher and at least one
// submitter (zero means the default of one). With no fetcher a pass would report success without
// copying anything; with no submitter it would never finish.
//
//verif:opt maxpaths=400 reach=accepted,rejected
func Harness_C20_counts() {
	cfg := &configpb.MigrationConfig{SourceUri: "https://log.example/", PublicKey: &keyspb.PublicKey{Der: []byte{1}}, LogId: 7, BatchSize: 10,
		IdentityFunction: configpb.IdentityFunction_SHA256_LEAF_INDEX,
		NumFetchers:      vI32("num-fetchers"), NumSubmitters: vI32("num-submitters")}
	if err := ValidateMigrationConfig(cfg); err != nil {
		vReach("rejected")
		return
	}
	opts := OptionsFromConfig(cfg)
	vAssert(opts.ParallelFetch >= 1, "an accepted configuration runs at least one fetcher")
	vAssert(opts.Submitters >= 1, "an accepted configuration runs at least one submitter")
	if cfg.NumFetchers > 0 {
		vAssert(opts.ParallelFetch == int(cfg.NumFetchers), "the configured number of fetchers is used")
	}
	if cfg.NumSubmitters > 0 {
		vAssert(opts.Submitters == int(cfg.NumSubmitters), "the configured number of submitters is used")
	}
	vReach("accepted")
}
