//go:build verif

//verif:aux scanner for=trillian/migrillian/core,trillian/integration

package scanner

import (
	"context"

	ct "github.com/google/certificate-transparency-go"
)

// The source log as seen by the fetcher is cut at the LogClient calls of scanner/fetcher.go: the
// harness supplies the answers.
var (
	VerifHookGetSTH        func(ctx context.Context) (*ct.SignedTreeHead, error)
	VerifHookGetRawEntries func(ctx context.Context, start, end int64) (*ct.GetEntriesResponse, error)
)

//verif:stub (*github.com/google/certificate-transparency-go/client.LogClient).GetSTH files=fetcher.go method=GetSTH as=VerifStubGetSTH
func VerifStubGetSTH(c LogClient, ctx context.Context) (*ct.SignedTreeHead, error) {
	return VerifHookGetSTH(ctx)
}

//verif:stub (*github.com/google/certificate-transparency-go/client.LogClient).GetRawEntries files=fetcher.go method=GetRawEntries as=VerifStubGetRawEntries
func VerifStubGetRawEntries(c LogClient, ctx context.Context, start, end int64) (*ct.GetEntriesResponse, error) {
	return VerifHookGetRawEntries(ctx, start, end)
}
