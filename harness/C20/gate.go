//go:build verif

//verif:package trillian/migrillian/core

package core

import (
	"context"
	"errors"

	ct "github.com/google/certificate-transparency-go"
	"github.com/google/certificate-transparency-go/client"
	"github.com/transparency-dev/merkle"
)

// The source log's consistency endpoint and the Merkle proof verifier are cut: arbitrary proof
// or error, arbitrary verdict, arguments recorded.
var (
	c20ProofCalls  int
	c20First       uint64
	c20Second      uint64
	c20Proof       [][]byte
	c20ProofErr    error
	c20VerifyCalls int
	c20VerifyOK    bool
	c20VArgs       struct {
		s1, s2 uint64
		proof  [][]byte
		r1, r2 []byte
	}
)

//verif:stub (*github.com/google/certificate-transparency-go/client.LogClient).GetSTHConsistency files=controller.go method=GetSTHConsistency
func c20GetSTHConsistency(_ *client.LogClient, _ context.Context, first, second uint64) ([][]byte, error) {
	c20ProofCalls++
	c20First, c20Second = first, second
	return c20Proof, c20ProofErr
}

//verif:stub github.com/transparency-dev/merkle/proof.VerifyConsistency files=*
func c20VerifyConsistency(_ merkle.LogHasher, s1, s2 uint64, pf [][]byte, r1, r2 []byte) error {
	c20VerifyCalls++
	c20VArgs.s1, c20VArgs.s2, c20VArgs.proof, c20VArgs.r1, c20VArgs.r2 = s1, s2, pf, r1, r2
	if c20VerifyOK {
		return nil
	}
	return errors.New("inconsistent")
}

// Harness_C20_gate: the migrator moves past a non-empty destination root only if the source
// proves its STH consistent with that root.
//
//verif:opt maxpaths=2000 reach=empty,proved,refused
func Harness_C20_gate() {
	c := &Controller{label: "t"}
	treeSize := vU64("destination-size")
	rootHash := vBytes("destination-root", 32)
	sth := &ct.SignedTreeHead{TreeSize: vU64("source-size")}
	srcRoot := vBytes("source-root", 32)
	copy(sth.SHA256RootHash[:], srcRoot)
	c20ProofCalls, c20VerifyCalls = 0, 0
	c20Proof = [][]byte{vBytes("node", 32)}
	c20ProofErr = nil
	if vChoice("proof-fetch-fails", 2) == 1 {
		c20ProofErr = errors.New("no proof")
	}
	c20VerifyOK = vChoice("proof-valid", 2) == 1
	err := c.verifyConsistency(context.Background(), treeSize, rootHash, sth)
	if treeSize == 0 {
		vAssert(err == nil && c20ProofCalls == 0, "an empty destination is consistent with anything")
		vReach("empty")
		return
	}
	vAssert(c20ProofCalls == 1 && c20First == treeSize && c20Second == sth.TreeSize, "a proof between the destination size and the source STH is requested from the source log")
	if c20ProofErr != nil {
		vAssert(err != nil && c20VerifyCalls == 0, "no proof: refuse")
		vReach("refused")
		return
	}
	vAssert(c20VerifyCalls == 1, "the proof is verified")
	vAssert(c20VArgs.s1 == treeSize && c20VArgs.s2 == sth.TreeSize && vSame(c20VArgs.r1, rootHash) && string(c20VArgs.r2) == string(srcRoot) && len(c20VArgs.proof) == 1,
		"for exactly (destination size, destination root) -> (source size, source root) with the served proof")
	if c20VerifyOK {
		vAssert(err == nil, "consistent source accepted")
		vReach("proved")
	} else {
		vAssert(err != nil, "inconsistent source refused")
		vReach("refused")
	}
}
