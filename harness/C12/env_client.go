//go:build verif

//verif:package client

package client

import (
	"bytes"
	"crypto/ecdsa"
	"io"
	"net/http"

	ct "github.com/google/certificate-transparency-go"
	"github.com/google/certificate-transparency-go/jsonclient"
	"github.com/google/certificate-transparency-go/x509"
)

// The server is a scripted RoundTripper (S1 seam at http.Client.Transport).
type c12Server struct {
	calls   int
	respond func(req *http.Request) (*http.Response, error)
}

func (s *c12Server) RoundTrip(req *http.Request) (*http.Response, error) {
	s.calls++
	return s.respond(req)
}

func c12Response(req *http.Request, status int, body []byte) *http.Response {
	return &http.Response{StatusCode: status, Status: "status", Body: io.NopCloser(bytes.NewReader(body)), Header: http.Header{}, Request: req}
}

func c12Client(srv *c12Server, withKey bool) (*LogClient, *ecdsa.PublicKey) {
	c, err := New("http://log.example/", &http.Client{Transport: srv}, jsonclient.Options{})
	vAssume(err == nil)
	// The log's key: natively the real P-256 key of c12PubDER; symbolically an opaque object
	// (the signature primitive is cut, so only the key's identity matters).
	key := &ecdsa.PublicKey{}
	if !vSymbolic() {
		k, err := x509.ParsePKIXPublicKey(c12PubDER)
		if err != nil {
			panic(err)
		}
		key = k.(*ecdsa.PublicKey)
	}
	if withKey {
		c.Verifier = &ct.SignatureVerifier{PubKey: key}
	}
	return c, key
}


// DER (SubjectPublicKeyInfo) of the log's P-256 key: trillian/testdata/ct-http-server.pubkey.pem
var c12PubDER = []byte{0x30, 0x59, 0x30, 0x13, 0x06, 0x07, 0x2a, 0x86, 0x48, 0xce, 0x3d, 0x02, 0x01, 0x06, 0x08, 0x2a, 0x86, 0x48, 0xce, 0x3d, 0x03, 0x01, 0x07, 0x03, 0x42, 0x00, 0x04, 0x07, 0xf8, 0x51, 0xaf, 0xaa, 0x8c, 0x56, 0x83, 0x90, 0x31, 0xb7, 0x80, 0xe3, 0xd6, 0x1a, 0xf7, 0x2f, 0x36, 0x06, 0x71, 0xec, 0xdd, 0x3b, 0xbe, 0x7e, 0x36, 0x6f, 0x0d, 0x1c, 0x1c, 0x60, 0x0b, 0x7f, 0xf5, 0x9f, 0xff, 0xe5, 0x24, 0x49, 0x34, 0x56, 0xf2, 0x4b, 0x10, 0x5f, 0xbf, 0x08, 0x1f, 0xf9, 0x0e, 0xcf, 0x35, 0xb5, 0x8a, 0x8a, 0x8b, 0x30, 0x0a, 0x54, 0xb7, 0xbf, 0x1d, 0x4d, 0xb9}

