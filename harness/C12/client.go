//go:build verif

//verif:package client

package client

import (
	"bytes"
	"context"
	"crypto/sha256"
	"errors"
	"net/http"

	ct "github.com/google/certificate-transparency-go"
	"github.com/google/certificate-transparency-go/jsonclient"
	"github.com/google/certificate-transparency-go/tls"
	"github.com/google/certificate-transparency-go/x509"
)

const (
	bGood = iota
	bNotJSON
	bBadSigTLS
	bTrailingSig
	bBadExt
	bGoodExt
	nBodies
)

// Harness_C12_addChain: AddChain / AddPreChain against every server behaviour.
//
//verif:opt maxpaths=20000 reach=returned,refused,transport
func Harness_C12_addChain() {
	srv := &c12Server{}
	c, key := c12Client(srv, true)
	pre := vChoice("precert-endpoint", 2) == 1
	chain := []ct.ASN1Cert{{Data: vBytes("leaf", 1+vChoice("leaf-len", 2))}, {Data: vBytes("issuer", 2)}}
	// parsing and the TBS transformation are cut: a parsed certificate keeps its DER, a TBS and a key blob
	leafTBS, issuerSPKI, defanged := vBytes("leaf-tbs", 2), vBytes("issuer-spki", 2), vBytes("defanged-tbs", 2)
	x509.VerifCtlParse = func(der []byte) (*x509.Certificate, error) {
		c := &x509.Certificate{Raw: der}
		if len(der) == len(chain[0].Data) && &der[0] == &chain[0].Data[0] {
			c.RawTBSCertificate = leafTBS
		} else {
			c.RawSubjectPublicKeyInfo = issuerSPKI
		}
		return c, nil
	}
	x509.VerifCtlBuildTBS = func(tbs []byte, preIssuer *x509.Certificate) ([]byte, error) {
		vAssert(bytes.Equal(tbs, leafTBS) && preIssuer == nil, "TBS transformation applied to the submitted leaf's TBS, no pre-issuer")
		return defanged, nil
	}
	status := c12Status()
	vAssume(status != 408 && status != 429 && status != 503) // retried statuses: the retry discipline is C13's subject
	kind := vChoice("body", nBodies)
	idLen := []int{0, 31, 32, 33}[vChoice("id-len", 4)]
	id := vBytes("id", idLen)
	sig := vBytes("sig", 2)
	h, a := vU8("hash-alg"), vU8("sig-alg")
	ts := vU64("ts")
	ver := ct.Version(vU8("version"))
	transportErr := vChoice("transport-error", 2) == 1
	tls.VerifCtlVerdict = vChoice("signature-valid", 2) == 1
	tls.VerifCtlCalls = 0
	var sentBody []byte
	srv.respond = func(req *http.Request) (*http.Response, error) {
		if transportErr {
			return nil, errors.New("connection reset")
		}
		ds := rfcDigitallySigned(h, a, sig)
		rsp := ct.AddChainResponse{SCTVersion: ver, ID: id, Timestamp: ts, Signature: ds}
		switch kind {
		case bBadSigTLS:
			rsp.Signature = ds[:len(ds)-1]
		case bTrailingSig:
			rsp.Signature = append(append([]byte{}, ds...), 0)
		case bBadExt:
			rsp.Extensions = "!!"
		case bGoodExt:
			rsp.Extensions = "AQID" // base64 of 01 02 03
		}
		sentBody = vJSONEncode(rsp)
		if kind == bNotJSON {
			sentBody = []byte("<html>not json</html>")
		}
		return c12Response(req, status, sentBody), nil
	}
	// one attempt only: a retried outcome would loop (the retry discipline is C13's subject)
	ctx := &c12Ctx{}
	var sct *ct.SignedCertificateTimestamp
	var err error
	retried := transportErr || (status == 200 && kind == bNotJSON)
	if retried {
		ctx.cancelAfter = 1
	}
	if pre {
		sct, err = c.AddPreChain(ctx, chain)
	} else {
		sct, err = c.AddChain(ctx, chain)
	}
	vAssert((sct == nil) != (err == nil), "either an SCT or an error, never both or neither")
	if transportErr {
		vAssert(err != nil, "transport error reported")
		vReach("transport")
		return
	}
	if err != nil {
		var re jsonclient.RspError
		if !retried {
			vAssert(errors.As(err, &re), "a received response is reported as RspError")
			if errors.As(err, &re) {
				vAssert(re.StatusCode == status && bytes.Equal(re.Body, sentBody), "carrying the HTTP status and body")
			}
		}
		vReach("refused")
		return
	}
	vReach("returned")
	vAssert(status == 200 && (kind == bGood || kind == bGoodExt), "an SCT is only returned for a well-formed 200 response")
	var exts []byte
	if kind == bGoodExt {
		exts = []byte{1, 2, 3}
	}
	vAssert(bytes.Equal(sct.Extensions, exts), "the returned SCT carries the extensions the server sent")
	vAssert(tls.VerifCtlCalls == 1 && tls.VerifCtlVerdict, "the returned SCT's signature was verified")
	vAssert(tls.VerifCtlKey == any(key), "under the log's key")
	// an independent client derives the signed entry from what it submitted
	var want []byte
	if pre {
		// precert entries need the issuer key hash and TBS: covered by C03; here only the type
		ikh := sha256.Sum256(issuerSPKI)
		want = rfcSCTSignatureInput(ts, true, nil, ikh[:], defanged, exts)
		vAssert(bytes.Equal(tls.VerifCtlData, want), "over the RFC 6962 precert entry: issuer key hash, de-poisoned TBS, the returned timestamp and extensions")
	} else {
		want = rfcSCTSignatureInput(ts, false, chain[0].Data, nil, nil, exts)
		vAssert(bytes.Equal(tls.VerifCtlData, want), "over the RFC 6962 entry built from the submitted chain, the endpoint's entry type, the returned timestamp and extensions")
	}
	vAssert(sct.Timestamp == ts && sct.SCTVersion == ver && bytes.Equal(sct.Signature.Signature, sig), "returned fields are the verified ones")
	keyHash := sha256.Sum256(c12PubDER)
	vAssert(idLen == 32 && bytes.Equal(sct.LogID.KeyID[:], keyHash[:]), "SCT log ID is the hash of the log's public key")
}

// c12Ctx is a context that reports cancellation after a number of Err/Done consultations.
type c12Ctx struct {
	context.Context
	cancelAfter int
	asked       int
}

func (c *c12Ctx) Done() <-chan struct{} {
	if c.cancelAfter > 0 {
		ch := make(chan struct{})
		close(ch)
		return ch
	}
	return nil
}
func (c *c12Ctx) Err() error {
	if c.cancelAfter > 0 {
		return context.Canceled
	}
	return nil
}
func (c *c12Ctx) Value(any) any { return nil }
