//go:build verif

//verif:package client

package client

import (
	"context"
	"errors"
	"net/http"

	ct "github.com/google/certificate-transparency-go"
	"github.com/google/certificate-transparency-go/x509"
)

// Harness_C12_getEntries: LogClient.GetEntries decodes every served entry. Certificate parsing is
// cut (the parser is C11's subject): each entry's certificate parses cleanly, with a non-fatal
// error, or with a fatal one. A non-fatal finding does not hide an entry: all entries are
// returned, in order, with the indices of the range; a fatal parse error fails the call.
//
//verif:opt maxpaths=4000 reach=all-returned,refused
func Harness_C12_getEntries() {
	srv := &c12Server{}
	c, _ := c12Client(srv, false)
	n := 2
	var outcome [2]int
	var certs [2][]byte
	var rsp ct.GetEntriesResponse
	for i := 0; i < n; i++ {
		outcome[i] = vChoice("parse-outcome", 3) // clean | non-fatal error | fatal error
		certs[i] = []byte{0x30, byte(0x40 + i)}
		rsp.Entries = append(rsp.Entries, ct.LeafEntry{LeafInput: rfcMerkleTreeLeaf(uint64(100+i), false, certs[i], nil, nil, nil), ExtraData: rfcCertChain(nil)})
	}
	x509.VerifCtlParse = func(der []byte) (*x509.Certificate, error) {
		i := int(der[1] - 0x40)
		switch outcome[i] {
		case 1:
			return &x509.Certificate{Raw: der}, x509.NonFatalErrors{Errors: []error{errors.New("x509: empty AuthorityInfoAccess extension")}}
		case 2:
			return nil, errors.New("x509: malformed certificate")
		}
		return &x509.Certificate{Raw: der}, nil
	}
	srv.respond = func(req *http.Request) (*http.Response, error) {
		return c12Response(req, 200, vJSONEncode(rsp)), nil
	}
	entries, err := c.GetEntries(context.Background(), 5, 6)
	if outcome[0] == 2 || outcome[1] == 2 {
		vAssert(err != nil && entries == nil, "an entry whose certificate fails to parse fatally fails the call")
		vReach("refused")
		return
	}
	vAssert(err == nil && len(entries) == n, "entries with clean or non-fatal parses are all returned")
	for i := 0; i < n && i < len(entries); i++ {
		vAssert(entries[i].Index == int64(5+i) && entries[i].X509Cert != nil && string(entries[i].X509Cert.Raw) == string(certs[i]) && entries[i].Leaf.TimestampedEntry.Timestamp == uint64(100+i), "each entry decodes to the served certificate, timestamp and index, in order")
	}
	vReach("all-returned")
}
