//go:build verif

//verif:package jsonclient

package jsonclient

import (
	"crypto"
	"errors"
)

// The two key decoders are cut: each records that it ran and returns a key object that names
// its input (which key the client ends up verifying with is the claim, not the decoding).
type c12Key struct{ from string }

var c12DERCalls, c12PEMCalls int

//verif:stub github.com/google/certificate-transparency-go/x509.ParsePKIXPublicKey files=client.go
func c12ParsePKIX(der []byte) (any, error) {
	c12DERCalls++
	if len(der) > 0 && der[0] == 0xff {
		return nil, errors.New("x509: failed to parse public key")
	}
	return &c12Key{from: "der:" + string(der)}, nil
}

//verif:stub github.com/google/certificate-transparency-go.PublicKeyFromPEM files=client.go
func c12FromPEM(b []byte) (crypto.PublicKey, [32]byte, []byte, error) {
	c12PEMCalls++
	if len(b) > 0 && b[0] == '!' {
		return nil, [32]byte{}, nil, errors.New("no PEM block")
	}
	return &c12Key{from: "pem:" + string(b)}, [32]byte{}, nil, nil
}

// Harness_C12_whichKey: the key a client verifies with is the one its options name: the DER key
// when one is given (also when a PEM key is given as well), else the PEM key, else none; a key
// that does not decode is an error, never a silent fall-back to the other form.
//
//verif:opt maxpaths=200 reach=der,pem,none,error
func Harness_C12_whichKey() {
	c12DERCalls, c12PEMCalls = 0, 0
	var opts Options
	der := [][]byte{nil, {0x30, 0x01}, {0xff}}[vChoice("der-key", 3)]
	// a well-formed PEM block around the two bytes 30 02 (so that an implementation that unwraps the
	// PEM itself and hands the block to the DER decoder is served as well), or text that is no PEM
	const c12PEM = "-----BEGIN PUBLIC KEY-----\nMAI=\n-----END PUBLIC KEY-----\n"
	pem := []string{"", c12PEM, "!bad"}[vChoice("pem-key", 3)]
	opts.PublicKeyDER, opts.PublicKey = der, pem
	k, err := opts.ParsePublicKey()
	switch {
	case len(der) > 0 && der[0] == 0xff:
		vAssert(err != nil && k == nil, "an undecodable DER key is an error (no fall-back to the PEM key)")
		vReach("error")
	case len(der) > 0:
		kk, ok := k.(*c12Key)
		vAssert(err == nil && ok && kk.from == "der:"+string(der), "the DER key is used whenever it is given, also next to a PEM key")
		vReach("der")
	case pem == "!bad":
		vAssert(err != nil && k == nil, "an undecodable PEM key is an error")
		vReach("error")
	case pem != "":
		kk, ok := k.(*c12Key)
		vAssert(err == nil && ok && (kk.from == "pem:"+pem || kk.from == "der:\x30\x02"), "the PEM key is used when no DER key is given")
		vReach("pem")
	default:
		vAssert(err == nil && k == nil, "no key configured: no verifier key")
		vReach("none")
	}
}
