//go:build verif

//verif:package client

package client

import (
	"bytes"
	"context"
	"errors"
	"net/http"

	ct "github.com/google/certificate-transparency-go"
	"github.com/google/certificate-transparency-go/jsonclient"
	"github.com/google/certificate-transparency-go/tls"
)

// Harness_C12_getSTH: GetSTH against every server behaviour.
//
//verif:opt maxpaths=20000 reach=returned,refused
func Harness_C12_getSTH() {
	srv := &c12Server{}
	c, key := c12Client(srv, true)
	status := c12Status()
	kind := vChoice("body", 4) // good | not json | truncated signature | trailing bytes
	hl := []int{0, 31, 32, 33}[vChoice("hash-len", 4)]
	root := vBytes("root", hl)
	size, ts := vU64("size"), vU64("ts")
	sig := vBytes("sig", 2)
	h, a := vU8("hash-alg"), vU8("sig-alg")
	tls.VerifCtlVerdict = vChoice("signature-valid", 2) == 1
	tls.VerifCtlCalls = 0
	var sentBody []byte
	srv.respond = func(req *http.Request) (*http.Response, error) {
		ds := rfcDigitallySigned(h, a, sig)
		switch kind {
		case 2:
			ds = ds[:len(ds)-1]
		case 3:
			ds = append(append([]byte{}, ds...), 0)
		}
		sentBody = vJSONEncode(ct.GetSTHResponse{TreeSize: size, Timestamp: ts, SHA256RootHash: root, TreeHeadSignature: ds})
		if kind == 1 {
			sentBody = []byte("oops")
		}
		return c12Response(req, status, sentBody), nil
	}
	sth, err := c.GetSTH(context.Background())
	vAssert((sth == nil) != (err == nil), "either an STH or an error, never both or neither")
	if err != nil {
		var re jsonclient.RspError
		vAssert(errors.As(err, &re) && re.StatusCode == status && bytes.Equal(re.Body, sentBody), "a received response is reported as RspError carrying status and body")
		vReach("refused")
		return
	}
	vReach("returned")
	vAssert(status == 200 && kind == 0 && hl == 32, "an STH is only returned for a well-formed 200 response")
	vAssert(tls.VerifCtlCalls == 1 && tls.VerifCtlVerdict && tls.VerifCtlKey == any(key), "the returned STH's signature was verified under the log's key")
	vAssert(bytes.Equal(tls.VerifCtlData, rfcSTHSignatureInput(ts, size, root)), "over the RFC 6962 tree-head input of the returned fields")
	vAssert(sth.TreeSize == size && sth.Timestamp == ts && bytes.Equal(sth.SHA256RootHash[:], root), "returned fields are the verified ones")
}

// Harness_C12_readMethods: the read methods report non-200 and malformed responses as errors
// carrying status and body, and never return partially filled results.
//
//verif:opt maxpaths=20000 reach=ok,refused
func Harness_C12_readMethods() {
	srv := &c12Server{}
	c, _ := c12Client(srv, false)
	status := c12Status()
	garbage := vChoice("garbage-body", 2) == 1
	truncated := vChoice("body-read-fails", 2) == 1 // the connection drops while the body is read
	which := vChoice("method", 5)
	badRoot := which == 3 && vChoice("root-not-base64", 2) == 1
	h1, h2 := vBytes("hash1", 32), vBytes("hash2", 32)
	var sentBody []byte
	srv.respond = func(req *http.Request) (*http.Response, error) {
		switch which {
		case 0:
			sentBody = vJSONEncode(ct.GetSTHConsistencyResponse{Consistency: [][]byte{h1, h2}})
		case 1:
			sentBody = vJSONEncode(ct.GetProofByHashResponse{LeafIndex: 5, AuditPath: [][]byte{h1}})
		case 2:
			sentBody = vJSONEncode(ct.GetEntriesResponse{Entries: []ct.LeafEntry{{LeafInput: h1, ExtraData: h2}}})
		case 3:
			second := "BAU=" // 04 05
			if badRoot {
				second = "!!"
			}
			sentBody = vJSONEncode(ct.GetRootsResponse{Certificates: []string{"AQID", second}})
		case 4:
			sentBody = vJSONEncode(ct.GetEntryAndProofResponse{LeafInput: h1, ExtraData: h2, AuditPath: [][]byte{h2, h1}})
		}
		if garbage {
			sentBody = []byte("<html>")
		}
		if truncated {
			// the connection drops two bytes into the body, or after what happens to be a complete
			// JSON document (more was announced): either way the read failed
			if vChoice("complete-document-arrived", 2) == 0 {
				sentBody = sentBody[:2]
			}
			rsp := c12Response(req, status, nil)
			rsp.Body = &c12BrokenBody{data: sentBody}
			return rsp, nil
		}
		return c12Response(req, status, sentBody), nil
	}
	var err error
	okShape := false
	switch which {
	case 0:
		var p [][]byte
		p, err = c.GetSTHConsistency(context.Background(), 1, 2)
		okShape = len(p) == 2 && bytes.Equal(p[0], h1) && bytes.Equal(p[1], h2)
		vAssert(err == nil || p == nil, "no partial result with an error")
	case 1:
		var r *ct.GetProofByHashResponse
		r, err = c.GetProofByHash(context.Background(), bytes.Repeat([]byte{7}, 32), 8) // concrete request hash: URL-escaping symbolic base64 text is outside the bound
		okShape = r != nil && r.LeafIndex == 5 && len(r.AuditPath) == 1 && bytes.Equal(r.AuditPath[0], h1)
		vAssert(err == nil || r == nil, "no partial result with an error")
	case 2:
		var r *ct.GetEntriesResponse
		r, err = c.GetRawEntries(context.Background(), 0, 0)
		okShape = r != nil && len(r.Entries) == 1 && bytes.Equal(r.Entries[0].LeafInput, h1) && bytes.Equal(r.Entries[0].ExtraData, h2)
		vAssert(err == nil || r == nil, "no partial result with an error")
	case 3:
		var roots []ct.ASN1Cert
		roots, err = c.GetAcceptedRoots(context.Background())
		okShape = len(roots) == 2 && bytes.Equal(roots[0].Data, []byte{1, 2, 3}) && bytes.Equal(roots[1].Data, []byte{4, 5})
		vAssert(err == nil || roots == nil, "no partial result with an error")
	case 4:
		var r *ct.GetEntryAndProofResponse
		r, err = c.GetEntryAndProof(context.Background(), 3, 9)
		okShape = r != nil && bytes.Equal(r.LeafInput, h1) && bytes.Equal(r.ExtraData, h2) && len(r.AuditPath) == 2 && bytes.Equal(r.AuditPath[0], h2) && bytes.Equal(r.AuditPath[1], h1)
		vAssert(err == nil || r == nil, "no partial result with an error")
	}
	if status == 200 && !garbage && !truncated && !badRoot {
		vAssert(err == nil && okShape, "well-formed 200 response returned unchanged")
		vReach("ok")
		return
	}
	var re jsonclient.RspError
	vAssert(err != nil && errors.As(err, &re) && re.StatusCode == status && bytes.Equal(re.Body, sentBody), "non-200 or malformed response: error carrying status and body")
	vReach("refused")
}

// c12BrokenBody delivers its data and then fails, like a connection dropped mid-body.
type c12BrokenBody struct {
	data []byte
	done bool
}

func (b *c12BrokenBody) Read(p []byte) (int, error) {
	if !b.done {
		b.done = true
		n := copy(p, b.data)
		return n, nil
	}
	return 0, errors.New("unexpected EOF")
}
func (b *c12BrokenBody) Close() error { return nil }

// c12Status: 200, or any other status code a server can send (symbolic).
func c12Status() int {
	if vChoice("status-ok", 2) == 0 {
		return 200
	}
	s := int(vU16("status"))
	vAssume(s >= 100 && s <= 599 && s != 200)
	return s
}

// Harness_C12_getSTHHistory: two GetSTH calls on one client. The second reply repeats the first
// reply's signature bytes, with the same or with different signed fields: every STH handed back is
// verified over its own fields, whatever the client saw before (a signature is valid for one
// signed input only).
//
//verif:opt maxpaths=4000 reach=both-returned,second-refused
func Harness_C12_getSTHHistory() {
	srv := &c12Server{}
	c, key := c12Client(srv, true)
	sig := vBytes("sig", 2)
	root1, root2 := vBytes("root1", 32), vBytes("root2", 32)
	size1, ts1 := vU64("size1"), vU64("ts1")
	size2, ts2 := vU64("size2"), vU64("ts2")
	call := 0
	srv.respond = func(req *http.Request) (*http.Response, error) {
		call++
		ds := rfcDigitallySigned(byte(tls.SHA256), byte(tls.ECDSA), sig)
		if call == 1 {
			return c12Response(req, 200, vJSONEncode(ct.GetSTHResponse{TreeSize: size1, Timestamp: ts1, SHA256RootHash: root1, TreeHeadSignature: ds})), nil
		}
		return c12Response(req, 200, vJSONEncode(ct.GetSTHResponse{TreeSize: size2, Timestamp: ts2, SHA256RootHash: root2, TreeHeadSignature: ds})), nil
	}
	tls.VerifCtlVerdict, tls.VerifCtlCalls = true, 0
	sth1, err := c.GetSTH(context.Background())
	vAssert(err == nil && sth1 != nil && tls.VerifCtlCalls == 1, "the first, validly signed STH is returned after verification")
	// the second reply's signature is valid only if its signed fields are the first reply's
	same := size1 == size2 && ts1 == ts2 && bytes.Equal(root1, root2)
	tls.VerifCtlVerdict = same
	sth2, err := c.GetSTH(context.Background())
	vAssert(tls.VerifCtlCalls == 2 && tls.VerifCtlKey == any(key) && bytes.Equal(tls.VerifCtlData, rfcSTHSignatureInput(ts2, size2, root2)), "the second STH is verified too, over its own fields")
	if same {
		vAssert(err == nil && sth2 != nil, "the identical STH verifies again")
		vReach("both-returned")
	} else {
		vAssert(err != nil && sth2 == nil, "an STH that re-uses a signature made for other fields is refused")
		vReach("second-refused")
	}
}
