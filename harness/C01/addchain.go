//go:build verif

//verif:package trillian/ctfe

package ctfe

import (
	"math/big"
	"bytes"
	"context"
	"crypto/ecdsa"
	"crypto/elliptic"
	"crypto/rsa"
	"crypto/sha256"
	"net/http"
	"time"

	ct "github.com/google/certificate-transparency-go"
	"github.com/google/certificate-transparency-go/tls"
	"github.com/google/trillian"
)

// Harness_C01_x509: add-chain for an X.509 entry. Chain of 1..3 validated certificates (root
// included) with arbitrary DER bytes, arbitrary clock, first-time and duplicate submissions.
//
//verif:opt maxpaths=4000 reach=fresh,duplicate
func Harness_C01_x509() {
	be, rl := &envBackend{}, &envReqLog{}
	li := envLogInfo(be, rl)
	sig := vBytes("sig", 1+vChoice("sig-len", 3))
	sg := &envSigner{pub: &ecdsa.PublicKey{Curve: elliptic.P256()}, sig: sig}
	wantAlg := byte(tls.ECDSA)
	// the log's key: ECDSA on P-256, P-384 or P-521, or RSA; whatever the
	// key, RFC 6962 signs the SHA-256 digest and the SCT says so
	switch vChoice("log-key-type", 4) {
	case 1:
		sg.pub, wantAlg = &rsa.PublicKey{N: big.NewInt(0xc001), E: 65537}, byte(tls.RSA)
	case 2:
		sg.pub = &ecdsa.PublicKey{Curve: elliptic.P384()}
	case 3:
		sg.pub = &ecdsa.PublicKey{Curve: elliptic.P521()}
	}
	li.signer = sg
	sec := vI64("clock.sec")
	nsec := int64(vU32("clock.nsec") & 0x3fffffff)
	vAssume(sec >= 0 && sec <= 4102444800 && nsec < 1000000000) // clock in 1970..2100
	li.TimeSource = envTime{time.Unix(sec, nsec)}
	wantMillis := uint64(sec*1000 + nsec/1000000)

	nchain := 1 + vChoice("chain-len", 3)
	envChain, envChainErr, envVCalls = nil, nil, 0
	var ders [][]byte
	for i := 0; i < nchain; i++ {
		c := envCert("cert", 1+vChoice("der-len", 3+vTier()))
		envChain = append(envChain, c)
		ders = append(ders, c.Raw)
	}
	duplicate := vChoice("duplicate", 2) == 1
	storedTS := vU64("stored-ts")
	var seen *trillian.QueueLeafRequest
	be.queueLeaf = func(in *trillian.QueueLeafRequest) (*trillian.QueueLeafResponse, error) {
		seen = in
		if !duplicate {
			return &trillian.QueueLeafResponse{QueuedLeaf: &trillian.QueuedLogLeaf{Leaf: in.Leaf}}, nil
		}
		// a de-duplicating backend answers with the entry it already holds for this identity hash:
		// the same certificate under an older timestamp (encoded by the reference encoder)
		old := rfcMerkleTreeLeaf(storedTS, false, ders[0], nil, nil, nil)
		return &trillian.QueueLeafResponse{QueuedLeaf: &trillian.QueuedLogLeaf{Leaf: &trillian.LogLeaf{
			LeafValue: old, ExtraData: in.Leaf.ExtraData, LeafIdentityHash: in.Leaf.LeafIdentityHash}}}, nil
	}
	w := &envWriter{}
	st, err := addChain(context.Background(), li, w, envPost(ders))
	vAssert(st == http.StatusOK && err == nil, "valid chain and healthy backend: 200")
	if st != http.StatusOK {
		return
	}
	// --- the leaf handed to the backend
	vAssert(seen != nil && be.calls == 1 && seen.LogId == 1, "one QueueLeaf for the configured log")
	vAssert(bytes.Equal(seen.Leaf.LeafValue, rfcMerkleTreeLeaf(wantMillis, false, ders[0], nil, nil, nil)),
		"queued leaf is the RFC 6962 MerkleTreeLeaf of the submitted certificate at the clock's millisecond")
	idh := sha256.Sum256(ders[0])
	vAssert(bytes.Equal(seen.Leaf.LeafIdentityHash, idh[:]), "identified for de-duplication by SHA-256 of the submitted leaf certificate")
	vAssert(bytes.Equal(seen.Leaf.ExtraData, rfcCertChain(ders[1:])), "extra data is the validated chain without the leaf, root included")
	// --- the SCT
	var rsp ct.AddChainResponse
	vAssert(vJSONDecode(w.body, &rsp) == nil, "response is JSON")
	keyID := sha256.Sum256(envPubDER)
	vAssert(bytes.Equal(rsp.ID, keyID[:]), "SCT id is SHA-256 of the log's public key")
	vAssert(rsp.SCTVersion == ct.V1, "v1 SCT")
	wantTS := wantMillis
	if duplicate {
		wantTS = storedTS
		vReach("duplicate")
	} else {
		vReach("fresh")
	}
	vAssert(rsp.Timestamp == wantTS, "SCT timestamp: minted for a first submission, the stored entry's for a duplicate")
	vAssert(rsp.Extensions == "", "no extensions")
	vAssert(len(sg.digests) == 1, "exactly one signature made")
	want := sha256.Sum256(rfcSCTSignatureInput(wantTS, false, ders[0], nil, nil, nil))
	vAssert(bytes.Equal(sg.digests[0], want[:]), "signed digest is SHA-256 of the RFC 6962 SCT signature input for the submitted entry at the SCT's timestamp")
	vAssert(bytes.Equal(rsp.Signature, rfcDigitallySigned(byte(tls.SHA256), wantAlg, sig)), "signature field is the DigitallySigned of the signer's output with (sha256, key algorithm)")
	vAssert(rl.issued == 1, "SCT recorded as issued once")
}
