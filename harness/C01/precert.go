//go:build verif

//verif:package trillian/ctfe

package ctfe

import (
	"bytes"
	"context"
	"crypto/ecdsa"
	"crypto/elliptic"
	"crypto/sha256"
	"net/http"
	"time"

	ct "github.com/google/certificate-transparency-go"
	"github.com/google/certificate-transparency-go/asn1"
	"github.com/google/certificate-transparency-go/tls"
	"github.com/google/certificate-transparency-go/x509"
	"github.com/google/certificate-transparency-go/x509/pkix"
	"github.com/google/trillian"
)

// Harness_C01_precert: add-pre-chain for validated chains of 2-5 certificates, with a direct
// issuer or a dedicated precert-signing issuer (CT EKU) at chain[1]. The TBS transformation is
// cut (C03): it returns arbitrary bytes and its arguments are checked.
//
//verif:opt maxpaths=4000 reach=direct,preissuer
func Harness_C01_precert() {
	be, rl := &envBackend{}, &envReqLog{}
	li := envLogInfo(be, rl)
	sig := vBytes("sig", 2)
	sg := &envSigner{pub: &ecdsa.PublicKey{Curve: elliptic.P256()}, sig: sig}
	li.signer = sg
	sec := vI64("clock.sec")
	vAssume(sec >= 0 && sec <= 4102444800)
	li.TimeSource = envTime{time.Unix(sec, 0)}
	wantMillis := uint64(sec * 1000)

	n := 2 + vChoice("chain-len", 4) // 2..5 certificates, root included
	preIssuer := vChoice("pre-issuer", 2) == 1
	// with n == 2 and a pre-issuer the validated chain ends at the precert-signing certificate
	// (it is itself a trust anchor of the log): no final issuer, so no entry, no SCT
	noFinal := preIssuer && n == 2
	envChain, envChainErr, envVCalls = nil, nil, 0
	var ders [][]byte
	for i := 0; i < n; i++ {
		c := envCert("cert", 1+vChoice("der-len", 2))
		envChain = append(envChain, c)
		ders = append(ders, c.Raw)
	}
	leaf := envChain[0]
	leaf.RawTBSCertificate = vBytes("leaf-tbs", 2)
	leaf.Extensions = []pkix.Extension{{Id: x509.OIDExtensionCTPoison, Critical: true, Value: asn1.NullBytes}}
	finalIssuer := envChain[1]
	if preIssuer {
		envChain[1].ExtKeyUsage = [][]x509.ExtKeyUsage{
			{x509.ExtKeyUsageCertificateTransparency},
			{x509.ExtKeyUsageServerAuth, x509.ExtKeyUsageCertificateTransparency}}[vChoice("preissuer-ekus", 2)]
		if !noFinal {
			finalIssuer = envChain[2]
		}
	}
	defanged := vBytes("defanged-tbs", 1+vChoice("tbs-len", 2))
	x509.VerifCtlBuildTBS = func(tbs []byte, pi *x509.Certificate) ([]byte, error) {
		vAssert(bytes.Equal(tbs, leaf.RawTBSCertificate), "the submitted precertificate's TBS is transformed")
		if preIssuer {
			vAssert(pi == envChain[1], "with the pre-issuer's details")
		} else {
			vAssert(pi == nil, "without pre-issuer")
		}
		return defanged, nil
	}
	var seen *trillian.QueueLeafRequest
	be.queueLeaf = func(in *trillian.QueueLeafRequest) (*trillian.QueueLeafResponse, error) {
		seen = in
		return &trillian.QueueLeafResponse{QueuedLeaf: &trillian.QueuedLogLeaf{Leaf: in.Leaf}}, nil
	}
	w := &envWriter{}
	st, err := addPreChain(context.Background(), li, w, envPost(ders))
	if noFinal {
		vAssert(st != http.StatusOK && err != nil && seen == nil && len(sg.digests) == 0, "a chain ending at the precert-signing certificate: no entry is queued, nothing is signed, not 200")
		vReach("preissuer")
		return
	}
	vAssert(st == http.StatusOK && err == nil, "valid precertificate chain and healthy backend: 200")
	if st != http.StatusOK {
		return
	}
	ikh := sha256.Sum256(finalIssuer.RawSubjectPublicKeyInfo)
	vAssert(seen != nil && bytes.Equal(seen.Leaf.LeafValue, rfcMerkleTreeLeaf(wantMillis, true, nil, ikh[:], defanged, nil)),
		"queued leaf is the RFC 6962 precert entry: final issuer's key hash and the de-poisoned TBS")
	idh := sha256.Sum256(ders[0])
	vAssert(bytes.Equal(seen.Leaf.LeafIdentityHash, idh[:]), "identified by SHA-256 of the submitted precertificate")
	vAssert(bytes.Equal(seen.Leaf.ExtraData, rfcPrecertChainEntry(ders[0], ders[1:])), "extra data is the PrecertChainEntry: submitted precertificate and the validated chain, root included")
	var rsp ct.AddChainResponse
	vAssert(vJSONDecode(w.body, &rsp) == nil, "response is JSON")
	want := sha256.Sum256(rfcSCTSignatureInput(wantMillis, true, nil, ikh[:], defanged, nil))
	vAssert(len(sg.digests) == 1 && bytes.Equal(sg.digests[0], want[:]), "signed digest is SHA-256 of the RFC 6962 precert signature input at the SCT's timestamp")
	vAssert(rsp.Timestamp == wantMillis && bytes.Equal(rsp.Signature, rfcDigitallySigned(byte(tls.SHA256), byte(tls.ECDSA), sig)), "SCT fields")
	if preIssuer {
		vReach("preissuer")
	} else {
		vReach("direct")
	}
}
