//go:build verif

//verif:package trillian/ctfe

package ctfe

import (
	"strings"
	"context"

	"github.com/google/trillian"
	ct "github.com/google/certificate-transparency-go"
	"github.com/google/certificate-transparency-go/trillian/ctfe/configpb"
	"google.golang.org/protobuf/types/known/anypb"
	"github.com/google/trillian/crypto/keyspb"
)

// (one name extends the other by a digit and the tree IDs are 1 and 11, so that a key built by
// gluing name and ID together would confuse (a, 11) with (a1, 1))
var c15Names = []string{"", "a", "a1"}

type c15MirrorStore struct {
	calls int
	max   int64
}

func (s *c15MirrorStore) GetMirrorSTH(_ context.Context, maxTreeSize int64) (*ct.SignedTreeHead, error) {
	s.calls++
	s.max = maxTreeSize
	return &ct.SignedTreeHead{TreeSize: uint64(maxTreeSize)}, nil
}

// Harness_C15_multi: configuration sets: absent parts, prefixes, backend names and specs,
// tree IDs per backend, references to backends.
//
//verif:opt maxpaths=60000 reach=accepted,rejected wall=600
func Harness_C15_multi() {
	c15PubOK, c15PrivOK, c15SigOK, c15MySQLOK, c15PgOK = true, true, true, true, true
	cfg := &configpb.LogMultiConfig{}
	ok := true
	nb := vChoice("n-backends", 4) // 3 = Backends message absent
	var bnames, bspecs []string
	if nb < 3 {
		cfg.Backends = &configpb.LogBackendSet{}
		for i := 0; i < nb; i++ {
			n, s := c15Names[vChoice("backend-name", 3)], c15Names[vChoice("backend-spec", 3)]
			cfg.Backends.Backend = append(cfg.Backends.Backend, &configpb.LogBackend{Name: n, BackendSpec: s})
			if n == "" || s == "" {
				ok = false
			}
			for j := range bnames {
				if bnames[j] == n || bspecs[j] == s {
					ok = false
				}
			}
			bnames, bspecs = append(bnames, n), append(bspecs, s)
		}
	}
	nl := vChoice("n-logs", 4) // 3 = LogConfigs message absent
	var prefixes, lbes []string
	var ids []int64
	if nl < 3 {
		cfg.LogConfigs = &configpb.LogConfigSet{}
		for i := 0; i < nl; i++ {
			p, be := c15Names[vChoice("prefix", 3)], c15Names[vChoice("log-backend", 3)]
			id := []int64{1, 11}[vChoice("tree-id", 2)]
			cfg.LogConfigs.Config = append(cfg.LogConfigs.Config, &configpb.LogConfig{LogId: id, Prefix: p, LogBackendName: be, PrivateKey: &anypb.Any{}, PublicKey: &keyspb.PublicKey{}})
			if p == "" {
				ok = false
			}
			known := false
			for _, bn := range bnames {
				if bn == be {
					known = true
				}
			}
			if !known {
				ok = false
			}
			for j := range prefixes {
				if prefixes[j] == p || (lbes[j] == be && ids[j] == id) {
					ok = false
				}
			}
			prefixes, lbes, ids = append(prefixes, p), append(lbes, be), append(ids, id)
		}
	}
	m, err := ValidateLogMultiConfig(cfg)
	if ok {
		vAssert(err == nil && len(m) == len(bnames), "well-formed configuration set accepted")
		vReach("accepted")
	} else {
		vAssert(err != nil, "ill-formed configuration set rejected")
		vReach("rejected")
	}
}

// Harness_C15_single: configuration sets for a single log server (ValidateLogConfigs): up to
// two (thorough: three) logs with prefixes, tree IDs and (stray) backend names drawn from small sets: accepted
// exactly when every prefix is non-empty, prefixes are distinct and tree IDs are distinct --
// whatever the backend names say (on a single server every log lives on the one backend).
//
//verif:opt maxpaths=60000 reach=accepted,rejected wall=600
func Harness_C15_single() {
	c15PubOK, c15PrivOK, c15SigOK, c15MySQLOK, c15PgOK = true, true, true, true, true
	nl := vChoice("n-logs", 3+vTier()) // up to two logs (thorough: three)
	var cfgs []*configpb.LogConfig
	ok := true
	for i := 0; i < nl; i++ {
		p, be := c15Names[vChoice("prefix", 3)], c15Names[vChoice("log-backend", 3)]
		id := []int64{1, 11}[vChoice("tree-id", 2)]
		if p == "" {
			ok = false
		}
		for _, c := range cfgs {
			if c.Prefix == p || c.LogId == id {
				ok = false
			}
		}
		cfgs = append(cfgs, &configpb.LogConfig{LogId: id, Prefix: p, LogBackendName: be, PrivateKey: &anypb.Any{}, PublicKey: &keyspb.PublicKey{}})
	}
	err := ValidateLogConfigs(cfgs)
	if ok {
		vAssert(err == nil, "well-formed single-server configuration set accepted")
		vReach("accepted")
	} else {
		vAssert(err != nil, "empty or repeated prefix, or a tree ID used twice on the one server: rejected")
		vReach("rejected")
	}
}

// Harness_C15_instance: the instance exposes the two submission endpoints iff the log is
// neither a mirror nor read-only; a frozen log serves exactly its frozen STH without consulting
// the backend.
//
//verif:opt maxpaths=200 reach=checked
func Harness_C15_instance() {
	mirror, readonly, frozen := vChoice("mirror", 2) == 1, vChoice("readonly", 2) == 1, vChoice("frozen", 2) == 1
	prefix := []string{"log", "log/", "/log/", "a/b//"}[vChoice("prefix-spelling", 4)]
	base := strings.TrimRight(prefix, "/")
	cfg := &configpb.LogConfig{LogId: 1, Prefix: prefix, IsMirror: mirror, IsReadonly: readonly}
	v := &ValidatedLogConfig{Config: cfg}
	fsth := &ct.SignedTreeHead{TreeSize: 9}
	if frozen {
		v.FrozenSTH = fsth
	}
	be := &envBackend{}
	mst := &c15MirrorStore{}
	be.latestRoot = func(*trillian.GetLatestSignedLogRootRequest) (*trillian.GetLatestSignedLogRootResponse, error) {
		return &trillian.GetLatestSignedLogRootResponse{SignedLogRoot: envRootOf(999999, make([]byte, 32), 5)}, nil
	}
	li := newLogInfo(InstanceOptions{Validated: v, Client: be, MetricFactory: envMetricFactory(), STHStorage: mst}, CertValidationOpts{}, nil, envTime{}, &directIssuanceChainService{})
	h := li.Handlers(prefix)
	if !strings.HasPrefix(base, "/") {
		base = "/" + base
	}
	_, hasAdd := h[base+ct.AddChainPath]
	_, hasPre := h[base+ct.AddPreChainPath]
	for path := range h {
		if strings.HasSuffix(path, ct.AddChainPath) || strings.HasSuffix(path, ct.AddPreChainPath) {
			vAssert(!mirror && !readonly, "no submission endpoint under any spelling of the prefix on a mirror or read-only log")
		}
	}
	vAssert(hasAdd == hasPre && hasAdd == (!mirror && !readonly), "submission endpoints exposed iff neither mirror nor read-only")
	vAssert(len(h) == 6 || len(h) == 8, "the six read endpoints are always exposed")
	if frozen {
		// mirror or not, read-only or not: a frozen log only ever serves its frozen STH
		_, isFrozen := li.sthGetter.(*FrozenSTHGetter)
		vAssert(isFrozen, "a log with a frozen STH is served by the frozen-STH getter, whatever its other flags")
		sth, err := li.sthGetter.GetSTH(context.Background())
		vAssert(err == nil && sth == fsth && be.calls == 0 && mst.calls == 0, "a frozen log serves exactly its frozen STH, no backend or mirror-store call")
	} else if mirror {
		mg, isMirror := li.sthGetter.(*MirrorSTHGetter)
		vAssert(isMirror, "a mirror serves STHs bounded by its backend tree")
		if isMirror {
			// the mirror asks its STH store for a head no larger than the backend's tree
			size := vU64("backend-tree-size")
			vAssume(size < 1<<62)
			be.latestRoot = func(*trillian.GetLatestSignedLogRootRequest) (*trillian.GetLatestSignedLogRootResponse, error) {
				return &trillian.GetLatestSignedLogRootResponse{SignedLogRoot: envRootOf(size, make([]byte, 32), 5)}, nil
			}
			st := &c15MirrorStore{}
			mg.st = st
			_, err := mg.GetSTH(context.Background())
			vAssert(err == nil && st.calls == 1 && st.max == int64(size), "the STH store is asked for a head of at most the backend's tree size")
		}
	} else {
		_, isLog := li.sthGetter.(*LogSTHGetter)
		vAssert(isLog, "a regular log signs its own STHs")
	}
	vReach("checked")
}
