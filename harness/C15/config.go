//go:build verif

//verif:package trillian/ctfe

package ctfe

import (
	"crypto"
	"crypto/ecdsa"
	"crypto/elliptic"
	"errors"

	ct "github.com/google/certificate-transparency-go"
	"github.com/google/certificate-transparency-go/trillian/ctfe/configpb"
	"github.com/jackc/pgx/v5/pgconn"
	mysqldrv "github.com/go-sql-driver/mysql"
	"github.com/google/trillian/crypto/keyspb"
	"google.golang.org/protobuf/proto"
	"google.golang.org/protobuf/types/known/anypb"
	"google.golang.org/protobuf/types/known/timestamppb"
)

// Cuts: key parsers, the frozen-STH signature check and the DSN parsers return verdicts chosen
// by the harness (text/binary protobuf decoding and key material are outside the claim).
var (
	c15PubOK, c15PrivOK, c15SigOK, c15MySQLOK, c15PgOK bool
)

//verif:stub github.com/google/certificate-transparency-go/x509.ParsePKIXPublicKey files=*
func c15ParsePub(der []byte) (any, error) {
	if c15PubOK {
		return &ecdsa.PublicKey{Curve: elliptic.P256()}, nil
	}
	return nil, errors.New("bad public key")
}

//verif:stub (*google.golang.org/protobuf/types/known/anypb.Any).UnmarshalNew files=config.go method=UnmarshalNew
func c15UnmarshalNew(a *anypb.Any) (proto.Message, error) {
	if c15PrivOK {
		return &timestamppb.Timestamp{}, nil
	}
	return nil, errors.New("bad private key")
}

//verif:stub (github.com/google/certificate-transparency-go.SignatureVerifier).VerifySTHSignature files=config.go method=VerifySTHSignature
func c15VerifySTH(v *ct.SignatureVerifier, sth ct.SignedTreeHead) error {
	if c15SigOK {
		return nil
	}
	return errors.New("bad signature")
}

//verif:stub github.com/go-sql-driver/mysql.ParseDSN files=*
func c15ParseDSN(dsn string) (*mysqldrv.Config, error) {
	if c15MySQLOK {
		return &mysqldrv.Config{}, nil
	}
	return nil, errors.New("bad dsn")
}

//verif:stub github.com/jackc/pgx/v5/pgconn.ParseConfig files=*
func c15ParsePg(s string) (*pgconn.Config, error) {
	if c15PgOK {
		return &pgconn.Config{}, nil
	}
	return nil, errors.New("bad dsn")
}

var _ crypto.PublicKey

var c15ConnStrings = []string{"", "mysql", "mysql://user@tcp(h)/d", "postgres", "postgres://h/d", "sqlite://x"}
var c15EKUNames = []string{"Any", "ServerAuth", "Bogus"}

func c15TS(name string) (*timestamppb.Timestamp, bool, int64, int64) {
	sec := vI64(name + ".sec")
	nsec := vI32(name + ".nsec")
	valid := sec >= -62135596800 && sec <= 253402300799 && nsec >= 0 && nsec < 1000000000
	return &timestamppb.Timestamp{Seconds: sec, Nanos: nsec}, valid, sec, int64(nsec)
}

// c15Base is a well-formed configuration of an ordinary (non-mirror) log; every harness below
// perturbs one group of fields. ValidateLogConfig is a sequence of independent rule groups, so
// the groups are decided separately (their product is the stated bound that is NOT explored).
func c15Base() *configpb.LogConfig {
	c15PubOK, c15PrivOK, c15SigOK, c15MySQLOK, c15PgOK = true, true, true, true, true
	return &configpb.LogConfig{LogId: 1, Prefix: "log", PrivateKey: &anypb.Any{}, PublicKey: &keyspb.PublicKey{}}
}

func c15Expect(cfg *configpb.LogConfig, ok bool) {
	v, err := ValidateLogConfig(cfg)
	if ok {
		vAssert(err == nil && v != nil && v.Config == cfg, "well-formed configuration accepted")
		vReach("accepted")
	} else {
		vAssert(err != nil && v == nil, "ill-formed configuration rejected")
		vReach("rejected")
	}
}

// Harness_C15_keys: keys present and parseable as the log kind requires.
//
//verif:opt maxpaths=2000 reach=accepted,rejected
func Harness_C15_keys() {
	cfg := c15Base()
	c15PubOK, c15PrivOK, c15SigOK = vChoice("pub-parses", 2) == 1, vChoice("priv-parses", 2) == 1, vChoice("sth-verifies", 2) == 1
	hasPub, hasPriv := vChoice("has-pub", 2) == 1, vChoice("has-priv", 2) == 1
	cfg.IsMirror = vChoice("mirror", 2) == 1
	frozen := vChoice("frozen", 2) == 1
	if !hasPub {
		cfg.PublicKey = nil
	}
	if !hasPriv {
		cfg.PrivateKey = nil
	}
	ok := true
	if hasPub && !c15PubOK {
		ok = false
	}
	if !hasPub && (cfg.IsMirror || frozen) {
		ok = false
	}
	if !cfg.IsMirror && (!hasPriv || !c15PrivOK) {
		ok = false
	}
	if cfg.IsMirror && hasPriv {
		ok = false
	}
	if frozen {
		hl := []int{31, 32}[vChoice("frozen-hash-len", 2)]
		sig := [][]byte{{4, 3, 0, 1, 9}, {4, 3, 0, 1}, {4, 3, 0, 1, 9, 9}}[vChoice("frozen-sig", 3)]
		cfg.FrozenSth = &configpb.SignedTreeHead{TreeSize: vI64("f-size"), Timestamp: vI64("f-ts"), Sha256RootHash: vBytes("f-root", hl), TreeHeadSignature: sig}
		if hl != 32 || len(sig) != 5 || !c15SigOK {
			ok = false // frozen STH must be well-formed and verify under the public key
		}
	}
	c15Expect(cfg, ok)
}

// Harness_C15_flags: not rejecting every certificate; only known EKU names.
//
//verif:opt maxpaths=2000 reach=accepted,rejected
func Harness_C15_flags() {
	cfg := c15Base()
	cfg.RejectExpired, cfg.RejectUnexpired = vBool("reject-expired"), vBool("reject-unexpired")
	ok := !(cfg.RejectExpired && cfg.RejectUnexpired)
	ne := vChoice("n-eku", 4)
	for i := 0; i < ne; i++ {
		k := vChoice("eku", 3)
		cfg.ExtKeyUsages = append(cfg.ExtKeyUsages, c15EKUNames[k])
		if k == 2 {
			ok = false // only known EKU names
		}
	}
	c15Expect(cfg, ok)
}

// Harness_C15_window: NotAfter window valid and ordered; merge delays non-negative and ordered.
//
//verif:opt maxpaths=4000 reach=accepted,rejected
func Harness_C15_window() {
	cfg := c15Base()
	ok := true
	var ss, sn, ls, ln int64
	hasStart, hasLimit := vChoice("has-start", 2) == 1, vChoice("has-limit", 2) == 1
	if hasStart {
		var v bool
		cfg.NotAfterStart, v, ss, sn = c15TS("start")
		if !v {
			ok = false
		}
	}
	if hasLimit {
		var v bool
		cfg.NotAfterLimit, v, ls, ln = c15TS("limit")
		if !v {
			ok = false
		}
	}
	if hasStart && hasLimit && (ls < ss || (ls == ss && ln < sn)) {
		ok = false
	}
	cfg.MaxMergeDelaySec, cfg.ExpectedMergeDelaySec = vI32("mmd"), vI32("emd")
	if cfg.MaxMergeDelaySec < 0 || cfg.ExpectedMergeDelaySec < 0 || cfg.ExpectedMergeDelaySec > cfg.MaxMergeDelaySec {
		ok = false
	}
	c15Expect(cfg, ok)
}

// Harness_C15_storage: a usable external-storage connection string when that backend is selected.
//
//verif:opt maxpaths=2000 reach=accepted,rejected
func Harness_C15_storage() {
	cfg := c15Base()
	c15MySQLOK, c15PgOK = vChoice("mysql-dsn-ok", 2) == 1, vChoice("pg-dsn-ok", 2) == 1
	ok := true
	ci := vChoice("conn", len(c15ConnStrings))
	cfg.CtfeStorageConnectionString = c15ConnStrings[ci]
	if vChoice("ctfe-storage", 2) == 1 {
		cfg.ExtraDataIssuanceChainStorageBackend = configpb.LogConfig_ISSUANCE_CHAIN_STORAGE_BACKEND_CTFE
		ok = (ci == 2 && c15MySQLOK) || ((ci == 3 || ci == 4) && c15PgOK)
	}
	c15Expect(cfg, ok)
}
