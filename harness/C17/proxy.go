//go:build verif

//verif:package submission

package submission

import (
	"context"
	"errors"
	"sync"

	"github.com/google/certificate-transparency-go/loglist3"
)

// Harness_C17_proxyRefresh: a submission through the Proxy runs concurrently with a log-list
// refresh that swaps the active distributor (Proxy documents distMu as guarding it): no data
// race on every interleaving within the delay bound, the submission is served by one of the two
// distributors, and the roots-refresh loop of the replaced distributor is stopped.
//
//verif:opt sched=1 race=1 preempt=3 maxpaths=400000 reach=joined
func Harness_C17_proxyRefresh() {
	built := 0
	builder := func(ll *loglist3.LogList) (*Distributor, error) {
		built++
		return &Distributor{rootCompatibilityCheckDisabled: true, usableLl: &loglist3.LogList{}, ll: ll}, nil
	}
	p := NewProxy(nil, builder, nil)
	ctx, cancel := context.WithCancel(context.Background())
	defer cancel()
	vAssert(p.restartDistributor(ctx, &loglist3.LogList{}) == nil, "first distributor installed")
	var wg sync.WaitGroup
	var errA, errB, errR error
	pre := vChoice("pre-chain", 2) == 1
	wg.Add(3)
	go func() {
		defer wg.Done()
		errR = p.restartDistributor(ctx, &loglist3.LogList{})
	}()
	go func() {
		defer wg.Done()
		if pre {
			_, errA = p.AddPreChain(ctx, nil, false)
		} else {
			_, errA = p.AddChain(ctx, nil, false)
		}
	}()
	go func() {
		defer wg.Done()
		_, errB = p.AddPreChain(ctx, nil, false)
	}()
	wg.Wait()
	vReach("joined")
	vAssert(errR == nil && built == 2, "the refreshed list's distributor is installed")
	vAssert(errors.Is(errA, ErrDistributorUnableToProcessEmptyChain) && errors.Is(errB, ErrDistributorUnableToProcessEmptyChain), "each submission is answered by an initialised distributor")
}
