//go:build verif

//verif:package ctpolicy

package ctpolicy

import "sync"

// Harness_C17_weights: weight changes concurrent with the start of a submission session on the
// same log group (LogGroupInfo documents wMu as guarding the weights): no data race, and the
// session lists only logs of the group, each at most once.
//
//verif:opt sched=1 race=1 preempt=2 thorough.preempt=3 maxpaths=200000 reach=joined
func Harness_C17_weights() {
	g := &LogGroupInfo{Name: "G", LogURLs: map[string]bool{"a": true, "b": true}, MinInclusions: 1,
		LogWeights: map[string]float32{"a": 1, "b": 1}}
	var wg sync.WaitGroup
	var sess []string
	var err1, err2 error
	which := vChoice("setter", 2)
	wg.Add(2)
	go func() {
		defer wg.Done()
		if which == 0 {
			err1 = g.SetLogWeights(map[string]float32{"a": 0, "b": 2})
		} else {
			err1 = g.SetLogWeight("a", 0)
		}
	}()
	go func() {
		defer wg.Done()
		sess = g.GetSubmissionSession()
		err2 = g.SetLogWeight("b", 3)
	}()
	wg.Wait()
	vReach("joined")
	vAssert(err1 == nil && err2 == nil, "valid weight changes are accepted")
	seen := map[string]bool{}
	for _, l := range sess {
		vAssert(g.LogURLs[l] && !seen[l], "the session lists logs of the group, each at most once")
		seen[l] = true
	}
	vAssert(len(sess) >= 1, "at least one log has positive weight at every moment")
}
