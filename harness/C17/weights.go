//go:build verif

//verif:package ctpolicy

package ctpolicy

import "sync"

// Harness_C17_weights: weight changes concurrent with the start of a submission session on the
// same log group (LogGroupInfo documents wMu as guarding the weights): no data race, and the
// session lists only logs of the group, each at most once.
//
//verif:opt sched=1 race=1 preempt=2 thorough.preempt=3 maxpaths=200000 reach=joined
func Harness_C17_weights() {
	g := &LogGroupInfo{Name: "G", LogURLs: map[string]bool{"a": true, "b": true}, MinInclusions: 1,
		LogWeights: map[string]float32{"a": 1, "b": 1}}
	var wg sync.WaitGroup
	var sess []string
	var err1, err2 error
	which := vChoice("setter", 2)
	wg.Add(2)
	go func() {
		defer wg.Done()
		if which == 0 {
			err1 = g.SetLogWeights(map[string]float32{"a": 0, "b": 2})
		} else {
			err1 = g.SetLogWeight("a", 0)
		}
	}()
	go func() {
		defer wg.Done()
		sess = g.GetSubmissionSession()
		err2 = g.SetLogWeight("b", 3)
	}()
	wg.Wait()
	vReach("joined")
	vAssert(err1 == nil && err2 == nil, "valid weight changes are accepted")
	seen := map[string]bool{}
	for _, l := range sess {
		vAssert(g.LogURLs[l] && !seen[l], "the session lists logs of the group, each at most once")
		seen[l] = true
	}
	vAssert(len(sess) >= 1, "at least one log has positive weight at every moment")
}

// Harness_C17_weightRefusal: a weight change that would leave fewer logs with positive weight
// than the group needs is refused and leaves every weight as it was (SetLogWeight and
// SetLogWeights alike): the next session still offers enough logs. Accepted changes take effect.
//
//verif:opt maxpaths=2000 reach=refused,accepted
func Harness_C17_weightRefusal() {
	need := 1 + vChoice("min-inclusions", 3)
	g := &LogGroupInfo{Name: "G", LogURLs: map[string]bool{"a": true, "b": true, "c": true}, MinInclusions: need,
		LogWeights: map[string]float32{"a": 1, "b": 1, "c": 1}}
	zeroed := vChoice("logs-already-at-zero", 2) // 0: none, 1: "c"
	if zeroed == 1 {
		g.LogWeights["c"] = 0
	}
	positive := 3 - zeroed
	vAssume(positive >= need)
	before := map[string]float32{"a": g.LogWeights["a"], "b": g.LogWeights["b"], "c": g.LogWeights["c"]}
	var err error
	single := vChoice("single-log-setter", 2) == 1
	w := []float32{0, 2}[vChoice("new-weight", 2)]
	if single {
		err = g.SetLogWeight("a", w)
	} else {
		err = g.SetLogWeights(map[string]float32{"a": w, "b": before["b"], "c": before["c"]})
	}
	after := positive
	if w == 0 {
		after--
	}
	if after < need {
		vAssert(err != nil, "a change that makes the minimal inclusion number unreachable is refused")
		for l, wt := range before {
			vAssert(g.LogWeights[l] == wt, "a refused change leaves every weight as it was")
		}
		vAssert(len(g.GetSubmissionSession()) >= need, "the next session still offers enough logs")
		vReach("refused")
		return
	}
	vAssert(err == nil && g.LogWeights["a"] == w && g.LogWeights["b"] == before["b"] && g.LogWeights["c"] == before["c"], "an acceptable change takes effect, for that log only")
	vReach("accepted")
}
