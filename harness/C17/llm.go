//go:build verif

//verif:package submission

package submission

import (
	"context"
	"sync"
)

type c17Refresher struct {
	mu sync.Mutex
	n  byte
}

func (r *c17Refresher) Refresh() (*LogListData, error) {
	vSched("refresh")
	r.mu.Lock()
	defer r.mu.Unlock()
	r.n++
	return &LogListData{JSON: []byte{r.n}}, nil
}
func (r *c17Refresher) LastJSON() []byte { return nil }
func (r *c17Refresher) Source() string   { return "stand-in" }

// Harness_C17_logListManager: log-list refreshes run while a reader polls the two latest
// versions and a consumer drains the update channel: no data race, no deadlock, the (latest,
// previous) pair a reader sees is always two consecutive versions, and the consumer receives the
// versions in order.
//
//verif:opt sched=1 race=1 preempt=3 maxpaths=400000 reach=joined
func Harness_C17_logListManager() {
	llm := NewLogListManager(&c17Refresher{}, nil)
	logRefOnce.Do(func() { logRefInitMetrics(context.Background(), llm.mtf) })
	var wg sync.WaitGroup
	var seenLatest, seenPrev [2]*LogListData
	var got [2]LogListData
	wg.Add(3)
	go func() {
		defer wg.Done()
		llm.refreshLogListAndNotify(context.Background())
		llm.refreshLogListAndNotify(context.Background())
	}()
	go func() {
		defer wg.Done()
		for i := 0; i < 2; i++ {
			seenLatest[i], seenPrev[i] = llm.GetTwoLatestLogLists()
			vSched("poll")
		}
	}()
	go func() {
		defer wg.Done()
		got[0] = <-llm.LLUpdates
		got[1] = <-llm.LLUpdates
	}()
	wg.Wait()
	vReach("joined")
	vAssert(got[0].JSON[0] == 1 && got[1].JSON[0] == 2, "the consumer receives every version, in order")
	for i := 0; i < 2; i++ {
		if seenLatest[i] == nil {
			vAssert(seenPrev[i] == nil, "no latest version: no previous one either")
			continue
		}
		if seenPrev[i] == nil {
			vAssert(seenLatest[i].JSON[0] == 1, "only the first version has no predecessor")
		} else {
			vAssert(seenLatest[i].JSON[0] == seenPrev[i].JSON[0]+1, "latest and previous are consecutive versions")
		}
	}
}
