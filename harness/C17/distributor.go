//go:build verif

//verif:package submission

package submission

import (
	"context"
	"errors"
	"sync"
	"time"

	ct "github.com/google/certificate-transparency-go"
	"github.com/google/certificate-transparency-go/client"
	"github.com/google/certificate-transparency-go/ctpolicy"
	"github.com/google/certificate-transparency-go/loglist3"
	"github.com/google/certificate-transparency-go/trillian/ctfe"
	"github.com/google/certificate-transparency-go/x509"
	"github.com/google/certificate-transparency-go/x509util"
)

// Certificate parsing and chain validation are cut at the distributor's call sites: a "DER"
// string is one byte naming the certificate; the chain validates iff its last certificate is in
// the distributor's merged root pool (read under the distributor's lock, which the caller holds).
var c17Dist *Distributor

//verif:stub github.com/google/certificate-transparency-go/x509.ParseCertificate files=distributor.go
func c17ParseCertificate(der []byte) (*x509.Certificate, error) {
	if len(der) != 1 {
		return nil, errors.New("x509: malformed certificate")
	}
	return &x509.Certificate{Raw: der, RawSubject: der, NotAfter: time.Unix(1700000000, 0), IsCA: der[0] >= 0xc0}, nil
}

//verif:stub github.com/google/certificate-transparency-go/trillian/ctfe.ValidateChain files=distributor.go
func c17ValidateChain(rawChain [][]byte, _ ctfe.CertValidationOpts) ([]*x509.Certificate, error) {
	var out []*x509.Certificate
	for _, der := range rawChain {
		c, err := c17ParseCertificate(der)
		if err != nil {
			return nil, err
		}
		out = append(out, c)
	}
	if !c17Dist.rootPool.Included(out[len(out)-1]) {
		return nil, errors.New("chain does not end in a trusted root")
	}
	return out, nil
}

type c17LogClient struct {
	url   string
	roots []ct.ASN1Cert
	mu    *sync.Mutex
	sent  map[string]int
}

func (c *c17LogClient) AddChain(ctx context.Context, chain []ct.ASN1Cert) (*ct.SignedCertificateTimestamp, error) {
	vSched("add-chain " + c.url)
	c.mu.Lock()
	c.sent[c.url]++
	c.mu.Unlock()
	return &ct.SignedCertificateTimestamp{Timestamp: uint64(len(c.url))}, nil
}
func (c *c17LogClient) AddPreChain(ctx context.Context, chain []ct.ASN1Cert) (*ct.SignedCertificateTimestamp, error) {
	return nil, errors.New("not a precertificate")
}
func (c *c17LogClient) GetAcceptedRoots(ctx context.Context) ([]ct.ASN1Cert, error) {
	vSched("get-roots " + c.url)
	return c.roots, nil
}

type c17AnyLogPolicy struct{}

func (c17AnyLogPolicy) LogsByGroup(cert *x509.Certificate, approved *loglist3.LogList) (ctpolicy.LogPolicyData, error) {
	g, err := ctpolicy.BaseGroupFor(approved, 1)
	return ctpolicy.LogPolicyData{g.Name: g}, err
}
func (c17AnyLogPolicy) Name() string { return "any one log" }

// Harness_C17_distributor: a submission through the Distributor runs concurrently with a root
// refresh (or strictly after it): no data race on every interleaving within the delay bound; the
// chain is sent to no log more than once; once the refresh has completed, a log whose accepted
// roots are known and do not include the chain's root is not contacted; the SCTs returned come
// from contacted logs.
//
//verif:opt sched=1 race=1 preempt=2 thorough.preempt=3 maxpaths=400000 thorough.maxpaths=4000000 decisions=8000 steps=40000000 reach=joined
func Harness_C17_distributor() {
	mu := &sync.Mutex{}
	sent := map[string]int{}
	usable := &loglist3.LogStates{Usable: &loglist3.LogState{}}
	ll := &loglist3.LogList{Operators: []*loglist3.Operator{
		{Name: "A", Logs: []*loglist3.Log{{URL: "la", State: usable}}},
		{Name: "B", Logs: []*loglist3.Log{{URL: "lb", State: usable}}},
		// logs that are not usable: pending, retired, and one whose temporal interval ended before the certificate's NotAfter
		{Name: "C", Logs: []*loglist3.Log{
			{URL: "lpending", State: &loglist3.LogStates{Pending: &loglist3.LogState{}}},
			{URL: "lretired", State: &loglist3.LogStates{Retired: &loglist3.LogState{}}},
			{URL: "lexpired", State: usable, TemporalInterval: &loglist3.TemporalInterval{StartInclusive: time.Unix(1500000000, 0), EndExclusive: time.Unix(1700000000, 0)}},
		}},
	}}
	rootA, rootB := []byte{0xca}, []byte{0xcb}
	builder := func(l *loglist3.Log) (client.AddLogClient, error) {
		lc := &c17LogClient{url: l.URL, mu: mu, sent: sent}
		if l.URL == "la" {
			lc.roots = []ct.ASN1Cert{{Data: rootA}}
		} else {
			lc.roots = []ct.ASN1Cert{{Data: rootB}}
		}
		return lc, nil
	}
	d, err := NewDistributor(ll, c17AnyLogPolicy{}, builder, nil)
	vAssert(err == nil, "distributor built")
	c17Dist = d
	_ = x509util.NewPEMCertPool
	ctx := context.Background()
	sequential := vChoice("submission-after-refresh", 2) == 1
	var scts []*AssignedSCT
	var serr error
	var errs map[string]error
	chain := [][]byte{{0x01}, rootA}
	if sequential {
		errs = d.RefreshRoots(ctx)
		scts, serr = d.AddChain(ctx, chain, false)
	} else {
		var wg sync.WaitGroup
		wg.Add(2)
		go func() {
			defer wg.Done()
			errs = d.RefreshRoots(ctx)
		}()
		go func() {
			defer wg.Done()
			scts, serr = d.AddChain(ctx, chain, false)
		}()
		wg.Wait()
	}
	vReach("joined")
	vAssert(len(errs) == 0, "root refresh succeeds")
	vAssert(serr == nil && len(scts) >= 1, "the submission succeeds: at least one compatible log answered")
	mu.Lock()
	defer mu.Unlock()
	vAssert(sent["la"] <= 1 && sent["lb"] <= 1, "no log is sent the chain more than once")
	vAssert(sent["lpending"] == 0 && sent["lretired"] == 0, "only usable logs are contacted")
	vAssert(sent["lexpired"] == 0, "a log whose temporal interval does not contain the certificate's NotAfter (here: NotAfter equals its end) is not contacted")
	for _, a := range scts {
		vAssert(sent[a.LogURL] == 1, "SCTs come from contacted logs")
	}
	if sequential {
		vAssert(sent["lb"] == 0, "a log whose known roots do not include the chain's root is not contacted")
		vAssert(sent["la"] == 1, "the compatible log is contacted")
	}
}
