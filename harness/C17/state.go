//go:build verif

//verif:package submission

package submission

import (
	ct "github.com/google/certificate-transparency-go"
	"github.com/google/certificate-transparency-go/ctpolicy"
	"errors"
)

// Harness_C17_state: the shared submission state under every protocol-respecting order of
// atomic steps (request before result, at most one result per requested log), all map
// iteration orders of up to 3 keys: when every group reports complete, the collected SCTs come
// from distinct logs and meet every group's minimum; no log is requested twice.
//
//verif:opt maxpaths=200000 permute=0 thorough.permute=2 replays=6 reach=complete,incomplete wall=600 thorough.wall=6000 thorough.maxpaths=3000000 workers=8
func Harness_C17_state() {
	logs := []string{"g1", "g2", "n1"}
	// Chrome-like policy: one Google group, one non-Google group, base over all logs
	minG, minN, minBase := vInt("min-google"), vInt("min-non-google"), vInt("min-total")
	if vTier() == 0 {
		vAssume(minG == 1 && minN == 1 && minBase >= 2 && minBase <= 3) // quick: Chrome's group minima, total 2 or 3
	} else {
		vAssume(minG >= 0 && minG <= 2 && minN >= 0 && minN <= 1 && minBase >= 0 && minBase <= 3)
	}
	groups := ctpolicy.LogPolicyData{
		"Google":          {Name: "Google", LogURLs: map[string]bool{"g1": true, "g2": true}, MinInclusions: minG},
		"Non-Google":      {Name: "Non-Google", LogURLs: map[string]bool{"n1": true}, MinInclusions: minN},
		ctpolicy.BaseName: {Name: ctpolicy.BaseName, LogURLs: map[string]bool{"g1": true, "g2": true, "n1": true}, MinInclusions: minBase, IsBase: true},
	}
	st := newSafeSubmissionState(groups)
	requested := map[string]bool{}
	granted := map[string]int{}
	answered := map[string]bool{}
	steps := 5 - vTier() // quick: 5 atomic steps, insertion-order map iteration; thorough: 4 steps, all iteration orders of 2-key maps
	for s := 0; s < steps; s++ {
		l := logs[vChoice("log", 3)]
		if !requested[l] {
			requested[l] = true
			if st.request(l, func() {}) {
				granted[l]++
			} else {
				answered[l] = true // not awaited: no submission is made
			}
			continue
		}
		if answered[l] {
			continue
		}
		answered[l] = true
		if vChoice("outcome", 2) == 1 {
			st.setResult(l, &ct.SignedCertificateTimestamp{Timestamp: uint64(s)}, nil)
		} else {
			st.setResult(l, nil, errors.New("log unavailable"))
		}
	}
	for _, l := range logs {
		vAssert(granted[l] <= 1, "no log is sent the chain more than once")
		if requested[l] {
			vAssert(!st.request(l, func() {}), "a second request for the same log is refused")
		}
	}
	scts := st.collectSCTs()
	seen := map[string]bool{}
	cG, cN, cAll := 0, 0, 0
	for _, a := range scts {
		vAssert(!seen[a.LogURL] && a.SCT != nil, "SCTs come from distinct logs")
		seen[a.LogURL] = true
		cAll++
		if a.LogURL == "n1" {
			cN++
		} else {
			cG++
		}
	}
	if st.groupComplete("Google") && st.groupComplete("Non-Google") && st.groupComplete(ctpolicy.BaseName) {
		vAssert(cG >= minG, "reported complete: the Google group has its required SCTs")
		vAssert(cN >= minN, "reported complete: the non-Google group has its required SCTs")
		vAssert(cAll >= minBase, "reported complete: the lifetime-dependent total is met")
		vReach("complete")
	} else {
		vReach("incomplete")
	}
}
