//go:build verif

//verif:package submission

package submission

import (
	"context"
	"errors"
	"sync"

	ct "github.com/google/certificate-transparency-go"
	"github.com/google/certificate-transparency-go/ctpolicy"
)

// Concurrency harness for the submission distributor's race (engine option sched=1): GetSCTs
// with its per-group and per-log goroutines, interleaved at every synchronisation point within the
// delay bound, data-race detector on.

// c17Submitter answers per log as scripted: 0 = SCT, 1 = error, 2 = no answer until the request is cancelled.
type c17Submitter struct {
	mu          sync.Mutex
	outcome     map[string]int
	calls       map[string]int
	answers     int
	cancelAfter int           // the caller cancels once this many answers were produced
	trigger     chan struct{} // closed at that moment (nil: the caller never cancels)
}

func (s *c17Submitter) answered() {
	s.mu.Lock()
	defer s.mu.Unlock()
	s.answers++
	if s.trigger != nil && s.answers == s.cancelAfter {
		close(s.trigger)
	}
}

func (s *c17Submitter) SubmitToLog(ctx context.Context, logURL string, chain []ct.ASN1Cert, asPreChain bool) (*ct.SignedCertificateTimestamp, error) {
	s.mu.Lock()
	s.calls[logURL]++
	o := s.outcome[logURL]
	s.mu.Unlock()
	vSched("submit " + logURL)
	switch o {
	case 0:
		vSched("answer " + logURL) // the log's latency
		s.answered()
		return &ct.SignedCertificateTimestamp{Timestamp: uint64(len(logURL))}, nil
	case 1:
		vSched("answer " + logURL)
		s.answered()
		return nil, errors.New("log unavailable")
	}
	<-ctx.Done()
	return nil, ctx.Err()
}

func c17Groups(minBase int) ctpolicy.LogPolicyData {
	w := func(ls ...string) (map[string]bool, map[string]float32) {
		u, wt := map[string]bool{}, map[string]float32{}
		for _, l := range ls {
			u[l], wt[l] = true, 1
		}
		return u, wt
	}
	gu, gw := w("g1", "g2")
	nu, nw := w("n1")
	bu, bw := w("g1", "g2", "n1")
	return ctpolicy.LogPolicyData{
		"Google":          {Name: "Google", LogURLs: gu, LogWeights: gw, MinInclusions: 1},
		"Non-Google":      {Name: "Non-Google", LogURLs: nu, LogWeights: nw, MinInclusions: 1},
		ctpolicy.BaseName: {Name: ctpolicy.BaseName, LogURLs: bu, LogWeights: bw, MinInclusions: minBase, IsBase: true},
	}
}

func c17CheckResult(sub *c17Submitter, scts []*AssignedSCT, err error, minBase int) {
	sub.mu.Lock() // requests that lost the race may still be running
	defer sub.mu.Unlock()
	for _, l := range []string{"g1", "g2", "n1"} {
		vAssert(sub.calls[l] <= 1, "no log is sent the chain more than once")
	}
	seen := map[string]bool{}
	cG, cN := 0, 0
	for _, a := range scts {
		vAssert(a != nil && a.SCT != nil && !seen[a.LogURL], "SCTs come from distinct logs")
		seen[a.LogURL] = true
		vAssert(sub.calls[a.LogURL] == 1 && sub.outcome[a.LogURL] == 0, "every returned SCT was issued by the log it is attributed to")
		if a.LogURL == "n1" {
			cN++
		} else {
			cG++
		}
	}
	if err == nil {
		vAssert(cG >= 1 && cN >= 1 && cG+cN >= minBase, "reported success: every group of the policy has its required SCTs")
		vReach("success")
	} else {
		vReach("failure")
	}
}

// Harness_C17_getSCTs: every log answers (SCT or error, scripted per log) and the caller does not
// cancel: GetSCTs returns on every interleaving; success implies a policy-satisfying set from
// distinct logs; and when the answering logs suffice for the policy it does report success.
//
//verif:opt sched=1 race=1 preempt=1 thorough.preempt=2 maxpaths=400000 thorough.maxpaths=4000000 decisions=6000 steps=20000000 reach=success,failure
func Harness_C17_getSCTs() {
	minBase := 2 + vChoice("total", 2)
	sub := &c17Submitter{outcome: map[string]int{}, calls: map[string]int{}}
	for _, l := range []string{"g1", "g2", "n1"} {
		sub.outcome[l] = vChoice("outcome "+l, 2)
	}
	scts, err := GetSCTs(context.Background(), sub, []ct.ASN1Cert{{Data: []byte{1}}}, false, c17Groups(minBase))
	c17CheckResult(sub, scts, err, minBase)
	okG := 0
	if sub.outcome["g1"] == 0 {
		okG++
	}
	if sub.outcome["g2"] == 0 {
		okG++
	}
	okN := 1 - sub.outcome["n1"]
	if okG >= 1 && okN >= 1 && okG+okN >= minBase {
		vAssert(err == nil, "enough logs answered successfully and the caller did not cancel: success is reported")
	}
}

// Harness_C17_getSCTsCancel: logs may also hang until their request is cancelled, and the caller
// cancels after the k-th log answer was produced (k = 0: right away; the moment relative to the
// other goroutines is up to the scheduler): GetSCTs still returns on every interleaving, and a
// reported success is still a policy-satisfying set from distinct logs.
//
//verif:opt sched=1 race=1 preempt=1 thorough.preempt=2 maxpaths=400000 thorough.maxpaths=4000000 decisions=6000 steps=20000000 reach=success,failure
func Harness_C17_getSCTsCancel() {
	minBase := 2
	sub := &c17Submitter{outcome: map[string]int{}, calls: map[string]int{}}
	hang := vChoice("hanging-log", 3)
	for i, l := range []string{"g1", "g2", "n1"} {
		sub.outcome[l] = 0
		if i == hang {
			sub.outcome[l] = 2
		}
	}
	sub.cancelAfter = vChoice("cancel-after-answers", 3)
	sub.trigger = make(chan struct{})
	if sub.cancelAfter == 0 {
		close(sub.trigger)
	}
	ctx, cancel := context.WithCancel(context.Background())
	done := make(chan struct{})
	go func() {
		<-sub.trigger
		vSched("caller cancels")
		cancel()
		close(done)
	}()
	scts, err := GetSCTs(ctx, sub, []ct.ASN1Cert{{Data: []byte{1}}}, false, c17Groups(minBase))
	<-done
	c17CheckResult(sub, scts, err, minBase)
}
