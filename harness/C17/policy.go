//go:build verif

//verif:package ctpolicy

package ctpolicy

import (
	"time"

	"github.com/google/certificate-transparency-go/loglist3"
	"github.com/google/certificate-transparency-go/x509"
)

// The calendar decomposition of the validity bounds is cut: (time.Time).Date returns an
// arbitrary valid (year, month, day), first for NotBefore and then for NotAfter.
var c17Dates [2][3]int
var c17DateCalls int

//verif:stub (time.Time).Date files=ctpolicy.go method=Date
func c17Date(t time.Time) (int, time.Month, int) {
	d := c17Dates[c17DateCalls%2]
	c17DateCalls++
	return d[0], time.Month(d[1]), d[2]
}

func c17LogList(nGoogle, nOther int) *loglist3.LogList {
	g := &loglist3.Operator{Name: "Google", Email: []string{"google-ct-logs@googlegroups.com"}}
	o := &loglist3.Operator{Name: "Other", Email: []string{"ct@example.org"}}
	for i := 0; i < nGoogle; i++ {
		g.Logs = append(g.Logs, &loglist3.Log{URL: "https://g" + string(rune('0'+i)) + "/"})
	}
	for i := 0; i < nOther; i++ {
		o.Logs = append(o.Logs, &loglist3.Log{URL: "https://o" + string(rune('0'+i)) + "/"})
	}
	return &loglist3.LogList{Operators: []*loglist3.Operator{g, o}}
}

// Harness_C17_minima: group minima from the certificate lifetime, Chrome and Apple.
//
//verif:opt maxpaths=6000 reach=chrome,apple
func Harness_C17_minima() {
	y1, m1, d1 := vInt("from.year"), vInt("from.month"), vInt("from.day")
	y2, m2, d2 := vInt("to.year"), vInt("to.month"), vInt("to.day")
	vAssume(y1 >= 1990 && y1 <= 2100 && y2 >= y1 && y2 <= 2110)
	vAssume(m1 >= 1 && m1 <= 12 && m2 >= 1 && m2 <= 12 && d1 >= 1 && d1 <= 31 && d2 >= 1 && d2 <= 31)
	c17Dates = [2][3]int{{y1, m1, d1}, {y2, m2, d2}}
	c17DateCalls = 0
	cert := &x509.Certificate{}
	// lifetime in whole months, flooring an incomplete month
	months := (y2-y1)*12 + (m2 - m1)
	if d2 < d1 {
		months--
	}
	want := 5
	if months < 15 {
		want = 2
	} else if months <= 27 {
		want = 3
	} else if months <= 39 {
		want = 4
	}
	nG, nO := 1+vChoice("google-logs", 3), 1+vChoice("other-logs", 3)
	ll := c17LogList(nG, nO)
	if vChoice("policy", 2) == 0 {
		groups, err := ChromeCTPolicy{}.LogsByGroup(cert, ll)
		if nG+nO < want {
			vAssert(err != nil, "fewer logs than the required total: the policy cannot be satisfied and says so")
			return
		}
		vAssert(err == nil && len(groups) == 3, "Chrome: Google group, non-Google group and the base group")
		vAssert(groups["Google-operated"].MinInclusions == 1 && len(groups["Google-operated"].LogURLs) == nG, "at least one Google-operated log")
		vAssert(groups["Non-Google-operated"].MinInclusions == 1 && len(groups["Non-Google-operated"].LogURLs) == nO, "at least one non-Google-operated log")
		vAssert(groups[BaseName].MinInclusions == want && groups[BaseName].IsBase && len(groups[BaseName].LogURLs) == nG+nO, "lifetime-dependent total over all logs (<15 months: 2, <=27: 3, <=39: 4, else 5)")
		vReach("chrome")
		return
	}
	groups, err := AppleCTPolicy{}.LogsByGroup(cert, ll)
	if nG+nO < want {
		vAssert(err != nil, "fewer logs than the required total: the policy cannot be satisfied and says so")
		return
	}
	vAssert(err == nil && len(groups) == 1 && groups[BaseName].MinInclusions == want, "Apple: the lifetime-dependent total only")
	vReach("apple")
}
