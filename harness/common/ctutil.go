//go:build verif

//verif:package ctutil

package ctutil

import (
	"bytes"
	"crypto/ecdsa"
	"crypto/elliptic"
	"crypto/sha256"

	ct "github.com/google/certificate-transparency-go"
	"github.com/google/certificate-transparency-go/asn1"
	"github.com/google/certificate-transparency-go/tls"
	"github.com/google/certificate-transparency-go/x509"
	"github.com/google/certificate-transparency-go/x509/pkix"
)

// Harness_CU_verifySCT: ctutil.VerifySCT / LeafHash for the three kinds of leaf (certificate,
// precertificate, certificate with the SCT embedded): the log key's verdict is returned over
// exactly the RFC 6962 signature input an independent client derives -- entry type by leaf kind,
// issuer key hash of chain[1], the transformed TBS, the SCT's own timestamp and extensions -- an
// "embedded" SCT that is not byte-for-byte in the certificate's SCT list is refused, and the leaf
// hash is the Merkle leaf hash of the same entry. (Signature primitive and the TBS
// transformations are cut: C05 / C03 decide them.)
//
//verif:opt maxpaths=4000 reach=cert,precert,embedded,not-embedded
func Harness_CU_verifySCT() {
	ts := vU64("sct-timestamp")
	ext := vBytes("sct-ext", vChoice("ext-len", 2))
	sig := vBytes("sig", 2)
	sct := &ct.SignedCertificateTimestamp{SCTVersion: ct.V1, Timestamp: ts, Extensions: ext,
		Signature: ct.DigitallySigned{Algorithm: tls.SignatureAndHashAlgorithm{Hash: tls.SHA256, Signature: tls.ECDSA}, Signature: sig}}
	copy(sct.LogID.KeyID[:], vBytes("log-id", 32))
	leafTBS, out := vBytes("leaf-tbs", 2), vBytes("transformed-tbs", 2)
	leaf := &x509.Certificate{Raw: vBytes("leaf", 2), RawTBSCertificate: leafTBS}
	issuer := &x509.Certificate{Raw: []byte{1}, RawSubjectPublicKeyInfo: vBytes("issuer-spki", 2)}
	kind := vChoice("leaf-kind", 3) // certificate | precertificate | certificate with embedded SCT
	embedded := kind == 2
	present := true
	switch kind {
	case 1:
		leaf.Extensions = []pkix.Extension{{Id: x509.OIDExtensionCTPoison, Critical: true, Value: asn1.NullBytes}}
	case 2:
		enc, err := tls.Marshal(*sct)
		vAssert(err == nil, "SCT encodes")
		other := append([]byte{}, enc...)
		other[len(other)-1] ^= 1
		switch vChoice("embedded-list", 3) {
		case 0:
			leaf.SCTList.SCTList = []x509.SerializedSCT{{Val: other}, {Val: enc}}
		case 1:
			leaf.SCTList.SCTList = []x509.SerializedSCT{{Val: other}} // differs in one signature bit
			present = false
		case 2:
			leaf.SCTList.SCTList = []x509.SerializedSCT{{Val: enc[:len(enc)-1]}} // a prefix only
			present = false
		}
	}
	x509.VerifCtlBuildTBS = func(tbs []byte, p *x509.Certificate) ([]byte, error) {
		vAssert(kind == 1 && bytes.Equal(tbs, leafTBS) && p == nil, "poison removal applied to the precertificate's TBS")
		return out, nil
	}
	x509.VerifCtlRemoveSCT = func(tbs []byte) ([]byte, error) {
		vAssert(kind == 2 && bytes.Equal(tbs, leafTBS), "SCT-list removal applied to the final certificate's TBS")
		return out, nil
	}
	tls.VerifCtlVerdict = vChoice("signature-valid", 2) == 1
	tls.VerifCtlCalls = 0
	key := &ecdsa.PublicKey{Curve: elliptic.P256()}
	chain := []*x509.Certificate{leaf, issuer}
	err := VerifySCT(key, chain, sct, embedded)
	if embedded && !present {
		vAssert(err != nil && tls.VerifCtlCalls == 0, "an SCT that is not byte-for-byte in the certificate's SCT list is not an embedded SCT")
		_, herr := LeafHash(chain, sct, true)
		vAssert(herr != nil, "and has no leaf hash as such")
		vReach("not-embedded")
		return
	}
	vAssert(tls.VerifCtlCalls == 1 && (err == nil) == tls.VerifCtlVerdict, "the verdict is the signature check's, under the given key")
	vAssert(tls.VerifCtlKey == any(key), "under the given key")
	ikh := sha256.Sum256(issuer.RawSubjectPublicKeyInfo)
	var want, leafEnc []byte
	if kind == 0 {
		want = rfcSCTSignatureInput(ts, false, leaf.Raw, nil, nil, ext)
		leafEnc = rfcMerkleTreeLeaf(ts, false, leaf.Raw, nil, nil, nil)
		vReach("cert")
	} else {
		want = rfcSCTSignatureInput(ts, true, nil, ikh[:], out, ext)
		leafEnc = rfcMerkleTreeLeaf(ts, true, nil, ikh[:], out, nil)
		if kind == 1 {
			vReach("precert")
		} else {
			vReach("embedded")
		}
	}
	vAssert(bytes.Equal(tls.VerifCtlData, want), "over the RFC 6962 signature input for the leaf kind: entry type, issuer key hash, transformed TBS, the SCT's timestamp and extensions")
	vAssert(bytes.Equal(tls.VerifCtlSig.Signature, sig), "the SCT's own signature value is checked")
	h, herr := LeafHash(chain, sct, embedded)
	wantHash := sha256.Sum256(append([]byte{0}, leafEnc...))
	vAssert(herr == nil && h == wantHash, "the leaf hash is SHA-256(0x00 || MerkleTreeLeaf) of the same entry at the SCT's timestamp")
}
