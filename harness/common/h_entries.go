//go:build verif

//verif:package trillian/ctfe

package ctfe

import (
	"context"
	"net/http"

	ct "github.com/google/certificate-transparency-go"
	"github.com/google/trillian"
	"google.golang.org/grpc/codes"
)

// Harness_C08_entryAndProof: get-entry-and-proof under every backend fault class.
//
//verif:opt maxpaths=6000 reach=ok200,fault,badparam
func Harness_C08_entryAndProof() {
	be, rl := &envBackend{}, &envReqLog{}
	li := envLogInfo(be, rl)
	idx, treeSize := vI64("leaf_index"), vI64("tree_size")
	fault := vChoice("fault", nFaults)
	var code codes.Code
	var sent *trillian.GetEntryAndProofResponse
	be.entryProof = func(in *trillian.GetEntryAndProofRequest) (*trillian.GetEntryAndProofResponse, error) {
		vAssert(in.LeafIndex == idx && in.TreeSize == treeSize && in.LogId == 1, "index and tree size forwarded")
		switch fault {
		case fErrStatus, fErrPlain:
			err, c := envBackendErr(fault == fErrPlain)
			code = c
			return nil, err
		}
		rsp := &trillian.GetEntryAndProofResponse{}
		size := vU64("tree-size")
		switch fault {
		case fRootMissing:
		case fRootGarbled:
			rsp.SignedLogRoot = &trillian.SignedLogRoot{LogRoot: vBytes("junk", 2)}
		case fRootSmall:
			vAssume(size < uint64(treeSize))
			rsp.SignedLogRoot = envRoot(size, 32)
		default:
			vAssume(size >= uint64(treeSize))
			rsp.SignedLogRoot = envRoot(size, 32)
		}
		which := 0
		if fault == fPartAbsent {
			which = 1 + vChoice("absent-part", 3) // leaf | leaf value | proof
		}
		if which != 1 {
			rsp.Leaf = &trillian.LogLeaf{LeafIndex: idx, ExtraData: vBytes("extra", vChoice("extra-len", 3))}
			if which != 2 {
				rsp.Leaf.LeafValue = vBytes("leaf-value", 1+vChoice("leaf-len", 3))
			}
		}
		if which != 3 {
			rsp.Proof = &trillian.Proof{LeafIndex: idx}
			n := vChoice("n-hashes", 3)
			if treeSize > 1 && n == 0 {
				n = 1 // an empty path in a tree of more than one leaf is the "missing proof" fault below
			}
			for i := 0; i < n; i++ {
				rsp.Proof.Hashes = append(rsp.Proof.Hashes, vBytes("hash", 32))
			}
		}
		sent = rsp
		return rsp, nil
	}
	w := &envWriter{}
	r := envGet(map[string]string{getEntryAndProofParamLeafIndex: vDecStr(idx), getEntryAndProofParamTreeSize: vDecStr(treeSize)})
	st, err := getEntryAndProof(context.Background(), li, w, r)
	vAssert((st == http.StatusOK) == (err == nil), "status 200 iff no error")
	if treeSize <= 0 || idx < 0 || idx >= treeSize {
		vAssert(st >= 400 && st < 500 && be.calls == 0, "bad parameters give 4xx without a backend call")
		vReach("badparam")
		return
	}
	vAssert(be.calls == 1, "exactly one backend call")
	effective := fault
	if fault >= fHashSize { // proof hash sizes are only checked on the proof-only endpoints
		effective = fOK
	}
	if effective == fOK {
		vAssert(st == http.StatusOK, "good reply served")
		var got ct.GetEntryAndProofResponse
		vAssert(vJSONDecode(w.body, &got) == nil, "response is JSON")
		vAssert(string(got.LeafInput) == string(sent.Leaf.LeafValue), "leaf_input is the stored leaf value")
		vAssert(string(got.ExtraData) == string(sent.Leaf.ExtraData), "extra_data is the stored extra data")
		vAssert(len(got.AuditPath) == len(sent.Proof.Hashes), "audit path relayed")
		for i := range sent.Proof.Hashes {
			vAssert(string(got.AuditPath[i]) == string(sent.Proof.Hashes[i]), "audit path hashes relayed unchanged and in order")
		}
		vReach("ok200")
		return
	}
	envCheckFaultStatus(st, effective, code)
	vAssert(w.writes == 0, "no success body written on a fault")
	vReach("fault")
}

// Harness_C08_getEntries: get-entries under every backend fault class (also C07's byte fidelity).
//
//verif:opt maxpaths=30000 reach=ok200,fault,badparam
func Harness_C08_getEntries() {
	be, rl := &envBackend{}, &envReqLog{}
	li := envLogInfo(be, rl)
	al := false // the range arithmetic with alignment is decided separately (C07 range harness)
	alignGetEntries = &al
	start, end := vI64("start"), vI64("end")
	fault := vChoice("fault", nFaults)
	var code codes.Code
	var sent []*trillian.LogLeaf
	var seen *trillian.GetLeavesByRangeRequest
	be.leavesRange = func(in *trillian.GetLeavesByRangeRequest) (*trillian.GetLeavesByRangeResponse, error) {
		seen = in
		vAssert(in.StartIndex == start && in.LogId == 1, "range begins at start")
		vAssert(in.Count >= 1 && in.Count <= MaxGetEntriesAllowed, "non-empty range of at most the maximum")
		vAssert(in.StartIndex+in.Count-1 <= end, "range ends no later than end")
		switch fault {
		case fErrStatus, fErrPlain:
			err, c := envBackendErr(fault == fErrPlain)
			code = c
			return nil, err
		}
		rsp := &trillian.GetLeavesByRangeResponse{}
		size := vU64("tree-size")
		switch fault {
		case fRootMissing:
		case fRootGarbled:
			rsp.SignedLogRoot = &trillian.SignedLogRoot{LogRoot: vBytes("junk", 2)}
		case fRootSmall:
			vAssume(size <= uint64(start))
			rsp.SignedLogRoot = envRoot(size, 32)
		default:
			vAssume(size > uint64(start))
			rsp.SignedLogRoot = envRoot(size, 32)
		}
		n := vChoice("n-leaves", 4) // 0..3 leaves
		if int64(n) > in.Count {
			n = int(in.Count)
		}
		if fault == fSurplus {
			vAssume(in.Count <= 2)
			n = int(in.Count) + 1
		}
		if fault == fMisindexed && n == 0 {
			n = 1
		}
		bad := n - 1 // which leaf carries the wrong index: the first, a middle one or the last
		if fault == fMisindexed {
			bad = vChoice("misindexed-position", n)
		}
		for i := 0; i < n; i++ {
			ll, el := 1, vChoice("later-extra-len", 2) // later leaves: extra_data empty or one byte (an entry without extra_data after one with)
			if i == 0 {
				ll, el = 1+vChoice("leaf-len", 2), vChoice("extra-len", 3)
			}
			l := &trillian.LogLeaf{LeafIndex: start + int64(i), LeafValue: vBytes("leaf-value", ll), ExtraData: vBytes("extra", el)}
			if fault == fMisindexed && i == bad {
				l.LeafIndex = vI64("wrong-index")
				vAssume(l.LeafIndex != start+int64(i))
			}
			rsp.Leaves = append(rsp.Leaves, l)
		}
		sent = rsp.Leaves
		return rsp, nil
	}
	w := &envWriter{}
	r := envGet(map[string]string{getEntriesParamStart: vDecStr(start), getEntriesParamEnd: vDecStr(end)})
	st, err := getEntries(context.Background(), li, w, r)
	vAssert((st == http.StatusOK) == (err == nil), "status 200 iff no error")
	if start < 0 || end < 0 || start > end {
		vAssert(st >= 400 && st < 500 && be.calls == 0, "bad parameters give 4xx without a backend call")
		vReach("badparam")
		return
	}
	vAssert(be.calls == 1 && seen != nil, "exactly one backend call")
	effective := fault
	if fault == fPartAbsent || fault == fHashSize || fault == fLeafGarbled {
		effective = fOK // leaves are passed through undecoded; no optional parts on this endpoint
	}
	if effective == fOK {
		vAssert(st == http.StatusOK, "good reply served")
		var got ct.GetEntriesResponse
		vAssert(vJSONDecode(w.body, &got) == nil, "response is JSON")
		vAssert(len(got.Entries) == len(sent), "one entry per stored leaf")
		for i := range sent {
			vAssert(string(got.Entries[i].LeafInput) == string(sent[i].LeafValue), "leaf_input served unmodified and in order")
			vAssert(string(got.Entries[i].ExtraData) == string(sent[i].ExtraData), "extra_data served unmodified and in order")
		}
		vReach("ok200")
		return
	}
	envCheckFaultStatus(st, effective, code)
	vAssert(w.writes == 0, "no success body written on a fault")
	vReach("fault")
}

