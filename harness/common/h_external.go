//go:build verif

//verif:package trillian/ctfe

package ctfe

import (
	"context"
	"errors"
	"net/http"

	"github.com/google/trillian"
)

type extStore struct{}

func (extStore) FindByKey(context.Context, []byte) ([]byte, error) { return nil, errors.New("not found") }
func (extStore) Add(context.Context, []byte, []byte) error         { return nil }

type extCache struct{}

func (extCache) Get(context.Context, []byte) ([]byte, error) { return nil, nil }
func (extCache) Set(context.Context, []byte, []byte) error   { return nil }

// Harness_C08_entryAndProofExternal: get-entry-and-proof answers the same status whether issuance
// chains are stored in the backend or outside it, for the replies that carry no leaf: when the
// backend's tree is smaller than the tree size asked for (the backend then sends its root only:
// the caller asked beyond the current tree, 4xx), and when a big enough tree comes without a
// leaf (malformed reply, 5xx).
//
//verif:opt maxpaths=2000 reach=beyond-tree,missing-leaf
func Harness_C08_entryAndProofExternal() {
	treeSize := int64(5)
	size := vU64("backend-tree-size")
	withProof := vChoice("reply-has-proof", 2) == 1
	var status [2]int
	for mode := 0; mode < 2; mode++ {
		be, rl := &envBackend{}, &envReqLog{}
		li := envLogInfo(be, rl)
		if mode == 1 {
			li.issuanceChainService = newIndirectIssuanceChainService(extStore{}, extCache{})
		}
		be.entryProof = func(in *trillian.GetEntryAndProofRequest) (*trillian.GetEntryAndProofResponse, error) {
			rsp := &trillian.GetEntryAndProofResponse{SignedLogRoot: envRootOf(size, make([]byte, 32), 1)}
			if withProof {
				rsp.Proof = &trillian.Proof{LeafIndex: 1, Hashes: [][]byte{make([]byte, 32)}}
			}
			return rsp, nil
		}
		w := &envWriter{}
		st, err := getEntryAndProof(context.Background(), li, w, envGet(map[string]string{getEntryAndProofParamLeafIndex: "1", getEntryAndProofParamTreeSize: vDecStr(treeSize)}))
		vAssert(err != nil && st != http.StatusOK && w.writes == 0, "a reply without a leaf is never served")
		if size < uint64(treeSize) {
			vAssert(st >= 400 && st < 500, "asking beyond the current tree gives 4xx, wherever the issuance chains are stored")
		} else {
			vAssert(st >= 500 && st <= 599, "a big enough tree without the leaf is a malformed reply: 5xx")
		}
		status[mode] = st
	}
	vAssert(status[0] == status[1], "external chain storage is invisible in the status")
	if size < uint64(treeSize) {
		vReach("beyond-tree")
	} else {
		vReach("missing-leaf")
	}
}
