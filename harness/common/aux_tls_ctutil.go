//go:build verif

//verif:aux tls for=ctutil

package tls

import "crypto"

// (for the ctutil harness only) Cut of the signature check as seen from package ct (signatures.go): the verdict is chosen by
// the harness and the arguments are recorded.
var (
	VerifCtlVerdict bool
	VerifCtlCalls   int
	VerifCtlKey     crypto.PublicKey
	VerifCtlData    []byte
	VerifCtlSig     DigitallySigned
)

//verif:stub github.com/google/certificate-transparency-go/tls.VerifySignature dir=. files=* as=tls.VerifStubVerifySignature
func VerifStubVerifySignature(pubKey crypto.PublicKey, data []byte, sig DigitallySigned) error {
	VerifCtlCalls++
	VerifCtlKey, VerifCtlData, VerifCtlSig = pubKey, data, sig
	if VerifCtlVerdict {
		return nil
	}
	return verifStubErr{}
}

type verifStubErr struct{}

func (verifStubErr) Error() string { return "signature does not verify" }
