//go:build verif

//verif:aux x509

package x509

// ErrVerifNoSCTList is what a harness's transformation stand-in answers for a TBS it refuses.
var ErrVerifNoSCTList = verifErr("x509: SCT list extension absent or present twice")

type verifErr string

func (e verifErr) Error() string { return string(e) }

// Cuts of certificate parsing and of the TBS transformation as seen from package ct
// (serialization.go): results are chosen by the harness, arguments recorded. The
// transformation itself is C03's subject, the parser C11's.
var (
	VerifCtlParse    func(der []byte) (*Certificate, error)
	VerifCtlBuildTBS func(tbs []byte, preIssuer *Certificate) ([]byte, error)
	VerifCtlRemoveSCT func(tbs []byte) ([]byte, error)
)

//verif:stub github.com/google/certificate-transparency-go/x509.ParseCertificate dir=. files=* as=x509.VerifStubParseCertificate
func VerifStubParseCertificate(der []byte) (*Certificate, error) { return VerifCtlParse(der) }

//verif:stub github.com/google/certificate-transparency-go/x509.BuildPrecertTBS dir=. files=* as=x509.VerifStubBuildPrecertTBS
func VerifStubBuildPrecertTBS(tbs []byte, preIssuer *Certificate) ([]byte, error) {
	return VerifCtlBuildTBS(tbs, preIssuer)
}

//verif:stub github.com/google/certificate-transparency-go/x509.RemoveSCTList dir=. files=* as=x509.VerifStubRemoveSCTList
func VerifStubRemoveSCTList(tbs []byte) ([]byte, error) { return VerifCtlRemoveSCT(tbs) }
