//go:build verif

//verif:package trillian/ctfe

package ctfe

import (
	"context"
	"time"

	"github.com/google/certificate-transparency-go/trillian/ctfe/configpb"
	"github.com/google/certificate-transparency-go/x509"
	"github.com/google/trillian"
	"github.com/google/trillian/monitoring"
)

type envWiringBackend struct{ trillian.TrillianLogClient }

// Harness_CI_wiring: the instance that setUpLogInfo builds from a validated configuration
// (a mirror, so that no key or root file is read) carries the configuration's chain filters
// unchanged -- expired / unexpired rejection, the NotAfter window, CA-only, the extended key
// usages, the rejected extensions -- and no fixed validation time: every submission is
// judged against the clock at the time it is made, not at the time the instance was built.
//
//verif:opt maxpaths=500 reach=wired
func Harness_CI_wiring() {
	rejExp, rejUnexp, onlyCA := vChoice("reject-expired", 2) == 1, vChoice("reject-unexpired", 2) == 1, vChoice("accept-only-ca", 2) == 1
	cfg := &configpb.LogConfig{LogId: 1, Prefix: "log", IsMirror: true, RejectExpired: rejExp, RejectUnexpired: rejUnexp, AcceptOnlyCa: onlyCA,
		RejectExtensions: []string{"1.2.3", "2.5.29.15"}}
	v := &ValidatedLogConfig{Config: cfg}
	var start, limit *time.Time
	if vChoice("window-start", 2) == 1 {
		t := time.Unix(vI64("start.sec")&0xffffffff, 0).UTC()
		start = &t
	}
	if vChoice("window-limit", 2) == 1 {
		t := time.Unix(0x100000000+vI64("limit.sec")&0xffffffff, 0).UTC()
		limit = &t
	}
	v.NotAfterStart, v.NotAfterLimit = start, limit
	if vChoice("key-usages", 2) == 1 {
		v.KeyUsages = []x509.ExtKeyUsage{x509.ExtKeyUsageServerAuth, x509.ExtKeyUsageOCSPSigning}
	}
	li, err := setUpLogInfo(context.Background(), InstanceOptions{Validated: v, Client: &envWiringBackend{}, MetricFactory: monitoring.InertMetricFactory{}})
	vAssert(err == nil && li != nil, "a validated mirror configuration yields an instance")
	if li == nil {
		return
	}
	o := li.validationOpts
	vAssert(o.rejectExpired == rejExp && o.rejectUnexpired == rejUnexp && o.acceptOnlyCA == onlyCA, "expired / unexpired rejection and CA-only as configured")
	vAssert((o.notAfterStart == nil) == (start == nil) && (o.notAfterLimit == nil) == (limit == nil), "window bounds present exactly as configured")
	if start != nil && o.notAfterStart != nil {
		vAssert(o.notAfterStart.Equal(*start), "window start as configured")
	}
	if limit != nil && o.notAfterLimit != nil {
		vAssert(o.notAfterLimit.Equal(*limit), "window limit as configured")
	}
	vAssert(len(o.extKeyUsages) == len(v.KeyUsages), "extended key usages as configured")
	for i := range v.KeyUsages {
		vAssert(o.extKeyUsages[i] == v.KeyUsages[i], "extended key usages as configured, in order")
	}
	vAssert(len(o.rejectExtIds) == 2 && o.rejectExtIds[0].String() == "1.2.3" && o.rejectExtIds[1].String() == "2.5.29.15", "rejected extensions as configured")
	vAssert(o.currentTime.IsZero(), "no fixed validation time: expiry is judged against the clock at submission time")
	vReach("wired")
}
