//go:build verif

//verif:package x509

package x509

// A small DER builder written for the harness (definite lengths, short/long form).
func derLen(n int) []byte {
	if n < 0x80 {
		return []byte{byte(n)}
	}
	if n < 0x100 {
		return []byte{0x81, byte(n)}
	}
	return []byte{0x82, byte(n >> 8), byte(n)}
}

func derTLV(tag byte, parts ...[]byte) []byte {
	var c []byte
	for _, p := range parts {
		c = append(c, p...)
	}
	return append(append([]byte{tag}, derLen(len(c))...), c...)
}

var (
	c03OIDPoison = []byte{0x06, 0x0a, 0x2b, 0x06, 0x01, 0x04, 0x01, 0xd6, 0x79, 0x02, 0x04, 0x03}
	c03OIDSCT    = []byte{0x06, 0x0a, 0x2b, 0x06, 0x01, 0x04, 0x01, 0xd6, 0x79, 0x02, 0x04, 0x02}
	c03OIDAKI    = []byte{0x06, 0x03, 0x55, 0x1d, 0x23}
	c03OIDKU     = []byte{0x06, 0x03, 0x55, 0x1d, 0x0f}
	c03OIDBC     = []byte{0x06, 0x03, 0x55, 0x1d, 0x13}
)

func c03Ext(oid []byte, critical bool, value []byte) []byte {
	if critical {
		return derTLV(0x30, oid, []byte{0x01, 0x01, 0xff}, derTLV(0x04, value))
	}
	return derTLV(0x30, oid, derTLV(0x04, value))
}

// c03TBS assembles a canonical v3 TBSCertificate from its parts.
func c03TBS(serial byte, sigOID byte, issuer, subject []byte, keyBits byte, exts [][]byte) []byte {
	version := []byte{0xa0, 0x03, 0x02, 0x01, 0x02}
	ser := []byte{0x02, 0x01, serial}
	alg := derTLV(0x30, []byte{0x06, 0x01, sigOID})
	validity := derTLV(0x30, derTLV(0x17, []byte("250101000000Z")), derTLV(0x18, []byte("20510101000000Z")))
	spki := derTLV(0x30, derTLV(0x30, []byte{0x06, 0x01, sigOID}), []byte{0x03, 0x02, 0x00, keyBits})
	parts := [][]byte{version, ser, alg, issuer, validity, subject, spki}
	if len(exts) > 0 {
		parts = append(parts, derTLV(0xa3, derTLV(0x30, exts...)))
	} else if c03KeepEmptyExtensions {
		// removing the last extension leaves the (now empty) extensions container in place
		parts = append(parts, derTLV(0xa3, derTLV(0x30)))
	}
	return derTLV(0x30, parts...)
}

var c03KeepEmptyExtensions bool

// c11Cert wraps a TBS into a Certificate: SEQUENCE { tbs, signatureAlgorithm, BIT STRING }.
func c11Cert(tbs []byte, sigOID byte, sig []byte) []byte {
	alg := derTLV(0x30, []byte{0x06, 0x01, sigOID})
	return derTLV(0x30, tbs, alg, derTLV(0x03, append([]byte{0x00}, sig...)))
}

// c11TBS is a v3 TBSCertificate whose serial INTEGER is given as raw content octets (so that
// non-minimal encodings, which only the lax parser accepts, are in range).
func c11TBS(serial []byte, sigOID byte, issuer, subject []byte, keyBits byte, exts [][]byte) []byte {
	version := []byte{0xa0, 0x03, 0x02, 0x01, 0x02}
	ser := derTLV(0x02, serial)
	alg := derTLV(0x30, []byte{0x06, 0x01, sigOID})
	validity := derTLV(0x30, derTLV(0x17, []byte("250101000000Z")), derTLV(0x18, []byte("20510101000000Z")))
	spki := derTLV(0x30, derTLV(0x30, []byte{0x06, 0x01, sigOID}), []byte{0x03, 0x02, 0x00, keyBits})
	parts := [][]byte{version, ser, alg, issuer, validity, subject, spki}
	if len(exts) > 0 {
		parts = append(parts, derTLV(0xa3, derTLV(0x30, exts...)))
	}
	return derTLV(0x30, parts...)
}

func c11Coherent(obj bool, err error) bool {
	if obj {
		return err == nil || !IsFatal(err)
	}
	return err != nil && IsFatal(err)
}
