//go:build verif

//verif:package .

package ct

import (
	"errors"

	"github.com/google/certificate-transparency-go/x509"
)

// Harness_CT_entryParseErrors: the library's entry parser on a served X.509 entry whose
// certificate parses cleanly, with a non-fatal finding, or not at all (the certificate parser is
// cut: C11 decides it): a non-fatal finding does not hide the entry -- the entry is returned
// complete, together with an error that IsFatal classifies as non-fatal -- and only a fatal
// parse error yields no entry.
//
//verif:opt maxpaths=200 reach=clean,non-fatal,fatal
func Harness_CT_entryParseErrors() {
	cert := []byte{0x30, 0x41}
	ts := vU64("timestamp")
	leaf := &LeafEntry{LeafInput: rfcMerkleTreeLeaf(ts, false, cert, nil, nil, nil), ExtraData: rfcCertChain([][]byte{{0x30, 0x51}})}
	outcome := vChoice("parse-outcome", 3)
	x509.VerifCtlParse = func(der []byte) (*x509.Certificate, error) {
		switch outcome {
		case 1:
			return &x509.Certificate{Raw: der}, x509.NonFatalErrors{Errors: []error{errors.New("x509: RSA key missing NULL parameters")}}
		case 2:
			return nil, errors.New("x509: malformed certificate")
		}
		return &x509.Certificate{Raw: der}, nil
	}
	e, err := LogEntryFromLeaf(9, leaf)
	if outcome == 2 {
		vAssert(e == nil && err != nil, "a certificate that fails to parse fatally yields no entry")
		vReach("fatal")
		return
	}
	vAssert(e != nil && e.Index == 9 && e.X509Cert != nil && string(e.X509Cert.Raw) == string(cert) && e.Leaf.TimestampedEntry.Timestamp == ts && len(e.Chain) == 1 && string(e.Chain[0].Data) == string([]byte{0x30, 0x51}),
		"the entry decodes to the submitted certificate, its chain, the entry type and the timestamp")
	if outcome == 1 {
		vAssert(err != nil && !x509.IsFatal(err), "the non-fatal finding is reported next to the entry, classified non-fatal")
		vReach("non-fatal")
	} else {
		vAssert(err == nil, "a clean parse has no error")
		vReach("clean")
	}
}
