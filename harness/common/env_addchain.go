//go:build verif

//verif:package trillian/ctfe

package ctfe

import (
	"bytes"
	"errors"
	"io"
	"net/http"

	ct "github.com/google/certificate-transparency-go"
	"github.com/google/certificate-transparency-go/x509"
)

// Cut points of the submission path: chain validation is C02's subject; the DER encoding of the
// log's public key is a fixed blob.
var (
	envChain    []*x509.Certificate
	envChainErr error
	envPubDER   = []byte{0x30, 0x59, 0x30, 0x13, 0x06, 0x07}
	envVCalls   int
)

//verif:stub github.com/google/certificate-transparency-go/trillian/ctfe.ValidateChain files=*
func envValidateChain(raw [][]byte, opts CertValidationOpts) ([]*x509.Certificate, error) {
	envVCalls++
	if envChainErr != nil {
		return nil, envChainErr
	}
	return envChain, nil
}

//verif:stub github.com/google/certificate-transparency-go/x509.MarshalPKIXPublicKey files=*
func envMarshalPKIX(pub any) ([]byte, error) { return envPubDER, nil }

// envCert makes a parsed certificate with arbitrary DER of the given length.
func envCert(name string, n int) *x509.Certificate {
	return &x509.Certificate{Raw: vBytes(name+".der", n), RawSubjectPublicKeyInfo: vBytes(name+".spki", 2)}
}

func envPost(chain [][]byte) *http.Request {
	body := vJSONEncode(ct.AddChainRequest{Chain: chain})
	return &http.Request{Method: http.MethodPost, Body: io.NopCloser(bytes.NewReader(body))}
}

var errEnvChain = errors.New("chain failed to verify")
