//go:build verif

//verif:package *

package PKGNAME

// Reference encoders written from the text of RFC 6962 section 3 and RFC 5246 section 4,
// independent of tls.Marshal and of the struct tags in the repository.

func rfcU16(v uint16) []byte { return []byte{byte(v >> 8), byte(v)} }
func rfcU24(v int) []byte    { return []byte{byte(v >> 16), byte(v >> 8), byte(v)} }
func rfcU64(v uint64) []byte {
	return []byte{byte(v >> 56), byte(v >> 48), byte(v >> 40), byte(v >> 32), byte(v >> 24), byte(v >> 16), byte(v >> 8), byte(v)}
}

func rfcCat(parts ...[]byte) []byte {
	var out []byte
	for _, p := range parts {
		out = append(out, p...)
	}
	return out
}

// opaque ASN.1Cert<1..2^24-1>
func rfcASN1Cert(der []byte) []byte { return rfcCat(rfcU24(len(der)), der) }

// TimestampedEntry-like tail shared by the leaf and the SCT signature input:
// uint64 timestamp; LogEntryType entry_type; select(entry_type) {...} signed_entry; CtExtensions extensions;
func rfcEntryTail(ts uint64, precert bool, cert []byte, issuerKeyHash []byte, tbs []byte, ext []byte) []byte {
	var entry []byte
	if precert {
		// struct { opaque issuer_key_hash[32]; TBSCertificate tbs_certificate; } PreCert;
		entry = rfcCat(rfcU16(1), issuerKeyHash, rfcU24(len(tbs)), tbs)
	} else {
		entry = rfcCat(rfcU16(0), rfcASN1Cert(cert))
	}
	return rfcCat(rfcU64(ts), entry, rfcU16(uint16(len(ext))), ext)
}

// digitally-signed struct { Version sct_version; SignatureType signature_type = certificate_timestamp; ... }
func rfcSCTSignatureInput(ts uint64, precert bool, cert, issuerKeyHash, tbs, ext []byte) []byte {
	return rfcCat([]byte{0, 0}, rfcEntryTail(ts, precert, cert, issuerKeyHash, tbs, ext))
}

// struct { Version version; MerkleLeafType leaf_type; select (leaf_type) { case timestamped_entry: TimestampedEntry; } } MerkleTreeLeaf;
func rfcMerkleTreeLeaf(ts uint64, precert bool, cert, issuerKeyHash, tbs, ext []byte) []byte {
	return rfcCat([]byte{0, 0}, rfcEntryTail(ts, precert, cert, issuerKeyHash, tbs, ext))
}

// ASN.1Cert certificate_chain<0..2^24-1>
func rfcCertChain(certs [][]byte) []byte {
	var inner []byte
	for _, c := range certs {
		inner = append(inner, rfcASN1Cert(c)...)
	}
	return rfcCat(rfcU24(len(inner)), inner)
}

// struct { ASN.1Cert pre_certificate; ASN.1Cert precertificate_chain<0..2^24-1>; } PrecertChainEntry;
func rfcPrecertChainEntry(pre []byte, certs [][]byte) []byte {
	return rfcCat(rfcASN1Cert(pre), rfcCertChain(certs))
}

// digitally-signed struct { Version version; SignatureType signature_type = tree_hash; uint64 timestamp; uint64 tree_size; opaque sha256_root_hash[32]; } TreeHeadSignature;
func rfcSTHSignatureInput(ts, size uint64, root []byte) []byte {
	return rfcCat([]byte{0, 1}, rfcU64(ts), rfcU64(size), root)
}

// struct { SignatureAndHashAlgorithm algorithm; opaque signature<0..2^16-1>; } DigitallySigned (RFC 5246 4.7)
func rfcDigitallySigned(hash, sigAlg byte, sig []byte) []byte {
	return rfcCat([]byte{hash, sigAlg}, rfcU16(uint16(len(sig))), sig)
}
