//go:build verif

//verif:package trillian/ctfe

package ctfe

// Shared harness environment for the ctfe handlers: a scriptable backend (S1 seam at
// trillian.TrillianLogClient), a recording ResponseWriter and RequestLog, a fixed TimeSource.

import (
	"context"
	"crypto"
	"errors"
	"io"
	"net/http"
	"net/url"
	"time"

	"github.com/google/certificate-transparency-go/x509"
	"github.com/google/certificate-transparency-go/x509util"
	"github.com/google/trillian"
	"github.com/google/trillian/monitoring"
	"github.com/google/trillian/types"
	"google.golang.org/grpc"
	"google.golang.org/grpc/codes"
	"google.golang.org/grpc/status"
)

type envBackend struct {
	trillian.TrillianLogClient
	calls       int
	queueLeaf   func(*trillian.QueueLeafRequest) (*trillian.QueueLeafResponse, error)
	proofByHash func(*trillian.GetInclusionProofByHashRequest) (*trillian.GetInclusionProofByHashResponse, error)
	consistency func(*trillian.GetConsistencyProofRequest) (*trillian.GetConsistencyProofResponse, error)
	latestRoot  func(*trillian.GetLatestSignedLogRootRequest) (*trillian.GetLatestSignedLogRootResponse, error)
	entryProof  func(*trillian.GetEntryAndProofRequest) (*trillian.GetEntryAndProofResponse, error)
	leavesRange func(*trillian.GetLeavesByRangeRequest) (*trillian.GetLeavesByRangeResponse, error)
}

func (b *envBackend) QueueLeaf(_ context.Context, in *trillian.QueueLeafRequest, _ ...grpc.CallOption) (*trillian.QueueLeafResponse, error) {
	b.calls++
	return b.queueLeaf(in)
}
func (b *envBackend) GetInclusionProofByHash(_ context.Context, in *trillian.GetInclusionProofByHashRequest, _ ...grpc.CallOption) (*trillian.GetInclusionProofByHashResponse, error) {
	b.calls++
	return b.proofByHash(in)
}
func (b *envBackend) GetConsistencyProof(_ context.Context, in *trillian.GetConsistencyProofRequest, _ ...grpc.CallOption) (*trillian.GetConsistencyProofResponse, error) {
	b.calls++
	return b.consistency(in)
}
func (b *envBackend) GetLatestSignedLogRoot(_ context.Context, in *trillian.GetLatestSignedLogRootRequest, _ ...grpc.CallOption) (*trillian.GetLatestSignedLogRootResponse, error) {
	b.calls++
	return b.latestRoot(in)
}
func (b *envBackend) GetEntryAndProof(_ context.Context, in *trillian.GetEntryAndProofRequest, _ ...grpc.CallOption) (*trillian.GetEntryAndProofResponse, error) {
	b.calls++
	return b.entryProof(in)
}
func (b *envBackend) GetLeavesByRange(_ context.Context, in *trillian.GetLeavesByRangeRequest, _ ...grpc.CallOption) (*trillian.GetLeavesByRangeResponse, error) {
	b.calls++
	return b.leavesRange(in)
}

type envWriter struct {
	hdr    http.Header
	status int
	body   []byte
	writes int
}

func (w *envWriter) Header() http.Header {
	if w.hdr == nil {
		w.hdr = http.Header{}
	}
	return w.hdr
}
func (w *envWriter) Write(b []byte) (int, error) {
	w.writes++
	w.body = append(w.body, b...)
	return len(b), nil
}
func (w *envWriter) WriteHeader(s int) { w.status = s }

type envReqLog struct {
	issued   int
	statuses []int
}

func (l *envReqLog) Start(ctx context.Context) context.Context         { return ctx }
func (l *envReqLog) LogPrefix(context.Context, string)                 {}
func (l *envReqLog) AddDERToChain(context.Context, []byte)             {}
func (l *envReqLog) AddCertToChain(context.Context, *x509.Certificate) {}
func (l *envReqLog) FirstAndSecond(context.Context, int64, int64)      {}
func (l *envReqLog) StartAndEnd(context.Context, int64, int64)         {}
func (l *envReqLog) LeafIndex(context.Context, int64)                  {}
func (l *envReqLog) TreeSize(context.Context, int64)                   {}
func (l *envReqLog) LeafHash(context.Context, []byte)                  {}
func (l *envReqLog) IssueSCT(context.Context, []byte)                  { l.issued++ }
func (l *envReqLog) Status(_ context.Context, s int)                   { l.statuses = append(l.statuses, s) }

type envTime struct{ t time.Time }

func (e envTime) Now() time.Time { return e.t }

type envSigner struct {
	pub     crypto.PublicKey
	digests [][]byte
	sig     []byte
	fail    bool
}

func (s *envSigner) Public() crypto.PublicKey { return s.pub }
func (s *envSigner) Sign(_ io.Reader, digest []byte, _ crypto.SignerOpts) ([]byte, error) {
	s.digests = append(s.digests, digest)
	if s.fail {
		return nil, errors.New("signer failure")
	}
	return s.sig, nil
}

func envLogInfo(be *envBackend, rl *envReqLog) *logInfo {
	setupMetrics(monitoring.InertMetricFactory{})
	li := &logInfo{
		LogPrefix:  "test{1}",
		TimeSource: envTime{time.Unix(1600000000, 0)},
		RequestLog: rl,
		logID:      1,
		rpcClient:  be,
		instanceOpts: InstanceOptions{
			Deadline: time.Second,
		},
		validationOpts:       CertValidationOpts{trustedRoots: x509util.NewPEMCertPool()},
		issuanceChainService: &directIssuanceChainService{},
	}
	li.sthGetter = &LogSTHGetter{li: li}
	return li
}

func envGet(params map[string]string) *http.Request {
	f := url.Values{}
	for k, v := range params {
		f[k] = []string{v}
	}
	return &http.Request{Method: http.MethodGet, Form: f}
}

// Fault classes of a backend reply.
const (
	fOK = iota
	fErrStatus
	fErrPlain
	fRootMissing
	fRootGarbled
	fRootSmall
	fPartAbsent
	fHashSize
	fSurplus
	fMisindexed
	fLeafGarbled
	nFaults
)

// envBackendErr returns a backend error: a gRPC status with an arbitrary non-OK code, or a
// plain error.
func envBackendErr(plain bool) (error, codes.Code) {
	if plain {
		return errors.New("transport is closing"), codes.Unknown
	}
	c := codes.Code(vU32("grpc-code"))
	vAssume(c != codes.OK) // a gRPC client never returns a non-nil error with code OK
	return status.Error(c, "backend says no"), c
}

// envRoot serialises a log root with the given (possibly symbolic) size through the real
// encoder of the backend's types package.
func envRoot(size uint64, hashLen int) *trillian.SignedLogRoot {
	r := types.LogRootV1{TreeSize: size, RootHash: vBytes("root-hash", hashLen), TimestampNanos: vU64("root-ts")}
	b, err := r.MarshalBinary()
	vAssume(err == nil)
	return &trillian.SignedLogRoot{LogRoot: b}
}

// envCheckFaultStatus asserts the status class the property demands for a fault.
func envCheckFaultStatus(st int, fault int, code codes.Code) {
	vAssert(st != http.StatusOK, "a fault never surfaces as 200")
	vAssert(st >= 400 && st <= 599, "faults are answered with an error status")
	switch fault {
	case fErrStatus:
		switch code {
		case codes.ResourceExhausted:
			vAssert(st == http.StatusTooManyRequests, "quota exhaustion gives 429")
		case codes.Unavailable:
			vAssert(st == http.StatusServiceUnavailable, "unavailability gives 503")
		case codes.Canceled, codes.DeadlineExceeded:
			vAssert(st == http.StatusGatewayTimeout, "timeouts give 504")
		case codes.InvalidArgument, codes.OutOfRange, codes.NotFound:
			vAssert(st >= 400 && st < 500, "caller-caused backend errors give 4xx")
		case codes.Internal, codes.Unknown, codes.DataLoss:
			vAssert(st >= 500, "internal backend errors give 5xx")
		case codes.AlreadyExists, codes.PermissionDenied, codes.Unauthenticated, codes.FailedPrecondition, codes.Aborted, codes.Unimplemented:
			// mapped to a specific 4xx/501 by the front end; the property fixes no class
		default:
			vAssert(st >= 500, "unknown gRPC codes give 5xx")
		}
	case fErrPlain:
		vAssert(st >= 500, "non-status backend errors give 5xx")
	case fRootSmall:
		vAssert(st >= 400 && st < 500, "asking beyond the current tree gives 4xx")
	default:
		vAssert(st >= 500, "malformed backend replies give 5xx")
	}
}

func envRootOf(size uint64, hash []byte, ts uint64) *trillian.SignedLogRoot {
	r := types.LogRootV1{TreeSize: size, RootHash: hash, TimestampNanos: ts}
	b, err := r.MarshalBinary()
	vAssume(err == nil)
	return &trillian.SignedLogRoot{LogRoot: b}
}

func envMetricFactory() monitoring.MetricFactory { return monitoring.InertMetricFactory{} }
