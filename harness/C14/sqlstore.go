//go:build verif

//verif:package trillian/ctfe/storage/mysql

package mysql

import (
	"bytes"
	"context"
	"database/sql"
	"errors"

	"github.com/go-sql-driver/mysql"
)

// The SQL connection is cut at the calls the storage wrapper makes: the row or error the
// database returns is chosen by the harness, the statement and its arguments are recorded.
var (
	c14Query    string
	c14Args     []interface{}
	c14RowErr   error
	c14ScanErr  error
	c14RowValue []byte
	c14ExecErr  error
	c14Execs    int
)

//verif:stub (*database/sql.DB).QueryRowContext files=mysql.go method=QueryRowContext
func c14QueryRowContext(db *sql.DB, ctx context.Context, query string, args ...interface{}) *sql.Row {
	c14Query, c14Args = query, args
	return &sql.Row{}
}

//verif:stub (*database/sql.Row).Err files=mysql.go method=Err
func c14RowErrFn(r *sql.Row) error { return c14RowErr }

//verif:stub (*database/sql.Row).Scan files=mysql.go method=Scan
func c14Scan(r *sql.Row, dest ...interface{}) error {
	if c14ScanErr != nil {
		return c14ScanErr
	}
	*(dest[0].(*[]byte)) = c14RowValue
	return nil
}

//verif:stub (*database/sql.DB).ExecContext files=mysql.go method=ExecContext
func c14ExecContext(db *sql.DB, ctx context.Context, query string, args ...interface{}) (sql.Result, error) {
	c14Execs++
	c14Query, c14Args = query, args
	return nil, c14ExecErr
}

// Harness_C14_mysqlStore: the MySQL chain store: a lookup returns exactly the stored row for
// exactly the requested key, and any database error -- including "no rows" -- is an error, never
// an empty chain; an insert of an already stored key (duplicate-key error 1062) is success
// (hash-addressed de-duplication), every other database error fails the insert.
//
//verif:opt maxpaths=2000 reach=found,missing,stored,duplicate,failed
func Harness_C14_mysqlStore() {
	s := &IssuanceChainStorage{db: &sql.DB{}}
	key := vBytes("key", 2)
	if vChoice("operation", 2) == 0 {
		c14RowValue = vBytes("row", 1+vChoice("row-len", 2))
		c14RowErr, c14ScanErr = nil, nil
		switch vChoice("database-answer", 4) {
		case 1:
			c14RowErr = errors.New("connection lost")
		case 2:
			c14ScanErr = sql.ErrNoRows
		case 3:
			c14ScanErr = errors.New("bad column")
		}
		chain, err := s.FindByKey(context.Background(), key)
		vAssert(len(c14Args) == 1 && bytes.Equal(c14Args[0].([]byte), key), "the lookup is for exactly the requested key")
		if c14RowErr != nil || c14ScanErr != nil {
			vAssert(err != nil && chain == nil, "a database error or a missing row is an error, never an empty chain")
			vReach("missing")
			return
		}
		vAssert(err == nil && bytes.Equal(chain, c14RowValue), "the stored row is returned unchanged")
		vReach("found")
		return
	}
	chain := vBytes("chain", 2)
	c14Execs = 0
	code := vU16("mysql-error-number")
	kind := vChoice("insert-answer", 3)
	c14ExecErr = nil
	switch kind {
	case 1:
		c14ExecErr = &mysql.MySQLError{Number: code, Message: "x"}
	case 2:
		c14ExecErr = errors.New("connection lost")
	}
	err := s.Add(context.Background(), key, chain)
	vAssert(c14Execs == 1 && len(c14Args) == 2 && bytes.Equal(c14Args[0].([]byte), key) && bytes.Equal(c14Args[1].([]byte), chain), "one insert of exactly (key, chain)")
	switch {
	case kind == 0:
		vAssert(err == nil, "stored")
		vReach("stored")
	case kind == 1 && code == 1062:
		vAssert(err == nil, "an already stored key is success (de-duplication)")
		vReach("duplicate")
	default:
		vAssert(err != nil, "any other database error fails the insert")
		vReach("failed")
	}
}
