//go:build verif

//verif:package trillian/ctfe

package ctfe

import (
	"bytes"
	"context"
	"errors"
	"net/http"

	ct "github.com/google/certificate-transparency-go"
	"github.com/google/certificate-transparency-go/tls"
	"github.com/google/certificate-transparency-go/x509"
	"github.com/google/trillian"
)

// S1 stand-ins for the external chain store and its cache.
type c14Store struct {
	keys, vals [][]byte
	adds       int
	finds      int
	failAdd    bool
	failFind   bool
	corrupt    func(chain []byte) []byte
}

func (s *c14Store) Add(_ context.Context, key, chain []byte) error {
	s.adds++
	if s.failAdd {
		return errors.New("storage down")
	}
	s.keys, s.vals = append(s.keys, key), append(s.vals, chain)
	return nil
}

func (s *c14Store) FindByKey(_ context.Context, key []byte) ([]byte, error) {
	s.finds++
	if s.failFind {
		return nil, errors.New("storage down")
	}
	for i := range s.keys {
		if bytes.Equal(s.keys[i], key) {
			if s.corrupt != nil {
				return s.corrupt(s.vals[i]), nil
			}
			return s.vals[i], nil
		}
	}
	return nil, errors.New("sql: no rows in result set")
}

// c14Cache remembers what was set; whether a lookup hits is arbitrary (eviction, expiry, the
// detached cache fill having run or not), but a hit returns what was set for that key.
type c14Cache struct {
	keys, vals [][]byte
	failGet    bool
}

func (c *c14Cache) Set(_ context.Context, key, chain []byte) error {
	c.keys, c.vals = append(c.keys, key), append(c.vals, chain)
	return nil
}

func (c *c14Cache) Get(_ context.Context, key []byte) ([]byte, error) {
	if c.failGet {
		return nil, errors.New("cache broken")
	}
	for i := range c.keys {
		if bytes.Equal(c.keys[i], key) && vChoice("cache-hit", 2) == 1 {
			return c.vals[i], nil
		}
	}
	return nil, nil
}

func c14Chain() ([]*x509.Certificate, [][]byte) {
	n := 1 + vChoice("chain-len", 3) // leaf only .. leaf + 2
	var chain []*x509.Certificate
	var ders [][]byte
	for i := 0; i < n; i++ {
		d := vBytes("der", 1+vChoice("der-len", 2))
		chain = append(chain, &x509.Certificate{Raw: d})
		ders = append(ders, d)
	}
	return chain, ders
}

// Harness_C14_equivalence: what a reader is served in external-storage mode is byte-identical
// to what the default mode stores, for every chain shape, both entry types and every cache
// behaviour.
//
//verif:opt maxpaths=6000 reach=x509,precert
func Harness_C14_equivalence() {
	chain, ders := c14Chain()
	precert := vChoice("precert", 2) == 1
	ml := ct.CreateX509MerkleTreeLeaf(ct.ASN1Cert{Data: ders[0]}, vU64("ts"))
	direct, err := (&directIssuanceChainService{}).BuildLogLeaf(context.Background(), chain, "t", ml, precert)
	vAssert(err == nil, "direct mode builds the leaf")
	st, ca := &c14Store{}, &c14Cache{}
	ind := newIndirectIssuanceChainService(st, ca)
	leaf, err := ind.BuildLogLeaf(context.Background(), chain, "t", ml, precert)
	vAssert(err == nil && st.adds == 1, "external mode stores the chain once")
	vAssert(bytes.Equal(leaf.LeafValue, direct.LeafValue) && bytes.Equal(leaf.LeafIdentityHash, direct.LeafIdentityHash), "leaf value and identity hash do not depend on the storage mode")
	// a second submission of the same chain is de-duplicated by hash (same key)
	leaf2, err := ind.BuildLogLeaf(context.Background(), chain, "t", ml, precert)
	vAssert(err == nil && bytes.Equal(leaf2.ExtraData, leaf.ExtraData), "the same chain gives the same stored reference")
	for i := 1; i < len(st.keys); i++ {
		vAssert(bytes.Equal(st.keys[i], st.keys[0]) && bytes.Equal(st.vals[i], st.vals[0]), "hash-addressed: same chain, same key and bytes")
	}
	// reader side
	served := &trillian.LogLeaf{LeafValue: leaf.LeafValue, ExtraData: leaf.ExtraData}
	err = ind.FixLogLeaf(context.Background(), served)
	vAssert(err == nil, "the stored reference is re-inflated")
	vAssert(bytes.Equal(served.ExtraData, direct.ExtraData), "served extra_data is byte-identical to the default mode's")
	if precert {
		vAssert(bytes.Equal(direct.ExtraData, rfcPrecertChainEntry(ders[0], ders[1:])), "and is the RFC PrecertChainEntry")
		vReach("precert")
	} else {
		vAssert(bytes.Equal(direct.ExtraData, rfcCertChain(ders[1:])), "and is the RFC certificate chain")
		vReach("x509")
	}
	// the stored reference is resolvable from the store alone (another instance, a restart, an
	// evicted or expired cache entry)
	cold := newIndirectIssuanceChainService(st, &c14Cache{})
	servedCold := &trillian.LogLeaf{LeafValue: leaf.LeafValue, ExtraData: append([]byte{}, leaf.ExtraData...)}
	vAssert(cold.FixLogLeaf(context.Background(), servedCold) == nil && bytes.Equal(servedCold.ExtraData, direct.ExtraData), "a reader with a cold cache is served the same bytes")
	// entries stored with their full chain continue to be served unchanged
	old := &trillian.LogLeaf{LeafValue: direct.LeafValue, ExtraData: append([]byte{}, direct.ExtraData...)}
	finds := st.finds
	err = ind.FixLogLeaf(context.Background(), old)
	vAssert(err == nil && bytes.Equal(old.ExtraData, direct.ExtraData) && st.finds == finds, "full-chain entries are left untouched, without a storage lookup")
}

// Harness_C14_faults: storage or cache failure, unknown hash, corrupted stored chain: an error,
// and the entry's extra data is not altered.
//
//verif:opt maxpaths=6000 reach=fault
func Harness_C14_faults() {
	chain, _ := c14Chain()
	vAssume(len(chain) >= 2) // a leaf-only path stores an empty chain; see equivalence harness
	precert := vChoice("precert", 2) == 1
	ml := ct.CreateX509MerkleTreeLeaf(ct.ASN1Cert{Data: chain[0].Raw}, 7)
	st, ca := &c14Store{}, &c14Cache{}
	ind := newIndirectIssuanceChainService(st, ca)
	leaf, err := ind.BuildLogLeaf(context.Background(), chain, "t", ml, precert)
	vAssume(err == nil)
	before := append([]byte{}, leaf.ExtraData...)
	switch vChoice("fault", 6) {
	case 0:
		st.failFind = true
		ca.keys, ca.vals = nil, nil
	case 1:
		ca.failGet = true
	case 2:
		st.keys, st.vals, ca.keys, ca.vals = nil, nil, nil, nil // unknown hash
	case 3:
		ca.keys, ca.vals = nil, nil
		st.corrupt = func(c []byte) []byte { return c[:len(c)-1] } // truncated row
	case 4:
		ca.keys, ca.vals = nil, nil
		st.corrupt = func(c []byte) []byte { return append(append([]byte{}, c...), 0) } // trailing garbage
	case 5:
		ca.keys, ca.vals = nil, nil
		// a stored row that was altered but still parses as a chain (bit rot, wrong row)
		st.corrupt = func(c []byte) []byte {
			d := append([]byte{}, c...)
			d[len(d)-1] ^= 1
			return d
		}
	}
	served := &trillian.LogLeaf{LeafValue: leaf.LeafValue, ExtraData: leaf.ExtraData}
	err = ind.FixLogLeaf(context.Background(), served)
	vAssert(err != nil, "storage / cache failure, unknown hash or corrupted stored chain is an error")
	vAssert(bytes.Equal(served.ExtraData, before), "and never altered, truncated or empty chain data")
	// a later read of the same entry (the cache may have been filled meanwhile) is still not
	// served altered data
	vYield() // let the detached cache fill finish
	again := &trillian.LogLeaf{LeafValue: leaf.LeafValue, ExtraData: append([]byte{}, before...)}
	err2 := ind.FixLogLeaf(context.Background(), again)
	direct, derr := (&directIssuanceChainService{}).BuildLogLeaf(context.Background(), chain, "t", ml, precert)
	vAssume(derr == nil)
	vAssert(err2 != nil || bytes.Equal(again.ExtraData, direct.ExtraData), "a repeated read never serves anything but an error or the original chain")
	vReach("fault")
}

// Harness_C14_handlers: the read handlers map a re-inflation failure to 5xx and survive a
// backend reply without a leaf in external-storage mode.
//
//verif:opt maxpaths=2000 reach=failed
func Harness_C14_handlers() {
	be, rl := &envBackend{}, &envReqLog{}
	li := envLogInfo(be, rl)
	st, ca := &c14Store{}, &c14Cache{}
	li.issuanceChainService = newIndirectIssuanceChainService(st, ca)
	noLeaf := vChoice("reply-without-leaf", 2) == 1
	be.entryProof = func(in *trillian.GetEntryAndProofRequest) (*trillian.GetEntryAndProofResponse, error) {
		rsp := &trillian.GetEntryAndProofResponse{SignedLogRoot: envRoot(9, 32), Proof: &trillian.Proof{Hashes: [][]byte{vBytes("h", 32)}}}
		if !noLeaf {
			// a reference to a chain the store does not hold
			rsp.Leaf = &trillian.LogLeaf{LeafValue: []byte{1}, ExtraData: []byte{0, 2, 0xaa, 0xbb}}
		}
		return rsp, nil
	}
	w := &envWriter{}
	code, err := getEntryAndProof(context.Background(), li, w, envGet(map[string]string{getEntryAndProofParamLeafIndex: "1", getEntryAndProofParamTreeSize: "5"}))
	vAssert(err != nil && code >= 500 && code != http.StatusOK && w.writes == 0, "unknown hash or missing leaf: 5xx, nothing served")
	vReach("failed")
}

// Harness_C14_layouts: every extra_data of up to 9 bytes that is a complete default-mode layout
// (CertificateChain or PrecertChainEntry) is recognised as such: served untouched, with no
// storage or cache access, never mistaken for one of the hash-carrying layouts.
//
//verif:opt maxpaths=30000 reach=direct-layout wall=600
func Harness_C14_layouts() {
	n := 3 + vChoice("len", 7)
	ed := vBytes("extra", n)
	var cc ct.CertificateChain
	rest, err := tls.Unmarshal(ed, &cc)
	isChain := err == nil && len(rest) == 0
	var pc ct.PrecertChainEntry
	rest, err = tls.Unmarshal(ed, &pc)
	isPre := err == nil && len(rest) == 0
	if !isChain && !isPre {
		return
	}
	vReach("direct-layout")
	st, ca := &c14Store{}, &c14Cache{}
	ind := newIndirectIssuanceChainService(st, ca)
	leaf := &trillian.LogLeaf{ExtraData: append([]byte{}, ed...)}
	ferr := ind.FixLogLeaf(context.Background(), leaf)
	vAssert(ferr == nil, "a default-mode entry is served")
	vAssert(bytes.Equal(leaf.ExtraData, ed), "unchanged")
	vAssert(st.finds == 0 && st.adds == 0, "without consulting the chain store")
}

// Harness_C14_writeFault: a failed store write never leaves a submission whose chain reference
// cannot be resolved: either the submission fails, or the chain is in the store.
//
//verif:opt maxpaths=6000 reach=retried
func Harness_C14_writeFault() {
	chain, _ := c14Chain()
	vAssume(len(chain) >= 2)
	precert := vChoice("precert", 2) == 1
	ml := ct.CreateX509MerkleTreeLeaf(ct.ASN1Cert{Data: chain[0].Raw}, 7)
	st, ca := &c14Store{failAdd: true}, &c14Cache{}
	ind := newIndirectIssuanceChainService(st, ca)
	_, err := ind.BuildLogLeaf(context.Background(), chain, "t", ml, precert)
	vAssert(err != nil, "a failed store write fails the submission")
	vYield() // let any detached cache fill finish
	// the store recovers; the same chain is submitted again (a retry, or another certificate of the same issuer)
	st.failAdd = false
	leaf, err := ind.BuildLogLeaf(context.Background(), chain, "t", ml, precert)
	if err != nil {
		return
	}
	vReach("retried")
	direct, derr := (&directIssuanceChainService{}).BuildLogLeaf(context.Background(), chain, "t", ml, precert)
	vAssume(derr == nil)
	cold := newIndirectIssuanceChainService(st, &c14Cache{})
	served := &trillian.LogLeaf{LeafValue: leaf.LeafValue, ExtraData: append([]byte{}, leaf.ExtraData...)}
	vAssert(cold.FixLogLeaf(context.Background(), served) == nil && bytes.Equal(served.ExtraData, direct.ExtraData), "an accepted submission is readable from the store alone")
}
