//go:build verif

//verif:package trillian/ctfe

package ctfe

import (
	"bytes"
	"context"
	"errors"
	"sync"
	"time"

	ct "github.com/google/certificate-transparency-go"
	"github.com/google/certificate-transparency-go/trillian/ctfe/cache/lru"
	"github.com/google/certificate-transparency-go/x509"
	"github.com/google/trillian"
)

// c14LockedStore is a hash-addressed chain store that is safe for concurrent use (as a SQL
// back end is).
type c14LockedStore struct {
	mu sync.Mutex
	m  map[string][]byte
}

func (s *c14LockedStore) Add(_ context.Context, key, chain []byte) error {
	vSched("store add")
	s.mu.Lock()
	defer s.mu.Unlock()
	if _, ok := s.m[string(key)]; !ok {
		s.m[string(key)] = chain
	}
	return nil
}

func (s *c14LockedStore) FindByKey(_ context.Context, key []byte) ([]byte, error) {
	vSched("store find")
	s.mu.Lock()
	defer s.mu.Unlock()
	if c, ok := s.m[string(key)]; ok {
		return c, nil
	}
	return nil, errors.New("sql: no rows in result set")
}

// Harness_C14_concurrent: the real LRU cache (capacity 1, so the second chain evicts the first; the
// expiry sweeper enabled) under a writer that submits two chains and two readers that re-inflate
// stored references concurrently (every interleaving within the delay bound, including the
// detached cache fills; race detector on): a reader is served either an error (the chain is not
// stored yet) or extra_data byte-identical to the default mode's -- never altered, truncated or
// another chain's data; after the writer finished every read succeeds.
//
//verif:opt sched=1 race=1 preempt=1 thorough.preempt=2 maxpaths=400000 thorough.maxpaths=4000000 decisions=8000 steps=40000000 reach=served,notyet
func Harness_C14_concurrent() {
	ctx := context.Background()
	mk := func(ders ...[]byte) []*x509.Certificate {
		var out []*x509.Certificate
		for _, d := range ders {
			out = append(out, &x509.Certificate{Raw: d})
		}
		return out
	}
	chains := [][]*x509.Certificate{mk([]byte{0x11}, []byte{0xa1}), mk([]byte{0x12}, []byte{0xa2}, []byte{0xa3})}
	if vChoice("chains-of-equal-length", 2) == 1 {
		// (a buffer that held the first chain fits the second one exactly)
		chains[1] = mk([]byte{0x12}, []byte{0xa2})
	}
	precert := vChoice("precert", 2) == 1
	var direct, ref [2]*trillian.LogLeaf
	for i, ch := range chains {
		ml := ct.CreateX509MerkleTreeLeaf(ct.ASN1Cert{Data: ch[0].Raw}, 7)
		d, err := (&directIssuanceChainService{}).BuildLogLeaf(ctx, ch, "t", ml, precert)
		vAssert(err == nil, "direct mode builds the leaf")
		direct[i] = d
		// the stored reference, computed against a throw-away store
		tmp := newIndirectIssuanceChainService(&c14LockedStore{m: map[string][]byte{}}, lru.NewIssuanceChainCache(lru.CacheOption{Size: 1, TTL: time.Hour}))
		r, err := tmp.BuildLogLeaf(ctx, ch, "t", ml, precert)
		vAssert(err == nil, "external mode builds the leaf")
		ref[i] = r
	}
	store := &c14LockedStore{m: map[string][]byte{}}
	svc := newIndirectIssuanceChainService(store, lru.NewIssuanceChainCache(lru.CacheOption{Size: 1, TTL: time.Hour}))
	var wg sync.WaitGroup
	var werr [2]error
	var rerr [2]error
	var got [2][]byte
	wg.Add(3)
	go func() {
		defer wg.Done()
		for i, ch := range chains {
			ml := ct.CreateX509MerkleTreeLeaf(ct.ASN1Cert{Data: ch[0].Raw}, 7)
			_, werr[i] = svc.BuildLogLeaf(ctx, ch, "t", ml, precert)
		}
	}()
	for i := 0; i < 2; i++ {
		i := i
		go func() {
			defer wg.Done()
			leaf := &trillian.LogLeaf{LeafValue: ref[i].LeafValue, ExtraData: append([]byte{}, ref[i].ExtraData...)}
			rerr[i] = svc.FixLogLeaf(ctx, leaf)
			got[i] = leaf.ExtraData
		}()
	}
	wg.Wait()
	vAssert(werr[0] == nil && werr[1] == nil, "submissions succeed")
	for i := 0; i < 2; i++ {
		if rerr[i] != nil {
			vAssert(bytes.Equal(got[i], ref[i].ExtraData), "a failed read leaves the entry's bytes alone")
			vReach("notyet")
			continue
		}
		vAssert(bytes.Equal(got[i], direct[i].ExtraData), "a concurrent reader is served extra_data byte-identical to the default mode's")
		vReach("served")
	}
	for i := 0; i < 2; i++ {
		leaf := &trillian.LogLeaf{LeafValue: ref[i].LeafValue, ExtraData: append([]byte{}, ref[i].ExtraData...)}
		vAssert(svc.FixLogLeaf(ctx, leaf) == nil && bytes.Equal(leaf.ExtraData, direct[i].ExtraData), "once stored, every read is served the default mode's bytes (whatever was evicted)")
	}
}

// c14FlakyStore fails its first insert (after the scheduling point, i.e. possibly while another
// submission of the same chain is under way) and works afterwards.
type c14FlakyStore struct {
	c14LockedStore
	adds int
}

func (s *c14FlakyStore) Add(ctx context.Context, key, chain []byte) error {
	s.mu.Lock()
	s.adds++
	first := s.adds == 1
	s.mu.Unlock()
	vSched("store add")
	if first {
		vSched("store add fails")
		return errors.New("storage down")
	}
	s.mu.Lock()
	defer s.mu.Unlock()
	if _, ok := s.m[string(key)]; !ok {
		s.m[string(key)] = chain
	}
	return nil
}

// Harness_C14_concurrentWriters: two submissions with the same issuance chain run concurrently
// and the store's first insert fails: on every interleaving within the delay bound an accepted
// submission is resolvable from the store alone (whatever the cache holds), with the default
// mode's bytes; the other one is either accepted likewise or refused.
//
//verif:opt sched=1 race=1 preempt=2 thorough.preempt=3 maxpaths=400000 decisions=8000 steps=40000000 reach=accepted,refused
func Harness_C14_concurrentWriters() {
	ctx := context.Background()
	issuer := []byte{0xa1}
	leaves := [2][]byte{{0x11}, {0x12}}
	precert := vChoice("precert", 2) == 1
	store := &c14FlakyStore{}
	store.m = map[string][]byte{}
	svc := newIndirectIssuanceChainService(store, lru.NewIssuanceChainCache(lru.CacheOption{Size: 4, TTL: time.Hour}))
	var wg sync.WaitGroup
	var got [2]*trillian.LogLeaf
	var errs [2]error
	for i := 0; i < 2; i++ {
		i := i
		wg.Add(1)
		go func() {
			defer wg.Done()
			ch := []*x509.Certificate{{Raw: leaves[i]}, {Raw: issuer}}
			ml := ct.CreateX509MerkleTreeLeaf(ct.ASN1Cert{Data: leaves[i]}, 7)
			got[i], errs[i] = svc.BuildLogLeaf(ctx, ch, "t", ml, precert)
		}()
	}
	wg.Wait()
	vYield() // detached cache fills
	vAssert(errs[0] != nil || errs[1] != nil, "the submission whose store write failed is refused")
	for i := 0; i < 2; i++ {
		if errs[i] != nil {
			vReach("refused")
			continue
		}
		vReach("accepted")
		ch := []*x509.Certificate{{Raw: leaves[i]}, {Raw: issuer}}
		ml := ct.CreateX509MerkleTreeLeaf(ct.ASN1Cert{Data: leaves[i]}, 7)
		direct, derr := (&directIssuanceChainService{}).BuildLogLeaf(ctx, ch, "t", ml, precert)
		vAssert(derr == nil, "direct mode builds the leaf")
		// a reader on another instance (cold cache) resolves the stored reference
		cold := newIndirectIssuanceChainService(store, lru.NewIssuanceChainCache(lru.CacheOption{Size: 4, TTL: time.Hour}))
		leaf := &trillian.LogLeaf{LeafValue: got[i].LeafValue, ExtraData: append([]byte{}, got[i].ExtraData...)}
		vAssert(cold.FixLogLeaf(ctx, leaf) == nil && bytes.Equal(leaf.ExtraData, direct.ExtraData), "an accepted submission is readable from the store alone, with the default mode's bytes")
	}
}

// Harness_C14_lruKeys: the real LRU cache distinguishes keys of every length: after a chain was
// cached under its 32-byte hash H, a lookup for H followed by another byte, for H cut short, or
// for a key that differs from H in its last byte misses (so that an unknown hash in a stored
// reference goes to the store and yields an error, never another chain's data).
//
//verif:opt maxpaths=400 reach=checked
func Harness_C14_lruKeys() {
	ctx := context.Background()
	c := lru.NewIssuanceChainCache(lru.CacheOption{Size: 4, TTL: 0})
	h := vBytes("hash", 32)
	last := vU8("last-byte-variant")
	chain := []byte{0x30, 0x03, 0x04, 0x01, 0xa1}
	vAssert(c.Set(ctx, h, chain) == nil, "cached")
	got, err := c.Get(ctx, h)
	vAssert(err == nil && bytes.Equal(got, chain), "a hit returns what was set for that key")
	for _, k := range [][]byte{append(append([]byte{}, h...), vU8("extra")), h[:31], h[:0], append(append([]byte{}, h[:31]...), last)} {
		if len(k) == 32 && k[31] == h[31] {
			continue
		}
		got, err = c.Get(ctx, k)
		vAssert(err == nil && got == nil, "a different key misses, whatever its length")
	}
	// through the service: a stored reference whose hash is H plus a byte is an unknown hash
	store := &c14LockedStore{m: map[string][]byte{}}
	svc := newIndirectIssuanceChainService(store, c)
	bad := &trillian.LogLeaf{ExtraData: rfcCertificateChainHash(append(append([]byte{}, h...), 7))}
	before := append([]byte{}, bad.ExtraData...)
	vAssert(svc.FixLogLeaf(ctx, bad) != nil && bytes.Equal(bad.ExtraData, before), "an unknown hash is an error and leaves the entry alone")
	vReach("checked")
}

// Harness_C14_lruHeld: what a reader got from the cache stays that chain: the slice a lookup
// returned (a reader is about to decode it) still holds the chain's bytes after any two further
// chains were cached, evicting it (capacity 1 or 2), and after its own key was overwritten; a
// caller's chain slice is likewise untouched by caching it, and changing it afterwards does not
// change what the cache serves only if the cache documents a copy -- the cache may share it, so
// that direction is not asserted.
//
//verif:opt maxpaths=400 reach=held
func Harness_C14_lruHeld() {
	ctx := context.Background()
	c := lru.NewIssuanceChainCache(lru.CacheOption{Size: 1 + vChoice("capacity", 2), TTL: 0})
	a := []byte{0x30, 0x03, 0x04, 0x01, vU8("a")}
	aCopy := append([]byte{}, a...)
	vAssert(c.Set(ctx, []byte("key-a"), a) == nil, "cached")
	held, err := c.Get(ctx, []byte("key-a"))
	vAssert(err == nil && bytes.Equal(held, aCopy), "a hit returns the chain")
	for i := 0; i < 3; i++ {
		// later chains are shorter than, as long as, or longer than the first one
		n := 4 + vChoice("later-chain-len", 3)
		later := make([]byte, n)
		for j := range later {
			later[j] = 0xc0 + byte(i)
		}
		key := [][]byte{[]byte("key-b"), []byte("key-c"), []byte("key-a")}[i]
		vAssert(c.Set(ctx, key, later) == nil, "cached")
		vAssert(bytes.Equal(held, aCopy), "the bytes a reader was handed are still the first chain's, whatever was cached or evicted since")
		vAssert(bytes.Equal(a, aCopy), "the caller's own slice is untouched")
	}
	vReach("held")
}

// struct { opaque issuance_chain_hash<0..256>; } CertificateChainHash (2-byte length prefix)
func rfcCertificateChainHash(hash []byte) []byte {
	return append([]byte{byte(len(hash) >> 8), byte(len(hash))}, hash...)
}
