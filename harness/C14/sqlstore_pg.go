//go:build verif

//verif:package trillian/ctfe/storage/postgresql

package postgresql

import (
	"bytes"
	"context"
	"database/sql"
	"errors"
	"strings"

)

// The SQL connection is cut at the calls the storage wrapper makes: the row or error the
// database returns is chosen by the harness, the statement and its arguments are recorded.
var (
	c14pQuery    string
	c14pArgs     []interface{}
	c14pRowErr   error
	c14pScanErr  error
	c14pRowValue []byte
	c14pExecErr  error
	c14pExecs    int
)

//verif:stub (*database/sql.DB).QueryRowContext files=postgresql.go method=QueryRowContext
func c14pQueryRowContext(db *sql.DB, ctx context.Context, query string, args ...interface{}) *sql.Row {
	c14pQuery, c14pArgs = query, args
	return &sql.Row{}
}

//verif:stub (*database/sql.Row).Err files=postgresql.go method=Err
func c14pRowErrFn(r *sql.Row) error { return c14pRowErr }

//verif:stub (*database/sql.Row).Scan files=postgresql.go method=Scan
func c14pScan(r *sql.Row, dest ...interface{}) error {
	if c14pScanErr != nil {
		return c14pScanErr
	}
	*(dest[0].(*[]byte)) = c14pRowValue
	return nil
}

//verif:stub (*database/sql.DB).ExecContext files=postgresql.go method=ExecContext
func c14pExecContext(db *sql.DB, ctx context.Context, query string, args ...interface{}) (sql.Result, error) {
	c14pExecs++
	c14pQuery, c14pArgs = query, args
	return nil, c14pExecErr
}

// Harness_C14_postgresStore: the PostgreSQL chain store: a lookup returns exactly the stored row for
// exactly the requested key, and any database error -- including "no rows" -- is an error, never
// an empty chain; the insert carries ON CONFLICT DO NOTHING (hash-addressed de-duplication) and any database
// error fails it.
//
//verif:opt maxpaths=2000 reach=found,missing,stored,failed
func Harness_C14_postgresStore() {
	s := &IssuanceChainStorage{db: &sql.DB{}}
	key := vBytes("key", 2)
	if vChoice("operation", 2) == 0 {
		c14pRowValue = vBytes("row", 1+vChoice("row-len", 2))
		c14pRowErr, c14pScanErr = nil, nil
		switch vChoice("database-answer", 4) {
		case 1:
			c14pRowErr = errors.New("connection lost")
		case 2:
			c14pScanErr = sql.ErrNoRows
		case 3:
			c14pScanErr = errors.New("bad column")
		}
		chain, err := s.FindByKey(context.Background(), key)
		vAssert(len(c14pArgs) == 1 && bytes.Equal(c14pArgs[0].([]byte), key), "the lookup is for exactly the requested key")
		if c14pRowErr != nil || c14pScanErr != nil {
			vAssert(err != nil && chain == nil, "a database error or a missing row is an error, never an empty chain")
			vReach("missing")
			return
		}
		vAssert(err == nil && bytes.Equal(chain, c14pRowValue), "the stored row is returned unchanged")
		vReach("found")
		return
	}
	chain := vBytes("chain", 2)
	c14pExecs = 0
	c14pExecErr = nil
	failed := vChoice("insert-fails", 2) == 1
	if failed {
		c14pExecErr = errors.New("connection lost")
	}
	err := s.Add(context.Background(), key, chain)
	vAssert(c14pExecs == 1 && len(c14pArgs) == 2 && bytes.Equal(c14pArgs[0].([]byte), key) && bytes.Equal(c14pArgs[1].([]byte), chain), "one insert of exactly (key, chain)")
	vAssert(strings.Contains(c14pQuery, "ON CONFLICT DO NOTHING"), "an already stored key is not an error (de-duplication is delegated to the statement)")
	if failed {
		vAssert(err != nil, "a database error fails the insert")
		vReach("failed")
	} else {
		vAssert(err == nil, "stored")
		vReach("stored")
	}
}
