//go:build verif

//verif:package internal/witness/cmd/witness/internal/witness

package witness

import (
	"sync"
	"bytes"
	"context"
	"crypto"
	"database/sql"
	"errors"

	ct "github.com/google/certificate-transparency-go"
	"github.com/google/certificate-transparency-go/internal/witness/api"
	"github.com/google/certificate-transparency-go/tls"
	"github.com/transparency-dev/merkle"
	"google.golang.org/grpc/codes"
	"google.golang.org/grpc/status"
)

// The sths table is a ghost single row; the log's signature check, the Merkle consistency
// verifier and the witness's signing primitive are cut (arguments recorded, verdicts chosen).
var (
	c19Row        []byte // nil: no row for the log
	c19Writes     [][]byte
	c19DBFails    bool
	c19SigOK      []bool // verdict of the log-signature check, per call (candidate first, then stored)
	c19SigCalls   int
	c19SigSeen    []ct.SignedTreeHead
	c19SigKeys    []crypto.PublicKey
	c19ConsOK     bool
	c19ConsCalls  int
	c19Cons       struct {
		s1, s2 uint64
		pf     [][]byte
		r1, r2 []byte
	}
	c19Conc      bool // concurrent harness: the stand-ins below are re-entrant and script a two-branch log
	c19DBMu      sync.Mutex
	c19TxMu      sync.Mutex
	c19OpenTx    *sql.Tx
	c19History   [][]byte
	c19Tx        *sql.Tx // the transaction opened by the update under test
	c19ReadInTx  bool
	c19WriteInTx bool
	c19SignKey  crypto.PrivateKey
	c19SignData []byte
	c19SignHash tls.HashAlgorithm
	c19Signs    int
)

//verif:stub (*github.com/google/certificate-transparency-go/internal/witness/cmd/witness/internal/witness.Witness).getLatestSTH files=witness.go method=getLatestSTH
func c19GetLatest(w *Witness, _ func(string, ...interface{}) *sql.Row, logID string) ([]byte, error) {
	if c19Conc {
		vSched("db read")
		if c19Row == nil {
			return nil, status.Errorf(codes.NotFound, "no STH for log %q", logID)
		}
		return c19Row, nil
	}
	c19ReadInTx = c19Tx != nil
	if c19DBFails {
		return nil, errors.New("database is locked")
	}
	if c19Row == nil {
		return nil, status.Errorf(codes.NotFound, "no STH for log %q", logID)
	}
	return c19Row, nil
}

//verif:stub (*github.com/google/certificate-transparency-go/internal/witness/cmd/witness/internal/witness.Witness).setSTH files=witness.go method=setSTH
func c19SetSTH(w *Witness, tx any, logID string, sth []byte) error {
	if c19Conc {
		vSched("db write")
		c19Row = sth
		c19History = append(c19History, sth)
		if t, ok := tx.(*sql.Tx); ok && t != nil && c19CloseTx(t) {
			c19DBMu.Unlock() // commit
		}
		return nil
	}
	t, isTx := tx.(*sql.Tx)
	c19WriteInTx = isTx && t != nil && t == c19Tx
	if c19WriteFails {
		c19WriteFailed = true
		return errors.New("database or disk is full")
	}
	c19Writes = append(c19Writes, sth)
	c19Row = sth
	return nil
}

var c19WriteFails, c19WriteFailed bool

// The two database calls of setSTH itself are cut for Harness_C19_setSTH.
var (
	c19ExecErr, c19CommitErr   error
	c19ExecCalls, c19CommitCalls int
)

//verif:stub (*database/sql.Tx).Exec files=witness.go method=Exec
func c19Exec(tx any, query string, args ...any) (sql.Result, error) { // (any: the native redirection is by method name and also meets (*sql.DB).Exec)
	c19ExecCalls++
	return nil, c19ExecErr
}

//verif:stub (*database/sql.Tx).Commit files=witness.go method=Commit
func c19Commit(tx *sql.Tx) error {
	c19CommitCalls++
	return c19CommitErr
}

// Harness_C19_setSTH: the write of a new STH reports failure exactly when the INSERT or the
// COMMIT failed (an update whose transaction did not commit must not be answered as stored).
//
//verif:opt maxpaths=200
func Harness_C19_setSTH() {
	w := &Witness{db: &sql.DB{}}
	c19ExecErr, c19CommitErr, c19ExecCalls, c19CommitCalls = nil, nil, 0, 0
	if vChoice("insert-fails", 2) == 1 {
		c19ExecErr = errors.New("database is locked")
	}
	if vChoice("commit-fails", 2) == 1 {
		c19CommitErr = errors.New("context canceled")
	}
	// (called through a method value and a type switch, so that a change of this unexported method's
	// signature does not stop the other harnesses of the package from compiling; write failures are
	// then covered through Update alone)
	var method any = (*Witness).setSTH
	fn, ok := method.(func(*Witness, *sql.Tx, string, []byte) error)
	if !ok {
		vAssert(true, "setSTH has another signature: not exercised directly")
		return
	}
	err := fn(w, &sql.Tx{}, c19LogID, []byte("{}"))
	vAssert(c19ExecCalls == 1, "one INSERT")
	if c19ExecErr != nil {
		vAssert(err != nil && c19CommitCalls == 0, "a failed INSERT is an error and nothing is committed")
		vReach("failed")
		return
	}
	vAssert(c19CommitCalls == 1, "committed once")
	vAssert((err != nil) == (c19CommitErr != nil), "the write fails exactly when the commit fails")
	if err != nil {
		vReach("failed")
	} else {
		vReach("stored")
	}
}

//verif:stub (*database/sql.DB).BeginTx files=witness.go method=BeginTx
func c19BeginTx(db *sql.DB, ctx context.Context, opts *sql.TxOptions) (*sql.Tx, error) {
	if c19Conc {
		// serialisable isolation, as the database provides it: one open transaction at a time
		c19DBMu.Lock()
		t := &sql.Tx{}
		c19TxMu.Lock()
		c19OpenTx = t
		c19TxMu.Unlock()
		return t, nil
	}
	c19Tx = &sql.Tx{}
	return c19Tx, nil
}

// c19CloseTx reports whether tx is the open transaction, and closes it.
func c19CloseTx(tx *sql.Tx) bool {
	c19TxMu.Lock()
	defer c19TxMu.Unlock()
	if tx == c19OpenTx {
		c19OpenTx = nil
		return true
	}
	return false
}

//verif:stub (*database/sql.Tx).Rollback files=witness.go method=Rollback
func c19Rollback(tx *sql.Tx) error {
	if c19Conc && tx != nil && c19CloseTx(tx) {
		c19DBMu.Unlock()
	}
	return nil
}

//verif:stub (github.com/google/certificate-transparency-go.SignatureVerifier).VerifySTHSignature files=witness.go method=VerifySTHSignature
func c19VerifySTH(sv ct.SignatureVerifier, sth ct.SignedTreeHead) error {
	if c19Conc {
		return nil // every STH of the concurrent harness is validly signed by the log
	}
	i := c19SigCalls
	c19SigCalls++
	c19SigSeen = append(c19SigSeen, sth)
	c19SigKeys = append(c19SigKeys, sv.PubKey)
	if i < len(c19SigOK) && c19SigOK[i] {
		return nil
	}
	return errors.New("bad log signature")
}

//verif:stub github.com/transparency-dev/merkle/proof.VerifyConsistency files=*
func c19VerifyConsistency(_ merkle.LogHasher, s1, s2 uint64, pf [][]byte, r1, r2 []byte) error {
	if c19Conc {
		// a proof exists exactly between heads of one branch (root[0] names the branch), and the
		// submitted proof (its first byte names the size it starts from) must be for this pair
		if r1[0] == r2[0] && s1 < s2 && len(pf) == 1 && len(pf[0]) == 1 && uint64(pf[0][0]) == s1 {
			return nil
		}
		return errors.New("inconsistent")
	}
	c19ConsCalls++
	c19Cons.s1, c19Cons.s2, c19Cons.pf, c19Cons.r1, c19Cons.r2 = s1, s2, pf, r1, r2
	if c19ConsOK {
		return nil
	}
	return errors.New("inconsistent")
}

//verif:stub github.com/google/certificate-transparency-go/tls.CreateSignature files=*
func c19CreateSignature(k crypto.PrivateKey, h tls.HashAlgorithm, data []byte) (tls.DigitallySigned, error) {
	if c19Conc {
		return tls.DigitallySigned{Algorithm: tls.SignatureAndHashAlgorithm{Hash: h, Signature: tls.ECDSA}, Signature: []byte{0xc0, 0x51}}, nil
	}
	c19Signs++
	c19SignKey, c19SignHash, c19SignData = k, h, data
	return tls.DigitallySigned{Algorithm: tls.SignatureAndHashAlgorithm{Hash: h, Signature: tls.ECDSA}, Signature: []byte{0xc0, 0x51}}, nil
}

const c19LogID = "AAECAwQFBgcICQoLDA0ODxAREhMUFRYXGBkaGxwdHh8=" // base64 of bytes 0..31
const c19OtherLogID = "/wECAwQFBgcICQoLDA0ODxAREhMUFRYXGBkaGxwdHh8=" // another configured log: 0xff, 1..31

func c19STH(name string, idKind int) *ct.SignedTreeHead {
	s := &ct.SignedTreeHead{Version: ct.V1, TreeSize: vU64(name + ".size"), Timestamp: vU64(name + ".ts")}
	copy(s.SHA256RootHash[:], vBytes(name+".root", 32))
	switch idKind {
	case 1:
		for i := range s.LogID {
			s.LogID[i] = byte(i)
		}
	case 2:
		// the other log this witness also follows
		for i := range s.LogID {
			s.LogID[i] = byte(i)
		}
		s.LogID[0] = 0xff
	case 3:
		s.LogID[0] = 0x77 // a log nobody knows
	}
	return s
}

type c19Key struct{ id int }

// Harness_C19_update: one Update from an arbitrary stored state.
//
//verif:opt maxpaths=20000 reach=tofu,advanced,refused-stale,refused-inconsistent,same
func Harness_C19_update() {
	sk := &c19Key{7}
	logKey, otherKey := &c19Key{1}, &c19Key{2}
	w := &Witness{db: &sql.DB{}, sk: sk, Logs: map[string]ct.SignatureVerifier{c19LogID: {PubKey: logKey}, c19OtherLogID: {PubKey: otherKey}}}
	c19Writes, c19SigCalls, c19SigSeen, c19SigKeys, c19ConsCalls, c19Signs = nil, 0, nil, nil, 0, 0
	c19Tx, c19ReadInTx, c19WriteInTx = nil, false, false
	c19Conc = false
	c19DBFails = vChoice("db-fails", 2) == 1
	c19WriteFails, c19WriteFailed = vChoice("write-fails", 2) == 1, false
	unknownKind := vChoice("unknown-log", 3) // configured id | an id nobody configured | a non-canonical base64 spelling of the configured id
	unknownLog := unknownKind != 0
	nextIDKind := vChoice("next-logid", 4)
	next := c19STH("next", nextIDKind)
	nextRaw := vJSONEncode(next)
	if vChoice("next-garbled", 2) == 1 {
		nextRaw = []byte("{not json")
	}
	hasPrev := vChoice("has-stored", 2) == 1
	var prev *ct.SignedTreeHead
	var prevRaw []byte
	c19Row = nil
	if hasPrev {
		prev = c19STH("prev", 1)
		prevRaw = vJSONEncode(prev)
		c19Row = prevRaw
	}
	c19SigOK = []bool{vChoice("next-signature-valid", 2) == 1, vChoice("stored-signature-valid", 2) == 1}
	c19ConsOK = vChoice("proof-valid", 2) == 1
	pf := [][]byte{vBytes("node", 32)}
	id := c19LogID
	if unknownKind == 1 {
		id = "BBBBBBBBBBBBBBBBBBBBBBBBBBBBBBBBBBBBBBBBBBB="
	}
	if unknownKind == 2 {
		// decodes (leniently) to the same 32 bytes as c19LogID, but is not the configured identifier:
		// one log must not get a second row under another spelling of its id
		id = "AAECAwQFBgcICQoLDA0ODxAREhMUFRYXGBkaGxwdHh9="
	}
	out, err := w.Update(context.Background(), id, nextRaw, pf)

	// --- safety: what may be written
	vAssert(len(c19Writes) <= 1, "at most one write per update")
	if len(c19Writes) == 1 {
		// Concurrent updates are serialised by the database: the held STH is read and the new one
		// written inside one transaction. (A structural proxy for the 'issued concurrently' clause:
		// the isolation itself is the SQL back end's and is not modelled.)
		vAssert(c19ReadInTx && c19WriteInTx, "the held STH is read and the new one written inside one database transaction")
		vAssert(bytes.Equal(c19Writes[0], nextRaw), "only the candidate is ever stored")
		vAssert(!unknownLog && c19SigCalls >= 1 && c19SigOK[0], "stored only with a valid signature of the configured log")
		vAssert(c19SigSeen[0].TreeSize == next.TreeSize && c19SigSeen[0].SHA256RootHash == next.SHA256RootHash && c19SigSeen[0].Timestamp == next.Timestamp, "the signature check covered the candidate's own fields")
		vAssert(nextIDKind <= 1, "never for an STH that names another log")
		vAssert(c19SigKeys[0] == crypto.PublicKey(logKey), "the signature was checked under the key of the log the update is addressed to")
		if hasPrev {
			vAssert(next.TreeSize > prev.TreeSize, "the held STH never shrinks and is not replaced at equal size")
			vAssert(c19ConsCalls == 1 && c19ConsOK, "replaced only when the consistency proof was accepted")
			vAssert(c19Cons.s1 == prev.TreeSize && c19Cons.s2 == next.TreeSize && bytes.Equal(c19Cons.r1, prev.SHA256RootHash[:]) && bytes.Equal(c19Cons.r2, next.SHA256RootHash[:]) && len(c19Cons.pf) == 1 && bytes.Equal(c19Cons.pf[0], pf[0]),
				"for exactly (held size, held root) -> (candidate size, candidate root) with the submitted proof")
			vReach("advanced")
		} else {
			vReach("tofu")
		}
		vAssert(err == nil, "a stored update is answered with a cosignature")
		// cosignature over the STH it accompanies, under the witness key
		signedInput, merr := tls.Marshal(c19SigSeen[0])
		vAssert(merr == nil && c19Signs == 1 && c19SignKey == crypto.PrivateKey(sk) && c19SignHash == tls.SHA256 && bytes.Equal(c19SignData, signedInput), "cosignature made with the witness key over the TLS encoding of the stored STH")
		var cos api.CosignedSTH
		vAssert(vJSONDecode(out, &cos) == nil && cos.TreeSize == next.TreeSize && cos.SHA256RootHash == next.SHA256RootHash && len(cos.WitnessSigs) == 1, "answer carries that STH and the cosignature")
		return
	}
	if c19WriteFailed {
		vAssert(err != nil && c19Signs == 0, "an update whose write failed is an error and nothing is cosigned")
	}
	// a refusal signalled as FailedPrecondition (what the HTTP layer and the witness client treat as
	// 'stale or inconsistent') carries the currently held STH
	if hasPrev && status.Code(err) == codes.FailedPrecondition {
		vAssert(bytes.Equal(out, prevRaw), "a refusal reported as stale / inconsistent is answered with the currently held STH")
	}
	// --- refusals leave the table unchanged
	if hasPrev {
		vAssert(bytes.Equal(c19Row, prevRaw), "a refused update leaves the stored STH unchanged")
	} else {
		vAssert(c19Row == nil, "a refused update stores nothing")
	}
	if hasPrev && err != nil && c19SigCalls == 2 && c19SigOK[0] && c19SigOK[1] && !c19DBFails && !c19WriteFailed {
		// refused as stale or inconsistent: answered with the held STH
		vAssert(bytes.Equal(out, prevRaw), "stale or inconsistent candidate is answered with the currently held STH")
		if next.TreeSize < prev.TreeSize {
			vReach("refused-stale")
		} else if next.TreeSize > prev.TreeSize {
			vReach("refused-inconsistent")
		}
	}
	if hasPrev && err == nil {
		vAssert(next.TreeSize == prev.TreeSize && next.SHA256RootHash == prev.SHA256RootHash && bytes.Equal(out, prevRaw), "no error without a write only for an identical head (equal size implies equal root)")
		vReach("same")
	}
	if !hasPrev {
		vAssert(err != nil, "nothing stored and nothing held: an error")
	}
}


// Harness_C19_answersKept: the answers of successive requests are independent values: the
// cosigned STH returned for a first (trust-on-first-use) update is still byte for byte what was
// returned after a second, accepted update of the same log and after a get-sth request (a caller
// -- the HTTP handler writing the body, a client keeping the witness's statements -- may hold it).
//
//verif:opt maxpaths=2000 reach=kept
func Harness_C19_answersKept() {
	sk := &c19Key{7}
	logKey := &c19Key{1}
	w := &Witness{db: &sql.DB{}, sk: sk, Logs: map[string]ct.SignatureVerifier{c19LogID: {PubKey: logKey}}}
	c19Writes, c19SigCalls, c19SigSeen, c19SigKeys, c19ConsCalls, c19Signs = nil, 0, nil, nil, 0, 0
	c19Tx, c19ReadInTx, c19WriteInTx = nil, false, false
	c19Conc, c19DBFails, c19Row = false, false, nil
	c19WriteFails, c19WriteFailed = false, false
	c19SigOK = []bool{true, true, true, true, true, true, true, true}
	c19ConsOK = true
	mk := func(size uint64, fill byte) []byte {
		s := &ct.SignedTreeHead{Version: ct.V1, TreeSize: size, Timestamp: 1000 + size}
		for i := range s.SHA256RootHash {
			s.SHA256RootHash[i] = fill
		}
		for i := range s.LogID {
			s.LogID[i] = byte(i)
		}
		return vJSONEncode(s)
	}
	first := uint64(5)
	second := first + 1 + uint64(vChoice("growth", 2))
	out1, err := w.Update(context.Background(), c19LogID, mk(first, 0xa1), nil)
	vAssert(err == nil && len(out1) > 0, "the first STH of a log is stored and cosigned")
	kept1 := append([]byte{}, out1...)
	out2, err := w.Update(context.Background(), c19LogID, mk(second, 0xb2), [][]byte{make([]byte, 32)})
	vAssert(err == nil && len(out2) > 0, "a consistent larger STH is stored and cosigned")
	vAssert(bytes.Equal(out1, kept1), "the first answer is unchanged by the second update")
	kept2 := append([]byte{}, out2...)
	out3, err := w.GetSTH(c19LogID)
	vAssert(err == nil && len(out3) > 0, "get-sth answers with the held STH, cosigned")
	vAssert(bytes.Equal(out1, kept1) && bytes.Equal(out2, kept2), "earlier answers are unchanged by a later request")
	var c1, c3 api.CosignedSTH
	vAssert(vJSONDecode(out1, &c1) == nil && c1.TreeSize == first && vJSONDecode(out3, &c3) == nil && c3.TreeSize == second, "each answer carries the STH it was made for")
	vReach("kept")
}

// Harness_C19_concurrent: two updates for the same log arrive concurrently while the witness
// holds size 5 of branch A: each candidate is a validly signed head of size 8 or 9 on branch A or
// on a fork B, with the proof a client would submit from size 5. Given serialisable database
// transactions (the stand-in grants one open transaction at a time), on every interleaving
// within the delay bound the heads the witness stores form a chain: each is a strict extension of
// the one held before it on the same branch; refused updates change nothing; no data race.
//
//verif:opt sched=1 race=1 preempt=2 thorough.preempt=3 maxpaths=400000 reach=joined,stored,one-refused
func Harness_C19_concurrent() {
	sk := &c19Key{7}
	w := &Witness{db: &sql.DB{}, sk: sk, Logs: map[string]ct.SignatureVerifier{c19LogID: {PubKey: &c19Key{1}}}}
	mk := func(size uint64, branch byte) []byte {
		s := &ct.SignedTreeHead{Version: ct.V1, TreeSize: size, Timestamp: 100 + size}
		s.SHA256RootHash[0], s.SHA256RootHash[1] = branch, byte(size)
		for i := range s.LogID {
			s.LogID[i] = byte(i)
		}
		return vJSONEncode(s)
	}
	held := mk(5, 'A')
	cand := [2][]byte{}
	size := [2]uint64{8 + uint64(vChoice("size0", 2)), 8 + uint64(vChoice("size1", 2))}
	branch := [2]byte{"AB"[vChoice("branch0", 2)], "AB"[vChoice("branch1", 2)]}
	for i := range cand {
		cand[i] = mk(size[i], branch[i])
	}
	c19Conc, c19Row, c19History, c19OpenTx = true, held, nil, nil
	var wg sync.WaitGroup
	var errs [2]error
	for i := 0; i < 2; i++ {
		i := i
		wg.Add(1)
		go func() {
			defer wg.Done()
			_, errs[i] = w.Update(context.Background(), c19LogID, cand[i], [][]byte{{5}})
		}()
	}
	wg.Wait()
	vReach("joined")
	// the stored heads form a chain from the held one
	prevSize, prevBranch := uint64(5), byte('A')
	for _, raw := range c19History {
		var s ct.SignedTreeHead
		vAssert(vJSONDecode(raw, &s) == nil, "stored heads are STHs")
		vAssert(s.SHA256RootHash[0] == prevBranch && s.TreeSize > prevSize, "every stored head is a strict extension of the head held before it (never a fork, never smaller or equal)")
		prevSize, prevBranch = s.TreeSize, s.SHA256RootHash[0]
	}
	vAssert(len(c19History) <= 2, "at most one write per update")
	if len(c19History) == 0 {
		vAssert(string(c19Row) == string(held), "refused updates leave the stored STH unchanged")
	} else {
		vAssert(string(c19Row) == string(c19History[len(c19History)-1]), "the row holds the last stored head")
	}
	for i := 0; i < 2; i++ {
		if branch[i] == 'B' {
			vAssert(errs[i] != nil, "a head of the forked branch is refused")
		}
	}
	if len(c19History) >= 1 {
		vReach("stored")
	}
	// (both proofs start from size 5, so whichever update comes second is refused: its proof is
	// not one from the head held by then)
	vAssert(len(c19History) <= 1, "the update that comes second does not prove consistency with the head held by then and is refused")
	if errs[0] != nil || errs[1] != nil {
		vReach("one-refused")
	}
}
