//go:build verif

//verif:package internal/witness/cmd/witness/internal/witness

package witness

import (
	"bytes"
	"context"
	"crypto"
	"database/sql"
	"errors"

	ct "github.com/google/certificate-transparency-go"
	"github.com/google/certificate-transparency-go/internal/witness/api"
	"github.com/google/certificate-transparency-go/tls"
	"github.com/transparency-dev/merkle"
	"google.golang.org/grpc/codes"
	"google.golang.org/grpc/status"
)

// The sths table is a ghost single row; the log's signature check, the Merkle consistency
// verifier and the witness's signing primitive are cut (arguments recorded, verdicts chosen).
var (
	c19Row        []byte // nil: no row for the log
	c19Writes     [][]byte
	c19DBFails    bool
	c19SigOK      []bool // verdict of the log-signature check, per call (candidate first, then stored)
	c19SigCalls   int
	c19SigSeen    []ct.SignedTreeHead
	c19SigKeys    []crypto.PublicKey
	c19ConsOK     bool
	c19ConsCalls  int
	c19Cons       struct {
		s1, s2 uint64
		pf     [][]byte
		r1, r2 []byte
	}
	c19Tx        *sql.Tx // the transaction opened by the update under test
	c19ReadInTx  bool
	c19WriteInTx bool
	c19SignKey  crypto.PrivateKey
	c19SignData []byte
	c19SignHash tls.HashAlgorithm
	c19Signs    int
)

//verif:stub (*github.com/google/certificate-transparency-go/internal/witness/cmd/witness/internal/witness.Witness).getLatestSTH files=witness.go method=getLatestSTH
func c19GetLatest(w *Witness, _ func(string, ...interface{}) *sql.Row, logID string) ([]byte, error) {
	c19ReadInTx = c19Tx != nil
	if c19DBFails {
		return nil, errors.New("database is locked")
	}
	if c19Row == nil {
		return nil, status.Errorf(codes.NotFound, "no STH for log %q", logID)
	}
	return c19Row, nil
}

//verif:stub (*github.com/google/certificate-transparency-go/internal/witness/cmd/witness/internal/witness.Witness).setSTH files=witness.go method=setSTH
func c19SetSTH(w *Witness, tx any, logID string, sth []byte) error {
	t, isTx := tx.(*sql.Tx)
	c19WriteInTx = isTx && t != nil && t == c19Tx
	c19Writes = append(c19Writes, sth)
	c19Row = sth
	return nil
}

//verif:stub (*database/sql.DB).BeginTx files=witness.go method=BeginTx
func c19BeginTx(db *sql.DB, ctx context.Context, opts *sql.TxOptions) (*sql.Tx, error) {
	c19Tx = &sql.Tx{}
	return c19Tx, nil
}

//verif:stub (*database/sql.Tx).Rollback files=witness.go method=Rollback
func c19Rollback(tx *sql.Tx) error { return nil }

//verif:stub (github.com/google/certificate-transparency-go.SignatureVerifier).VerifySTHSignature files=witness.go method=VerifySTHSignature
func c19VerifySTH(sv ct.SignatureVerifier, sth ct.SignedTreeHead) error {
	i := c19SigCalls
	c19SigCalls++
	c19SigSeen = append(c19SigSeen, sth)
	c19SigKeys = append(c19SigKeys, sv.PubKey)
	if i < len(c19SigOK) && c19SigOK[i] {
		return nil
	}
	return errors.New("bad log signature")
}

//verif:stub github.com/transparency-dev/merkle/proof.VerifyConsistency files=*
func c19VerifyConsistency(_ merkle.LogHasher, s1, s2 uint64, pf [][]byte, r1, r2 []byte) error {
	c19ConsCalls++
	c19Cons.s1, c19Cons.s2, c19Cons.pf, c19Cons.r1, c19Cons.r2 = s1, s2, pf, r1, r2
	if c19ConsOK {
		return nil
	}
	return errors.New("inconsistent")
}

//verif:stub github.com/google/certificate-transparency-go/tls.CreateSignature files=*
func c19CreateSignature(k crypto.PrivateKey, h tls.HashAlgorithm, data []byte) (tls.DigitallySigned, error) {
	c19Signs++
	c19SignKey, c19SignHash, c19SignData = k, h, data
	return tls.DigitallySigned{Algorithm: tls.SignatureAndHashAlgorithm{Hash: h, Signature: tls.ECDSA}, Signature: []byte{0xc0, 0x51}}, nil
}

const c19LogID = "AAECAwQFBgcICQoLDA0ODxAREhMUFRYXGBkaGxwdHh8=" // base64 of bytes 0..31
const c19OtherLogID = "/wECAwQFBgcICQoLDA0ODxAREhMUFRYXGBkaGxwdHh8=" // another configured log: 0xff, 1..31

func c19STH(name string, idKind int) *ct.SignedTreeHead {
	s := &ct.SignedTreeHead{Version: ct.V1, TreeSize: vU64(name + ".size"), Timestamp: vU64(name + ".ts")}
	copy(s.SHA256RootHash[:], vBytes(name+".root", 32))
	switch idKind {
	case 1:
		for i := range s.LogID {
			s.LogID[i] = byte(i)
		}
	case 2:
		// the other log this witness also follows
		for i := range s.LogID {
			s.LogID[i] = byte(i)
		}
		s.LogID[0] = 0xff
	case 3:
		s.LogID[0] = 0x77 // a log nobody knows
	}
	return s
}

type c19Key struct{ id int }

// Harness_C19_update: one Update from an arbitrary stored state.
//
//verif:opt maxpaths=20000 reach=tofu,advanced,refused-stale,refused-inconsistent,same
func Harness_C19_update() {
	sk := &c19Key{7}
	logKey, otherKey := &c19Key{1}, &c19Key{2}
	w := &Witness{db: &sql.DB{}, sk: sk, Logs: map[string]ct.SignatureVerifier{c19LogID: {PubKey: logKey}, c19OtherLogID: {PubKey: otherKey}}}
	c19Writes, c19SigCalls, c19SigSeen, c19SigKeys, c19ConsCalls, c19Signs = nil, 0, nil, nil, 0, 0
	c19Tx, c19ReadInTx, c19WriteInTx = nil, false, false
	c19DBFails = vChoice("db-fails", 2) == 1
	unknownLog := vChoice("unknown-log", 2) == 1
	nextIDKind := vChoice("next-logid", 4)
	next := c19STH("next", nextIDKind)
	nextRaw := vJSONEncode(next)
	if vChoice("next-garbled", 2) == 1 {
		nextRaw = []byte("{not json")
	}
	hasPrev := vChoice("has-stored", 2) == 1
	var prev *ct.SignedTreeHead
	var prevRaw []byte
	c19Row = nil
	if hasPrev {
		prev = c19STH("prev", 1)
		prevRaw = vJSONEncode(prev)
		c19Row = prevRaw
	}
	c19SigOK = []bool{vChoice("next-signature-valid", 2) == 1, vChoice("stored-signature-valid", 2) == 1}
	c19ConsOK = vChoice("proof-valid", 2) == 1
	pf := [][]byte{vBytes("node", 32)}
	id := c19LogID
	if unknownLog {
		id = "BBBBBBBBBBBBBBBBBBBBBBBBBBBBBBBBBBBBBBBBBBB="
	}
	out, err := w.Update(context.Background(), id, nextRaw, pf)

	// --- safety: what may be written
	vAssert(len(c19Writes) <= 1, "at most one write per update")
	if len(c19Writes) == 1 {
		// Concurrent updates are serialised by the database: the held STH is read and the new one
		// written inside one transaction. (A structural proxy for the 'issued concurrently' clause:
		// the isolation itself is the SQL back end's and is not modelled.)
		vAssert(c19ReadInTx && c19WriteInTx, "the held STH is read and the new one written inside one database transaction")
		vAssert(bytes.Equal(c19Writes[0], nextRaw), "only the candidate is ever stored")
		vAssert(!unknownLog && c19SigCalls >= 1 && c19SigOK[0], "stored only with a valid signature of the configured log")
		vAssert(c19SigSeen[0].TreeSize == next.TreeSize && c19SigSeen[0].SHA256RootHash == next.SHA256RootHash && c19SigSeen[0].Timestamp == next.Timestamp, "the signature check covered the candidate's own fields")
		vAssert(nextIDKind <= 1, "never for an STH that names another log")
		vAssert(c19SigKeys[0] == crypto.PublicKey(logKey), "the signature was checked under the key of the log the update is addressed to")
		if hasPrev {
			vAssert(next.TreeSize > prev.TreeSize, "the held STH never shrinks and is not replaced at equal size")
			vAssert(c19ConsCalls == 1 && c19ConsOK, "replaced only when the consistency proof was accepted")
			vAssert(c19Cons.s1 == prev.TreeSize && c19Cons.s2 == next.TreeSize && bytes.Equal(c19Cons.r1, prev.SHA256RootHash[:]) && bytes.Equal(c19Cons.r2, next.SHA256RootHash[:]) && len(c19Cons.pf) == 1 && bytes.Equal(c19Cons.pf[0], pf[0]),
				"for exactly (held size, held root) -> (candidate size, candidate root) with the submitted proof")
			vReach("advanced")
		} else {
			vReach("tofu")
		}
		vAssert(err == nil, "a stored update is answered with a cosignature")
		// cosignature over the STH it accompanies, under the witness key
		signedInput, merr := tls.Marshal(c19SigSeen[0])
		vAssert(merr == nil && c19Signs == 1 && c19SignKey == crypto.PrivateKey(sk) && c19SignHash == tls.SHA256 && bytes.Equal(c19SignData, signedInput), "cosignature made with the witness key over the TLS encoding of the stored STH")
		var cos api.CosignedSTH
		vAssert(vJSONDecode(out, &cos) == nil && cos.TreeSize == next.TreeSize && cos.SHA256RootHash == next.SHA256RootHash && len(cos.WitnessSigs) == 1, "answer carries that STH and the cosignature")
		return
	}
	// --- refusals leave the table unchanged
	if hasPrev {
		vAssert(bytes.Equal(c19Row, prevRaw), "a refused update leaves the stored STH unchanged")
	} else {
		vAssert(c19Row == nil, "a refused update stores nothing")
	}
	if hasPrev && err != nil && c19SigCalls == 2 && c19SigOK[0] && c19SigOK[1] && !c19DBFails {
		// refused as stale or inconsistent: answered with the held STH
		vAssert(bytes.Equal(out, prevRaw), "stale or inconsistent candidate is answered with the currently held STH")
		if next.TreeSize < prev.TreeSize {
			vReach("refused-stale")
		} else if next.TreeSize > prev.TreeSize {
			vReach("refused-inconsistent")
		}
	}
	if hasPrev && err == nil {
		vAssert(next.TreeSize == prev.TreeSize && next.SHA256RootHash == prev.SHA256RootHash && bytes.Equal(out, prevRaw), "no error without a write only for an identical head (equal size implies equal root)")
		vReach("same")
	}
	if !hasPrev {
		vAssert(err != nil, "nothing stored and nothing held: an error")
	}
}
