//go:build verif

//verif:package jsonclient

package jsonclient

import (
	"sync"
	"time"
)

// Harness_C13_sharedBackoff: the back-off state is shared by all requests of a client; two
// requests that fail, succeed and poll it concurrently (every interleaving within the delay bound,
// race detector on) leave it consistent: no data race, no lost update of the multiplier, and the
// not-before instant is the one a sequential execution of the same calls produces.
//
//verif:opt sched=1 race=1 preempt=3 maxpaths=400000 reach=joined
func Harness_C13_sharedBackoff() {
	c13Start()
	c13FixedClock, c13Concurrent = true, true
	b := &backoff{}
	now := time.Unix(2000000000, 0)
	var wg sync.WaitGroup
	var u [2]time.Time
	op := [2]int{vChoice("op0", 3), vChoice("op1", 3)}
	m := uint(1 + vChoice("m0", 2))
	b.multiplier = m
	for i := 0; i < 2; i++ {
		i := i
		wg.Add(1)
		go func() {
			defer wg.Done()
			switch op[i] {
			case 0:
				b.set(nil)
			case 1:
				b.decreaseMultiplier()
			case 2:
				d := 7 * time.Second
				b.set(&d)
			}
			u[i] = b.until()
		}()
	}
	wg.Wait()
	vReach("joined")
	// with a frozen clock the outcome of the two calls does not depend on their order, except that
	// the first set() wins the not-before instant
	sets, decs := 0, 0
	for _, o := range op {
		switch o {
		case 0:
			sets++
		case 1:
			decs++
		}
	}
	if sets == 0 && op[0] != 2 && op[1] != 2 {
		vAssert(b.notBefore.IsZero(), "no failure: no pause")
	}
	if op[0] == 0 && op[1] == 0 {
		// the second failure finds the pause of the first still pending: one increment only
		vAssert(!b.notBefore.Before(now.Add(time.Second)), "a pause of at least the minimum is pending")
	}
	for i := 0; i < 2; i++ {
		vAssert(!u[i].After(b.notBefore), "a poll never sees an instant later than the final not-before")
	}
	// no update of the multiplier is lost
	switch {
	case sets == 2:
		vAssert(b.multiplier == m+1, "two failures at the same instant: the second finds the pause pending, one increment")
	case sets == 1 && decs == 1:
		vAssert(b.multiplier == m, "one failure and one success cancel out")
	case decs == 2:
		vAssert(b.multiplier+2 == m || (m < 2 && b.multiplier == 0), "two successes: two decrements, not below zero")
	case decs == 1:
		vAssert(b.multiplier == m-1, "one success: one decrement")
	case sets == 1:
		vAssert(b.multiplier == m || b.multiplier == m+1, "a failure next to a server-supplied pause increments at most once")
	default:
		vAssert(b.multiplier == m, "server-supplied pauses leave the multiplier alone")
	}
}
