//go:build verif

//verif:package jsonclient

package jsonclient

import (
	"math"
	"bytes"
	"context"
	"errors"
	"io"
	"net/http"
	"time"
)

// recBackoff is an S1 stand-in for the client's back-off state: it records what the retry loop
// asks of it.
type recBackoff struct {
	sets      int
	overrides []*time.Duration
}

func (b *recBackoff) set(o *time.Duration) time.Duration {
	b.sets++
	b.overrides = append(b.overrides, o)
	return time.Second
}
func (b *recBackoff) decreaseMultiplier() {}
func (b *recBackoff) until() time.Time      { return time.Time{} }

type c13Server struct {
	calls   int
	respond func(n int, req *http.Request) (*http.Response, error)
}

func (s *c13Server) RoundTrip(req *http.Request) (*http.Response, error) {
	s.calls++
	return s.respond(s.calls, req)
}

// c13WaitCtx ends after a given number of back-off waits were started.
type c13WaitCtx struct {
	context.Context
	endAfterWaits int
}

func (c *c13WaitCtx) Done() <-chan struct{} {
	if c.endAfterWaits >= 0 && len(c13Timers) > c.endAfterWaits {
		ch := make(chan struct{})
		close(ch)
		return ch
	}
	return nil
}
func (c *c13WaitCtx) Err() error {
	if c.endAfterWaits >= 0 && len(c13Timers) > c.endAfterWaits {
		return context.DeadlineExceeded
	}
	return nil
}
func (c *c13WaitCtx) Value(any) any { return nil }

const (
	oGood = iota
	oTransport
	oUnparsable
	o408
	o429
	o503
	oOther
	oRedirected
	nOutcomes
)

type c13Reply struct{ V int }

// c13NetErr is a transport error that reports itself as a timeout or a cancellation of its own
// (net/http's Client.Timeout error, net's dial timeout and "operation was canceled" errors do so
// through an Is method) while the caller's context is still live.
type c13NetErr struct{ canceled bool }

func (e c13NetErr) Error() string { return "net: i/o timeout" }
func (e c13NetErr) Timeout() bool { return !e.canceled }
func (e c13NetErr) Is(target error) bool {
	if e.canceled {
		return target == context.Canceled
	}
	return target == context.DeadlineExceeded
}

// Harness_C13_retryLoop: the retry discipline over all server response sequences of length <= 3.
//
//verif:opt maxpaths=40000 reach=success,immediate-error,context-ended wall=900
func Harness_C13_retryLoop() {
	c13Start()
	c13FixedClock = true // the loop's control flow does not depend on clock values (pacing arithmetic: Harness_C13_set / _wait)
	srv := &c13Server{}
	bo := &recBackoff{}
	c := &JSONClient{uri: "http://log.example", httpClient: &http.Client{Transport: srv}, logger: &basicLogger{}, backoff: bo}
	k := vChoice("attempts-before-final", c13MaxAttempts())
	var outcomes []int
	var retryAfter []string
	var raSeconds []int64
	var raKind []int
	otherStatus := int(vU16("other-status"))
	vAssume(otherStatus >= 100 && otherStatus <= 599 && otherStatus != 200 && otherStatus != 408 && otherStatus != 429 && otherStatus != 503)
	for i := 0; i <= k; i++ {
		o := vChoice("outcome", nOutcomes)
		outcomes = append(outcomes, o)
		kind := 0
		ra := ""
		var secs int64
		if o == o429 || o == o503 {
			kind = vChoice("retry-after-form", 4) // none | seconds | HTTP date | garbage
			switch kind {
			case 1:
				secs = vI64("retry-after-seconds")
				// every int64: also values too long for a time.Duration, and negative ones (not a delay: as good as no Retry-After)
				// (sequences of three responses -- thorough tier -- use non-negative values only: the
				// handling of a negative value does not depend on the position in the sequence)
				negChoices := 4
				if k >= 2 {
					negChoices = 1
				}
				if neg := vChoice("retry-after-negative", negChoices); neg > 0 {
					// negative values are enumerated (small, just past the Duration range, one that wraps around to +1h)
					secs = []int64{0, -1, -9223372037, -9223372036854772208}[neg]
					ra = []string{"", "-1", "-9223372037", "-9223372036854772208"}[neg]
				} else {
					vAssume(secs >= 0)
					ra = vDecStr(secs)
				}
			case 2:
				ra = "Wed, 21 Oct 2065 07:28:00 GMT"
			case 3:
				ra = "soon"
			}
		}
		retryAfter, raSeconds, raKind = append(retryAfter, ra), append(raSeconds, secs), append(raKind, kind)
	}
	lastBody := []byte(nil)
	// what a failing transport reports: a plain error, or one that calls itself a timeout / a cancellation (the caller's context is live)
	transportErr := 0
	for _, o := range outcomes {
		if o == oTransport {
			if k < 2 { // (likewise: self-reporting transport errors in sequences of up to two responses)
				transportErr = vChoice("transport-error-kind", 3)
			}
			break
		}
	}
	srv.respond = func(n int, req *http.Request) (*http.Response, error) {
		vAssert(req.Method == http.MethodPost, "every attempt is a POST")
		if n > len(outcomes) {
			vFail("an attempt was made after the caller's context had ended")
			return nil, errors.New("connection refused")
		}
		o := outcomes[n-1]
		if o == oTransport {
			switch transportErr {
			case 1:
				return nil, c13NetErr{}
			case 2:
				return nil, c13NetErr{canceled: true}
			}
			return nil, errors.New("connection refused")
		}
		status := map[int]int{oGood: 200, oUnparsable: 200, o408: 408, o429: 429, o503: 503, oOther: otherStatus, oRedirected: 200}[o]
		body := vJSONEncode(c13Reply{V: n})
		if o == oUnparsable {
			body = []byte("<html>")
		}
		lastBody = body
		rsp := &http.Response{StatusCode: status, Status: "x", Header: http.Header{}, Body: io.NopCloser(bytes.NewReader(body)), Request: req}
		if retryAfter[n-1] != "" {
			rsp.Header["Retry-After"] = []string{retryAfter[n-1]}
		}
		if o == oRedirected {
			// a redirect turned the POST into a GET
			rsp.Request = &http.Request{Method: http.MethodGet, URL: req.URL}
		}
		return rsp, nil
	}
	// index of the first attempt that ends the loop
	final := -1
	for i, o := range outcomes {
		if o == oGood || o == oOther {
			final = i
			break
		}
	}
	endAfter := -1
	if final < 0 {
		endAfter = k // script exhausted without a terminal outcome: the caller's context ends during the last wait
	}
	ctx := &c13WaitCtx{endAfterWaits: endAfter}
	var out c13Reply
	rsp, body, err := c.PostAndParseWithRetry(ctx, "/ct/v1/add-chain", &c13Reply{}, &out)
	if final < 0 {
		vAssert(err == context.DeadlineExceeded && rsp == nil, "once the caller's context ends, that context's error is returned as is")
		vAssert(srv.calls == k+1, "no further attempt after the context ended")
		vReach("context-ended")
	} else {
		vAssert(srv.calls == final+1, "retries continue exactly until the first terminal outcome")
		if outcomes[final] == oGood {
			vAssert(err == nil && rsp != nil && rsp.StatusCode == 200 && out.V == final+1 && bytes.Equal(body, lastBody), "the first 200 response whose body parses is returned")
			vReach("success")
		} else {
			var re RspError
			vAssert(err != nil && rsp == nil && errors.As(err, &re) && re.StatusCode == otherStatus && bytes.Equal(re.Body, lastBody), "any other status is returned immediately as an error carrying status and body")
			vReach("immediate-error")
		}
	}
	// pacing requests made of the back-off state, in order
	si := 0
	stop := final
	if stop < 0 {
		stop = k + 1
	}
	for i := 0; i < stop; i++ {
		switch outcomes[i] {
		case o408:
			// retried without added delay: no back-off requested
		case oTransport, oUnparsable, oRedirected:
			vAssert(si < bo.sets && bo.overrides[si] == nil, "failed attempt: default exponential back-off")
			si++
		case o429, o503:
			vAssert(si < bo.sets, "429/503: back-off requested")
			if si < bo.sets {
				switch raKind[i] {
				case 0, 3:
					vAssert(bo.overrides[si] == nil, "no usable Retry-After: default back-off")
				case 1:
					if raSeconds[i] < 0 {
						vAssert(bo.overrides[si] == nil || *bo.overrides[si] <= 0, "a negative Retry-After is not a delay: default back-off or no wait, never a wrapped-around positive wait")
					} else if raSeconds[i] <= math.MaxInt64/int64(time.Second) {
						vAssert(bo.overrides[si] != nil && *bo.overrides[si] == time.Duration(raSeconds[i])*time.Second, "Retry-After seconds reach the back-off unchanged")
					} else {
						vAssert(bo.overrides[si] != nil && *bo.overrides[si] >= time.Duration(math.MaxInt64/int64(time.Second))*time.Second, "a Retry-After too long for a Duration asks for the longest wait, never for a shorter or negative one")
					}
				case 2:
					vAssert(bo.overrides[si] != nil, "Retry-After HTTP date becomes a wait until that date")
				}
			}
			si++
		}
	}
	vAssert(si == bo.sets, "no other back-off requests")
}

// quick tier: sequences of up to 2 responses; thorough tier: up to 3.
func c13MaxAttempts() int {
	if vTier() == 1 {
		return 3
	}
	return 2
}

// c13EndedCtx is a caller's context that has already ended.
type c13EndedCtx struct {
	context.Context
	err error
}

func (c *c13EndedCtx) Done() <-chan struct{} {
	ch := make(chan struct{})
	close(ch)
	return ch
}
func (c *c13EndedCtx) Err() error        { return c.err }
func (c *c13EndedCtx) Value(any) any     { return nil }
func (c *c13EndedCtx) Deadline() (time.Time, bool) { return time.Time{}, false }

// Harness_C13_endedContext: a submission whose caller's context has ended (cancelled or past its
// deadline) returns that context's error at once and leaves the back-off state, which every
// submission on the client shares, untouched -- so that it adds no delay to anybody else's retry
// (408 is retried without added delay).
//
//verif:opt maxpaths=200 reach=returned
func Harness_C13_endedContext() {
	c13Start()
	c13FixedClock = true
	srv := &c13Server{}
	bo := &recBackoff{}
	c := &JSONClient{uri: "http://log.example", httpClient: &http.Client{Transport: srv}, logger: &basicLogger{}, backoff: bo}
	cerr := []error{context.Canceled, context.DeadlineExceeded}[vChoice("context-error", 2)]
	ctx := &c13EndedCtx{err: cerr}
	srv.respond = func(n int, req *http.Request) (*http.Response, error) {
		return nil, cerr // what a transport reports for a request whose context has ended
	}
	var out c13Reply
	rsp, _, err := c.PostAndParseWithRetry(ctx, "/ct/v1/add-chain", &c13Reply{}, &out)
	vAssert(err == cerr && rsp == nil, "the caller's context error is returned as is")
	vAssert(srv.calls <= 1, "no retry once the context has ended")
	vAssert(bo.sets == 0, "a submission that ends with its caller's context leaves the shared back-off untouched")
	vReach("returned")
}
