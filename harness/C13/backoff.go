//go:build verif

//verif:package jsonclient

package jsonclient

import (
	"context"
	"time"
)

// The clock is a harness stub returning arbitrary non-decreasing instants.
var (
	c13Sec    int64
	c13Nsec   int64
	c13Reads  []time.Time
	c13WholeSeconds bool
	c13FixedClock   bool
	c13Concurrent   bool
	c13Timers []time.Duration
)

//verif:stub time.Now files=*
func c13Now() time.Time {
	if c13FixedClock {
		t := time.Unix(2000000000, 0)
		if !c13Concurrent {
			c13Reads = append(c13Reads, t)
		}
		return t
	}
	// the next reading is an arbitrary instant not before the previous one
	sec := vI64("now.sec")
	nsec := int64(vU32("now.nsec") & 0x3fffffff)
	vAssume(sec <= 4102444800 && nsec < 1000000000)
	if c13WholeSeconds {
		vAssume(nsec == 0)
	}
	vAssume(sec > c13Sec || (sec == c13Sec && nsec >= c13Nsec))
	c13Sec, c13Nsec = sec, nsec
	t := time.Unix(sec, nsec)
	c13Reads = append(c13Reads, t)
	return t
}

//verif:stub time.Until files=client.go
func c13Until(t time.Time) time.Duration { return t.Sub(c13Now()) }

// In backoff.set the value of time.Until is only reported back for logging; it is left
// arbitrary (not part of the claim).
//
//verif:stub time.Until files=backoff.go
func c13UntilLogged(t time.Time) time.Duration {
	if c13Concurrent {
		return 0 // the tape is read by the main goroutine only
	}
	return time.Duration(vI64("logged-wait"))
}

//verif:stub time.NewTimer files=*
func c13NewTimer(d time.Duration) *time.Timer {
	c13Timers = append(c13Timers, d)
	return time.NewTimer(0)
}

//verif:stub math/rand.Intn files=*
func c13Intn(n int) int {
	v := vInt("jitter-ms")
	vAssume(v >= 0 && v < n)
	return v
}

func c13Start() {
	sec := vI64("t0.sec")
	nsec := int64(vU32("t0.nsec") & 0x3fffffff)
	vAssume(sec >= 0 && sec <= 4102444800) // 1970..2100
	vAssume(nsec < 1000000000)
	c13Sec, c13Nsec = sec, nsec
	c13Reads, c13Timers = nil, nil
	c13WholeSeconds = false
	c13FixedClock = false
}

func c13Instant(name string) time.Time {
	sec := vI64(name + ".sec")
	nsec := int64(vU32(name+".nsec") & 0x3fffffff)
	vAssume(sec >= 0 && sec <= 4102444800)
	vAssume(nsec < 1000000000)
	return time.Unix(sec, nsec)
}

// Harness_C13_set: one step of backoff.set from an arbitrary valid state.
//
//verif:opt maxpaths=2000 reach=override,nooverride assertto=20 branchto=5 wall=100
func Harness_C13_set() {
	c13Start()
	b := &backoff{}
	m := uint8(vChoice("multiplier", maxMultiplier+1))
	b.multiplier = uint(m)
	old := c13Instant("notBefore")
	b.notBefore = old
	var override *time.Duration
	var d time.Duration
	if vChoice("has-override", 2) == 1 {
		secs := vI64("retry-after-seconds")
		vAssume(secs > -(1<<33) && secs < 1<<33) // outside: Duration overflow (stated bound)
		d = time.Duration(secs) * time.Second
		override = &d
	}
	wait := b.set(override)
	first := c13Reads[0]
	last := c13Reads[len(c13Reads)-1]
	vAssert(b.multiplier <= maxMultiplier, "multiplier stays within its cap")
	if old.After(first) {
		vAssert(!b.notBefore.Before(old), "a not-before instant in the future is never lowered")
	}
	if override != nil {
		vAssert(!b.notBefore.Before(first.Add(d)), "never waits less than the server-supplied Retry-After")
		vReach("override")
		return
	}
	vReach("nooverride")
	if !old.After(first) {
		// fresh back-off: exponential, capped at 128 s
		exp := uint(m)
		if exp < maxMultiplier {
			exp++
		}
		vAssert(b.multiplier == exp, "multiplier incremented up to the cap")
		vAssert(wait == time.Second<<(exp-1), "wait is 2^(m-1) seconds")
		vAssert(wait <= 128*time.Second, "wait capped at 128 s")
		vAssert(!b.notBefore.After(last.Add(128*time.Second)), "not-before at most 128 s ahead of the clock")
		vAssert(b.notBefore.Equal(last.Add(wait)), "not-before = now + wait")
	} else {
		vAssert(b.notBefore.Equal(old), "pending back-off is kept when the server did not ask for more")
		vAssert(b.multiplier == uint(m), "multiplier unchanged while a back-off is pending")
	}
}

// Harness_C13_decrease: decreaseMultiplier keeps the invariant and never underflows.
//
//verif:opt maxpaths=100
func Harness_C13_decrease() {
	b := &backoff{}
	m := vU8("multiplier")
	vAssume(m <= maxMultiplier)
	b.multiplier = uint(m)
	b.decreaseMultiplier()
	if m == 0 {
		vAssert(b.multiplier == 0, "no underflow")
	} else {
		vAssert(b.multiplier == uint(m)-1, "decremented")
	}
}

type c13Ctx struct{ done bool }

func (c *c13Ctx) Deadline() (time.Time, bool) { return time.Time{}, false }
func (c *c13Ctx) Done() <-chan struct{} {
	if c.done {
		ch := make(chan struct{})
		close(ch)
		return ch
	}
	return nil
}
func (c *c13Ctx) Err() error {
	if c.done {
		return context.Canceled
	}
	return nil
}
func (c *c13Ctx) Value(any) any { return nil }

// Harness_C13_wait: waitForBackoff waits at least until not-before and at most 250 ms longer;
// a finished context returns that context's error.
//
//verif:opt maxpaths=500 reach=waited,cancelled
func Harness_C13_wait() {
	c13Start()
	c13WholeSeconds = true // stated bound: clock readings and not-before on whole seconds; jitter in ms
	b := &backoff{}
	nbs := vI64("notBefore.sec")
	vAssume(nbs >= 0 && nbs <= 4102444800)
	nb := time.Unix(nbs, 0)
	b.notBefore = nb
	c := &JSONClient{backoff: b}
	ctx := &c13Ctx{done: vChoice("ctx-done", 2) == 1}
	err := c.waitForBackoff(ctx)
	if ctx.done {
		vAssert(err == context.Canceled, "finished context: its error is returned")
		vReach("cancelled")
		return
	}
	vAssert(err == nil, "wait completes")
	vAssert(len(c13Timers) == 1 && len(c13Reads) == 1, "one timer armed from one clock reading")
	now := c13Reads[0]
	dur := c13Timers[0]
	vAssert(dur >= 0, "never a negative wait")
	if nb.After(now) {
		vAssert(!now.Add(dur).Before(nb), "waits at least until not-before")
		vAssert(now.Add(dur).Before(nb.Add(maxJitter)), "waits less than not-before plus the fixed jitter")
	} else {
		vAssert(now.Add(dur).Before(now.Add(maxJitter)), "no pending back-off: at most the jitter")
	}
	vReach("waited")
}
