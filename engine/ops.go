package main

import (
	"fmt"
	"go/token"
	"go/types"
	"math"
	"unicode/utf8"
)

func (in *Interp) binop(op token.Token, xt types.Type, x, y value, yt types.Type) value {
	ts := in.ts
	switch xv := x.(type) {
	case *Term:
		yv, ok := y.(*Term)
		if !ok {
			break
		}
		w, signed, _ := intInfo(xt)
		if xv.w == 0 {
			switch op {
			case token.EQL:
				return ts.Eq(xv, yv)
			case token.NEQ:
				return ts.Ne(xv, yv)
			case token.AND, token.LAND:
				return ts.And(xv, yv)
			case token.OR, token.LOR:
				return ts.Or(xv, yv)
			}
			panic(unsupported("bool binop " + op.String()))
		}
		_ = w
		switch op {
		case token.ADD:
			return ts.Arith(OpAdd, xv, yv)
		case token.SUB:
			return ts.Arith(OpSub, xv, yv)
		case token.MUL:
			return ts.Arith(OpMul, xv, yv)
		case token.QUO, token.REM:
			in.panicIf(ts.Eq(yv, ts.BV(yv.w, 0)), "integer divide by zero")
			if yv.IsConst() && !xv.IsConst() && yv.val != 0 {
				if q, r, ok := in.divByConst(xv, yv, signed); ok {
					if op == token.QUO {
						return q
					}
					return r
				}
			}
			var o Op
			switch {
			case op == token.QUO && signed:
				o = OpSDiv
			case op == token.QUO:
				o = OpUDiv
			case signed:
				o = OpSRem
			default:
				o = OpURem
			}
			return ts.Arith(o, xv, yv)
		case token.AND:
			return ts.Arith(OpBAnd, xv, yv)
		case token.OR:
			return ts.Arith(OpBOr, xv, yv)
		case token.XOR:
			return ts.Arith(OpBXor, xv, yv)
		case token.AND_NOT:
			return ts.Arith(OpBAnd, xv, ts.BNot(yv))
		case token.SHL, token.SHR:
			_, ysigned, _ := intInfo(yt)
			if ysigned {
				in.panicIf(ts.Cmp(OpSlt, yv, ts.BV(yv.w, 0)), "negative shift amount")
			}
			var o Op
			switch {
			case op == token.SHL:
				o = OpShl
			case signed:
				o = OpAShr
			default:
				o = OpLShr
			}
			if yv.w == xv.w {
				return ts.Arith(o, xv, yv)
			}
			if yv.w < xv.w {
				return ts.Arith(o, xv, ts.Zext(yv, xv.w))
			}
			big := ts.Not(ts.Cmp(OpUlt, yv, ts.BV(yv.w, uint64(xv.w))))
			small := ts.Arith(o, xv, ts.Extract(yv, xv.w-1, 0))
			var over *Term
			if o == OpAShr {
				over = ts.Arith(OpAShr, xv, ts.BV(xv.w, uint64(xv.w-1)))
			} else {
				over = ts.BV(xv.w, 0)
			}
			return ts.Ite(big, over, small)
		case token.EQL:
			return ts.Eq(xv, yv)
		case token.NEQ:
			return ts.Ne(xv, yv)
		}
		if signed && xv.w == 64 {
			if r := in.linearSignCmp(op, xv, yv); r != nil {
				return r
			}
		}
		switch op {
		case token.LSS:
			if signed {
				return ts.Cmp(OpSlt, xv, yv)
			}
			return ts.Cmp(OpUlt, xv, yv)
		case token.LEQ:
			if signed {
				return ts.Cmp(OpSle, xv, yv)
			}
			return ts.Cmp(OpUle, xv, yv)
		case token.GTR:
			if signed {
				return ts.Cmp(OpSlt, yv, xv)
			}
			return ts.Cmp(OpUlt, yv, xv)
		case token.GEQ:
			if signed {
				return ts.Cmp(OpSle, yv, xv)
			}
			return ts.Cmp(OpUle, yv, xv)
		}
	case float64:
		yv, ok := y.(float64)
		if !ok {
			break
		}
		f32 := false
		if b, ok := under(xt).(*types.Basic); ok && b.Kind() == types.Float32 {
			f32 = true
		}
		rnd := func(f float64) value {
			if f32 {
				return float64(float32(f))
			}
			return f
		}
		switch op {
		case token.ADD:
			return rnd(xv + yv)
		case token.SUB:
			return rnd(xv - yv)
		case token.MUL:
			return rnd(xv * yv)
		case token.QUO:
			return rnd(xv / yv)
		case token.EQL:
			return ts.Bool(xv == yv)
		case token.NEQ:
			return ts.Bool(xv != yv)
		case token.LSS:
			return ts.Bool(xv < yv)
		case token.LEQ:
			return ts.Bool(xv <= yv)
		case token.GTR:
			return ts.Bool(xv > yv)
		case token.GEQ:
			return ts.Bool(xv >= yv)
		}
	case string, *symStr, *decStr:
		switch op {
		case token.ADD:
			sx, okx := concreteString(x)
			sy, oky := concreteString(y)
			if okx && oky {
				return sx + sy
			}
			if okx && sx == "" {
				return y
			}
			if oky && sy == "" {
				return x
			}
			return mkStr(append(append([]*Term(nil), in.strBytes(x)...), in.strBytes(y)...))
		case token.EQL:
			return in.strEq(x, y)
		case token.NEQ:
			return ts.Not(in.strEq(x, y))
		case token.LSS, token.LEQ, token.GTR, token.GEQ:
			sx, okx := concreteString(x)
			sy, oky := concreteString(y)
			if okx && oky {
				switch op {
				case token.LSS:
					return ts.Bool(sx < sy)
				case token.LEQ:
					return ts.Bool(sx <= sy)
				case token.GTR:
					return ts.Bool(sx > sy)
				case token.GEQ:
					return ts.Bool(sx >= sy)
				}
			}
			return in.strLess(op, x, y)
		}
	}
	switch op {
	case token.EQL:
		return in.equals(xt, x, y)
	case token.NEQ:
		return ts.Not(in.equals(xt, x, y))
	}
	panic(unsupported(fmt.Sprintf("binop %s on %T, %T", op, x, y)))
}

// strLess builds lexicographic comparison over symbolic bytes.
func (in *Interp) strLess(op token.Token, x, y value) *Term {
	ts := in.ts
	bx, by := in.strBytes(x), in.strBytes(y)
	// lt / eq computed from the end
	n := len(bx)
	if len(by) < n {
		n = len(by)
	}
	lt := ts.Bool(len(bx) < len(by))
	eq := ts.Bool(len(bx) == len(by))
	for i := n - 1; i >= 0; i-- {
		bl := ts.Cmp(OpUlt, bx[i], by[i])
		be := ts.Eq(bx[i], by[i])
		lt = ts.Or(bl, ts.And(be, lt))
		eq = ts.And(be, eq)
	}
	switch op {
	case token.LSS:
		return lt
	case token.LEQ:
		return ts.Or(lt, eq)
	case token.GTR:
		return ts.Not(ts.Or(lt, eq))
	default:
		return ts.Not(lt)
	}
}

func (in *Interp) convert(from, to types.Type, x value) value {
	ts := in.ts
	uf, ut := under(from), under(to)
	// pointer <-> unsafe.Pointer and friends: identity
	switch ut.(type) {
	case *types.Pointer, *types.Signature, *types.Map, *types.Chan, *types.Interface:
		return x
	}
	if b, ok := ut.(*types.Basic); ok && b.Kind() == types.UnsafePointer {
		return x
	}
	fw, fsigned, fint := intInfo(from)
	tw, _, tint := intInfo(to)
	if fint && tint && fw > 0 && tw > 0 {
		t := x.(*Term)
		if tw <= fw {
			return ts.Zext(t, tw) // Zext truncates when narrower
		}
		if fsigned {
			return ts.Sext(t, tw)
		}
		return ts.Zext(t, tw)
	}
	if fint && isFloat(to) {
		t := x.(*Term)
		if !t.IsConst() {
			// opaque: only metrics and log lines consume such values; any arithmetic on it is refused
			return symFloat{t}
		}
		var f float64
		if fsigned {
			f = float64(t.SVal())
		} else {
			f = float64(t.val)
		}
		if b := ut.(*types.Basic); b.Kind() == types.Float32 {
			f = float64(float32(f))
		}
		return f
	}
	if isFloat(from) && tint {
		f := x.(float64)
		_, tsigned, _ := intInfo(to)
		if tsigned {
			return ts.BV(tw, uint64(int64(f)))
		}
		if f < 0 {
			return ts.BV(tw, uint64(int64(f)))
		}
		if f >= math.MaxUint64 {
			return ts.BV(tw, math.MaxUint64)
		}
		return ts.BV(tw, uint64(f))
	}
	if isFloat(from) && isFloat(to) {
		f := x.(float64)
		if b := ut.(*types.Basic); b.Kind() == types.Float32 {
			return float64(float32(f))
		}
		return f
	}
	if isString(to) {
		if fint {
			t := x.(*Term)
			if !t.IsConst() {
				panic(unsupported("string(symbolic rune)"))
			}
			r := rune(t.SVal())
			if !fsigned && t.val > 0x10FFFF {
				r = utf8.RuneError
			}
			return string(r)
		}
		if isString(from) {
			return x
		}
		if sl, ok := uf.(*types.Slice); ok {
			ew, _, _ := intInfo(sl.Elem())
			elems := x.([]value)
			if ew == 8 {
				b := make([]*Term, len(elems))
				for i, e := range elems {
					b[i] = e.(*Term)
				}
				return mkStr(b)
			}
			// []rune
			var rs []rune
			allConst := true
			for _, e := range elems {
				if !e.(*Term).IsConst() {
					allConst = false
				}
			}
			if !allConst {
				// symbolic runes: only ASCII ones can be rendered without UTF-8 encoding over terms
				var b []*Term
				for _, e := range elems {
					t := e.(*Term)
					if !in.branch(ts.Not(ts.Cmp(OpUlt, t, ts.BV(t.w, 0x80)))) {
						b = append(b, ts.Extract(t, 7, 0))
						continue
					}
					if in.branch(ts.Not(ts.Cmp(OpUlt, t, ts.BV(t.w, 0x800)))) {
						panic(unsupported("string([]rune) with symbolic runes >= 0x800 at " + in.where()))
					}
					// two-byte UTF-8: 110xxxxx 10xxxxxx
					b = append(b, ts.Concat(ts.BV(3, 6), ts.Extract(t, 10, 6)), ts.Concat(ts.BV(2, 2), ts.Extract(t, 5, 0)))
				}
				return mkStr(b)
			}
			for _, e := range elems {
				rs = append(rs, rune(e.(*Term).SVal()))
			}
			return string(rs)
		}
	}
	if sl, ok := ut.(*types.Slice); ok && isString(from) {
		ew, _, _ := intInfo(sl.Elem())
		if ew == 8 {
			b := in.strBytes(x)
			out := make([]value, len(b))
			for i, t := range b {
				out[i] = t
			}
			return out
		}
		s, ok := concreteString(x)
		if !ok {
			panic(unsupported("[]rune(symbolic string)"))
		}
		var out []value
		for _, r := range s {
			out = append(out, ts.BV(32, uint64(r)))
		}
		if out == nil {
			out = []value{}
		}
		return out
	}
	if _, ok := ut.(*types.Slice); ok {
		return x
	}
	if _, ok := ut.(*types.Struct); ok {
		return x
	}
	if _, ok := ut.(*types.Array); ok {
		return x
	}
	if fint && tint {
		return x // bool to bool
	}
	panic(unsupported(fmt.Sprintf("conversion %s -> %s at %s", from, to, in.where())))
}

// divByConst encodes x / c and x % c for a constant c that is not a power of two by witness
// variables q, r with x = q*c + r and the range/sign side conditions that make (q, r) unique.
// A constant multiplier is far cheaper for the bit-blasting back ends than a divider circuit.
func (in *Interp) divByConst(x, c *Term, signed bool) (q, r *Term, ok bool) {
	ts := in.ts
	w := x.w
	if w < 16 {
		return nil, nil, false
	}
	cv := c.val
	if signed {
		sc := sext(cv, w)
		if sc <= 1 || sc&(sc-1) == 0 {
			return nil, nil, false // negative, 1 or power of two: the generic encoding is fine
		}
	} else if cv <= 1 || cv&(cv-1) == 0 {
		return nil, nil, false
	}
	key := fmt.Sprintf("div:%d:%d:%v", x.id, cv, signed)
	if p, found := in.ghost[key].([2]*Term); found {
		return p[0], p[1], true
	}
	if x.IsConst() {
		if signed {
			return ts.Arith(OpSDiv, x, c), ts.Arith(OpSRem, x, c), true
		}
		return ts.Arith(OpUDiv, x, c), ts.Arith(OpURem, x, c), true
	}
	if x.op == OpIte {
		q1, r1, ok1 := in.divByConst(x.a[1], c, signed)
		q2, r2, ok2 := in.divByConst(x.a[2], c, signed)
		if ok1 && ok2 {
			q, r = ts.Ite(x.a[0], q1, q2), ts.Ite(x.a[0], r1, r2)
			in.ghost[key] = [2]*Term{q, r}
			return q, r, true
		}
	}
	if signed {
		if q, r, ok := in.divLinear(x, c); ok {
			in.ghost[key] = [2]*Term{q, r}
			return q, r, true
		}
	}
	if q, r, ok := in.divLinearMultiple(x, c, signed); ok {
		in.ghost[key] = [2]*Term{q, r}
		return q, r, true
	}
	// range shortcut: 0 <= x < c (confirmed by the solver) gives q = 0, r = x
	{
		var inR *Term
		if signed {
			inR = ts.And(ts.Cmp(OpSle, ts.BV(w, 0), x), ts.Cmp(OpSlt, x, c))
		} else {
			inR = ts.Cmp(OpUlt, x, c)
		}
		if res, _ := in.ctx.Check(ts.Not(inR), in.ctx.branchTO, nil); res == Unsat {
			in.ghost[key] = [2]*Term{ts.BV(w, 0), x}
			return ts.BV(w, 0), x, true
		}
	}
	q = in.fresh("divq", w)
	r = in.fresh("divr", w)
	zero := ts.BV(w, 0)
	eq := ts.Eq(x, ts.Arith(OpAdd, ts.Arith(OpMul, q, c), r))
	var side *Term
	if signed {
		maxv := int64(mask(w) >> 1)
		minv := -maxv - 1
		sc := sext(cv, w)
		qmax := ts.BV(w, uint64(maxv/sc))
		qmin := ts.BV(w, uint64(minv/sc))
		xneg := ts.Cmp(OpSlt, x, zero)
		side = ts.And(ts.Cmp(OpSle, qmin, q), ts.Cmp(OpSle, q, qmax))
		side = ts.And(side, ts.Ite(xneg,
			ts.And(ts.And(ts.Cmp(OpSlt, ts.BV(w, uint64(-sc)), r), ts.Cmp(OpSle, r, zero)), ts.Cmp(OpSle, q, zero)),
			ts.And(ts.And(ts.Cmp(OpSle, zero, r), ts.Cmp(OpSlt, r, c)), ts.Cmp(OpSle, zero, q))))
	} else {
		qmax := ts.BV(w, mask(w)/cv)
		side = ts.And(ts.Cmp(OpUle, q, qmax), ts.Cmp(OpUlt, r, c))
		// q*c + r must not wrap: q*c <= x
		side = ts.And(side, ts.Cmp(OpUle, ts.Arith(OpMul, q, c), x))
	}
	in.ctx.AddPC(ts.And(eq, side))
	in.ghost[key] = [2]*Term{q, r}
	in.noteModelName("x / c, x % c for constant c encoded by witnesses q, r with x = q*c + r (unique by range and sign side conditions)")
	return q, r, true
}

// linearForm matches x = s*c + k (or s*c) syntactically for the given constant c.
func linearForm(x, c *Term) (s, k *Term, ok bool) {
	isMulC := func(t *Term) (*Term, bool) {
		if t.op == OpMul && t.a[1] == c {
			return t.a[0], true
		}
		if t.op == OpMul && t.a[0] == c {
			return t.a[1], true
		}
		return nil, false
	}
	if s, ok := isMulC(x); ok {
		return s, nil, true
	}
	if x.op == OpAdd {
		if s, ok := isMulC(x.a[0]); ok {
			return s, x.a[1], true
		}
		if s, ok := isMulC(x.a[1]); ok {
			return s, x.a[0], true
		}
	}
	return nil, nil, false
}

// divLinear computes x/c and x%c exactly when x is syntactically s*c + k and the solver
// confirms, under the path condition, that s*c does not overflow and |k| < c.
func (in *Interp) divLinear(x, c *Term) (q, r *Term, ok bool) {
	ts := in.ts
	s, k, ok := linearForm(x, c)
	if !ok {
		return nil, nil, false
	}
	w := x.w
	sc := sext(c.val, w)
	maxv := int64(mask(w) >> 1)
	// leave room for k: |s| <= max/c - 1
	lim := maxv/sc - 1
	inRange := ts.And(ts.Cmp(OpSle, ts.BV(w, uint64(-lim)), s), ts.Cmp(OpSle, s, ts.BV(w, uint64(lim))))
	if k != nil {
		inRange = ts.And(inRange, ts.And(ts.Cmp(OpSlt, ts.BV(w, uint64(-sc)), k), ts.Cmp(OpSlt, k, c)))
	}
	if res, _ := in.ctx.Check(ts.Not(inRange), in.ctx.branchTO, nil); res != Unsat {
		return nil, nil, false
	}
	in.noteModelName("(s*c + k) / c and % c computed exactly after the solver confirmed the no-overflow range of s and |k| < c")
	zero := ts.BV(w, 0)
	if k == nil {
		return s, zero, true
	}
	one := ts.BV(w, 1)
	kpos := ts.Cmp(OpSlt, zero, k)
	kneg := ts.Cmp(OpSlt, k, zero)
	szero := ts.Eq(s, zero)
	// sign of x = s*c + k with |k| < c and no overflow: decided by s, then by k
	xpos := ts.Or(ts.Cmp(OpSlt, zero, s), ts.And(szero, kpos))
	xneg := ts.Or(ts.Cmp(OpSlt, s, zero), ts.And(szero, kneg))
	down := ts.And(xpos, kneg) // q = s-1, r = k+c
	up := ts.And(xneg, kpos)   // q = s+1, r = k-c
	q = ts.Ite(down, ts.Arith(OpSub, s, one), ts.Ite(up, ts.Arith(OpAdd, s, one), s))
	r = ts.Ite(down, ts.Arith(OpAdd, k, c), ts.Ite(up, ts.Arith(OpSub, k, c), k))
	return q, r, true
}

// linearSignCmp rewrites a signed comparison of x = s*c + k with zero into conditions on s and
// k (no multiplier), after the solver confirmed the no-overflow range of s and |k| < c.
func (in *Interp) linearSignCmp(op token.Token, x, y *Term) *Term {
	ts := in.ts
	flip := false
	if x.IsConst() && x.val == 0 && !y.IsConst() {
		x, y = y, x
		flip = true
	}
	if !(y.IsConst() && y.val == 0) || x.IsConst() {
		return nil
	}
	var c *Term
	find := func(t *Term) {
		if t.op == OpMul && t.a[1].IsConst() && sext(t.a[1].val, t.w) >= 1000 {
			c = t.a[1]
		}
	}
	find(x)
	if c == nil && x.op == OpAdd {
		find(x.a[0])
		if c == nil {
			find(x.a[1])
		}
	}
	if c == nil {
		return nil
	}
	key := fmt.Sprintf("sign:%d", x.id)
	var neg, pos *Term
	if p, ok := in.ghost[key].([2]*Term); ok {
		neg, pos = p[0], p[1]
	} else {
		s, k, ok := linearForm(x, c)
		if !ok {
			return nil
		}
		w := x.w
		sc := sext(c.val, w)
		lim := int64(mask(w)>>1)/sc - 1
		inRange := ts.And(ts.Cmp(OpSle, ts.BV(w, uint64(-lim)), s), ts.Cmp(OpSle, s, ts.BV(w, uint64(lim))))
		zero := ts.BV(w, 0)
		kpos, kneg := ts.False, ts.False
		if k != nil {
			inRange = ts.And(inRange, ts.And(ts.Cmp(OpSlt, ts.BV(w, uint64(-sc)), k), ts.Cmp(OpSlt, k, c)))
			kpos, kneg = ts.Cmp(OpSlt, zero, k), ts.Cmp(OpSlt, k, zero)
		}
		if res, _ := in.ctx.Check(ts.Not(inRange), in.ctx.branchTO, nil); res != Unsat {
			in.ghost[key] = [2]*Term{nil, nil}
			return nil
		}
		szero := ts.Eq(s, zero)
		pos = ts.Or(ts.Cmp(OpSlt, zero, s), ts.And(szero, kpos))
		neg = ts.Or(ts.Cmp(OpSlt, s, zero), ts.And(szero, kneg))
		in.ghost[key] = [2]*Term{neg, pos}
		in.noteModelName("sign of s*c + k decided from s and k after the solver confirmed the no-overflow range")
	}
	if neg == nil {
		return nil
	}
	if flip {
		// 0 op x  ==  x op' 0
		switch op {
		case token.LSS:
			op = token.GTR
		case token.LEQ:
			op = token.GEQ
		case token.GTR:
			op = token.LSS
		case token.GEQ:
			op = token.LEQ
		}
	}
	switch op {
	case token.LSS:
		return neg
	case token.GEQ:
		return ts.Not(neg)
	case token.GTR:
		return pos
	case token.LEQ:
		return ts.Not(pos)
	}
	return nil
}

// divLinearMultiple handles x = s*C + k divided by c where C = m*c, for non-negative s and
// 0 <= k < C (confirmed by the solver): x/c = s*m + k/c, x%c = k%c.
func (in *Interp) divLinearMultiple(x, c *Term, signed bool) (q, r *Term, ok bool) {
	ts := in.ts
	w := x.w
	if x.op != OpAdd && x.op != OpMul {
		return nil, nil, false
	}
	var big *Term
	find := func(t *Term) {
		if t.op == OpMul && t.a[1].IsConst() && t.a[1].val > c.val && t.a[1].val%c.val == 0 {
			big = t.a[1]
		}
	}
	find(x)
	if big == nil && x.op == OpAdd {
		find(x.a[0])
		if big == nil {
			find(x.a[1])
		}
	}
	if big == nil {
		return nil, nil, false
	}
	s, k, okf := linearForm(x, big)
	if !okf {
		return nil, nil, false
	}
	C := big.val
	m := C / c.val
	lim := (mask(w) >> 1) / C
	if lim < 2 {
		return nil, nil, false
	}
	zero := ts.BV(w, 0)
	var cond *Term
	if signed {
		cond = ts.And(ts.Cmp(OpSle, zero, s), ts.Cmp(OpSle, s, ts.BV(w, lim-1)))
		if k != nil {
			cond = ts.And(cond, ts.And(ts.Cmp(OpSle, zero, k), ts.Cmp(OpSlt, k, big)))
		}
	} else {
		cond = ts.Cmp(OpUle, s, ts.BV(w, lim-1))
		if k != nil {
			cond = ts.And(cond, ts.Cmp(OpUlt, k, big))
		}
	}
	if res, _ := in.ctx.Check(ts.Not(cond), in.ctx.branchTO, nil); res != Unsat {
		return nil, nil, false
	}
	in.noteModelName("(s*C + k) / c with c | C computed as s*(C/c) + k/c after the solver confirmed 0 <= s, 0 <= k < C and no overflow")
	sm := ts.Arith(OpMul, s, ts.BV(w, m))
	if k == nil {
		return sm, zero, true
	}
	kq, kr, okk := in.divByConst(k, c, signed)
	if !okk {
		if signed {
			kq, kr = ts.Arith(OpSDiv, k, c), ts.Arith(OpSRem, k, c)
		} else {
			kq, kr = ts.Arith(OpUDiv, k, c), ts.Arith(OpURem, k, c)
		}
	}
	return ts.Arith(OpAdd, sm, kq), kr, true
}
