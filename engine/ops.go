package main

import (
	"fmt"
	"go/token"
	"go/types"
	"math"
	"unicode/utf8"
)

func (in *Interp) binop(op token.Token, xt types.Type, x, y value, yt types.Type) value {
	ts := in.ts
	switch xv := x.(type) {
	case *Term:
		yv, ok := y.(*Term)
		if !ok {
			break
		}
		w, signed, _ := intInfo(xt)
		if xv.w == 0 {
			switch op {
			case token.EQL:
				return ts.Eq(xv, yv)
			case token.NEQ:
				return ts.Ne(xv, yv)
			case token.AND, token.LAND:
				return ts.And(xv, yv)
			case token.OR, token.LOR:
				return ts.Or(xv, yv)
			}
			panic(unsupported("bool binop " + op.String()))
		}
		_ = w
		switch op {
		case token.ADD:
			return ts.Arith(OpAdd, xv, yv)
		case token.SUB:
			return ts.Arith(OpSub, xv, yv)
		case token.MUL:
			return ts.Arith(OpMul, xv, yv)
		case token.QUO, token.REM:
			in.panicIf(ts.Eq(yv, ts.BV(yv.w, 0)), "integer divide by zero")
			var o Op
			switch {
			case op == token.QUO && signed:
				o = OpSDiv
			case op == token.QUO:
				o = OpUDiv
			case signed:
				o = OpSRem
			default:
				o = OpURem
			}
			return ts.Arith(o, xv, yv)
		case token.AND:
			return ts.Arith(OpBAnd, xv, yv)
		case token.OR:
			return ts.Arith(OpBOr, xv, yv)
		case token.XOR:
			return ts.Arith(OpBXor, xv, yv)
		case token.AND_NOT:
			return ts.Arith(OpBAnd, xv, ts.BNot(yv))
		case token.SHL, token.SHR:
			_, ysigned, _ := intInfo(yt)
			if ysigned {
				in.panicIf(ts.Cmp(OpSlt, yv, ts.BV(yv.w, 0)), "negative shift amount")
			}
			var o Op
			switch {
			case op == token.SHL:
				o = OpShl
			case signed:
				o = OpAShr
			default:
				o = OpLShr
			}
			if yv.w == xv.w {
				return ts.Arith(o, xv, yv)
			}
			if yv.w < xv.w {
				return ts.Arith(o, xv, ts.Zext(yv, xv.w))
			}
			big := ts.Not(ts.Cmp(OpUlt, yv, ts.BV(yv.w, uint64(xv.w))))
			small := ts.Arith(o, xv, ts.Extract(yv, xv.w-1, 0))
			var over *Term
			if o == OpAShr {
				over = ts.Arith(OpAShr, xv, ts.BV(xv.w, uint64(xv.w-1)))
			} else {
				over = ts.BV(xv.w, 0)
			}
			return ts.Ite(big, over, small)
		case token.EQL:
			return ts.Eq(xv, yv)
		case token.NEQ:
			return ts.Ne(xv, yv)
		case token.LSS:
			if signed {
				return ts.Cmp(OpSlt, xv, yv)
			}
			return ts.Cmp(OpUlt, xv, yv)
		case token.LEQ:
			if signed {
				return ts.Cmp(OpSle, xv, yv)
			}
			return ts.Cmp(OpUle, xv, yv)
		case token.GTR:
			if signed {
				return ts.Cmp(OpSlt, yv, xv)
			}
			return ts.Cmp(OpUlt, yv, xv)
		case token.GEQ:
			if signed {
				return ts.Cmp(OpSle, yv, xv)
			}
			return ts.Cmp(OpUle, yv, xv)
		}
	case float64:
		yv, ok := y.(float64)
		if !ok {
			break
		}
		f32 := false
		if b, ok := under(xt).(*types.Basic); ok && b.Kind() == types.Float32 {
			f32 = true
		}
		rnd := func(f float64) value {
			if f32 {
				return float64(float32(f))
			}
			return f
		}
		switch op {
		case token.ADD:
			return rnd(xv + yv)
		case token.SUB:
			return rnd(xv - yv)
		case token.MUL:
			return rnd(xv * yv)
		case token.QUO:
			return rnd(xv / yv)
		case token.EQL:
			return ts.Bool(xv == yv)
		case token.NEQ:
			return ts.Bool(xv != yv)
		case token.LSS:
			return ts.Bool(xv < yv)
		case token.LEQ:
			return ts.Bool(xv <= yv)
		case token.GTR:
			return ts.Bool(xv > yv)
		case token.GEQ:
			return ts.Bool(xv >= yv)
		}
	case string, *symStr, *decStr:
		switch op {
		case token.ADD:
			sx, okx := concreteString(x)
			sy, oky := concreteString(y)
			if okx && oky {
				return sx + sy
			}
			if okx && sx == "" {
				return y
			}
			if oky && sy == "" {
				return x
			}
			return mkStr(append(append([]*Term(nil), in.strBytes(x)...), in.strBytes(y)...))
		case token.EQL:
			return in.strEq(x, y)
		case token.NEQ:
			return ts.Not(in.strEq(x, y))
		case token.LSS, token.LEQ, token.GTR, token.GEQ:
			sx, okx := concreteString(x)
			sy, oky := concreteString(y)
			if okx && oky {
				switch op {
				case token.LSS:
					return ts.Bool(sx < sy)
				case token.LEQ:
					return ts.Bool(sx <= sy)
				case token.GTR:
					return ts.Bool(sx > sy)
				case token.GEQ:
					return ts.Bool(sx >= sy)
				}
			}
			return in.strLess(op, x, y)
		}
	}
	switch op {
	case token.EQL:
		return in.equals(xt, x, y)
	case token.NEQ:
		return ts.Not(in.equals(xt, x, y))
	}
	panic(unsupported(fmt.Sprintf("binop %s on %T, %T", op, x, y)))
}

// strLess builds lexicographic comparison over symbolic bytes.
func (in *Interp) strLess(op token.Token, x, y value) *Term {
	ts := in.ts
	bx, by := in.strBytes(x), in.strBytes(y)
	// lt / eq computed from the end
	n := len(bx)
	if len(by) < n {
		n = len(by)
	}
	lt := ts.Bool(len(bx) < len(by))
	eq := ts.Bool(len(bx) == len(by))
	for i := n - 1; i >= 0; i-- {
		bl := ts.Cmp(OpUlt, bx[i], by[i])
		be := ts.Eq(bx[i], by[i])
		lt = ts.Or(bl, ts.And(be, lt))
		eq = ts.And(be, eq)
	}
	switch op {
	case token.LSS:
		return lt
	case token.LEQ:
		return ts.Or(lt, eq)
	case token.GTR:
		return ts.Not(ts.Or(lt, eq))
	default:
		return ts.Not(lt)
	}
}

func (in *Interp) convert(from, to types.Type, x value) value {
	ts := in.ts
	uf, ut := under(from), under(to)
	// pointer <-> unsafe.Pointer and friends: identity
	switch ut.(type) {
	case *types.Pointer, *types.Signature, *types.Map, *types.Chan, *types.Interface:
		return x
	}
	if b, ok := ut.(*types.Basic); ok && b.Kind() == types.UnsafePointer {
		return x
	}
	fw, fsigned, fint := intInfo(from)
	tw, _, tint := intInfo(to)
	if fint && tint && fw > 0 && tw > 0 {
		t := x.(*Term)
		if tw <= fw {
			return ts.Zext(t, tw) // Zext truncates when narrower
		}
		if fsigned {
			return ts.Sext(t, tw)
		}
		return ts.Zext(t, tw)
	}
	if fint && isFloat(to) {
		t := x.(*Term)
		if !t.IsConst() {
			panic(unsupported("conversion of a symbolic integer to float"))
		}
		var f float64
		if fsigned {
			f = float64(t.SVal())
		} else {
			f = float64(t.val)
		}
		if b := ut.(*types.Basic); b.Kind() == types.Float32 {
			f = float64(float32(f))
		}
		return f
	}
	if isFloat(from) && tint {
		f := x.(float64)
		_, tsigned, _ := intInfo(to)
		if tsigned {
			return ts.BV(tw, uint64(int64(f)))
		}
		if f < 0 {
			return ts.BV(tw, uint64(int64(f)))
		}
		if f >= math.MaxUint64 {
			return ts.BV(tw, math.MaxUint64)
		}
		return ts.BV(tw, uint64(f))
	}
	if isFloat(from) && isFloat(to) {
		f := x.(float64)
		if b := ut.(*types.Basic); b.Kind() == types.Float32 {
			return float64(float32(f))
		}
		return f
	}
	if isString(to) {
		if fint {
			t := x.(*Term)
			if !t.IsConst() {
				panic(unsupported("string(symbolic rune)"))
			}
			r := rune(t.SVal())
			if !fsigned && t.val > 0x10FFFF {
				r = utf8.RuneError
			}
			return string(r)
		}
		if isString(from) {
			return x
		}
		if sl, ok := uf.(*types.Slice); ok {
			ew, _, _ := intInfo(sl.Elem())
			elems := x.([]value)
			if ew == 8 {
				b := make([]*Term, len(elems))
				for i, e := range elems {
					b[i] = e.(*Term)
				}
				return mkStr(b)
			}
			// []rune
			var rs []rune
			for _, e := range elems {
				t := e.(*Term)
				if !t.IsConst() {
					panic(unsupported("string([]rune) with symbolic runes"))
				}
				rs = append(rs, rune(t.SVal()))
			}
			return string(rs)
		}
	}
	if sl, ok := ut.(*types.Slice); ok && isString(from) {
		ew, _, _ := intInfo(sl.Elem())
		if ew == 8 {
			b := in.strBytes(x)
			out := make([]value, len(b))
			for i, t := range b {
				out[i] = t
			}
			return out
		}
		s, ok := concreteString(x)
		if !ok {
			panic(unsupported("[]rune(symbolic string)"))
		}
		var out []value
		for _, r := range s {
			out = append(out, ts.BV(32, uint64(r)))
		}
		if out == nil {
			out = []value{}
		}
		return out
	}
	if _, ok := ut.(*types.Slice); ok {
		return x
	}
	if _, ok := ut.(*types.Struct); ok {
		return x
	}
	if _, ok := ut.(*types.Array); ok {
		return x
	}
	if fint && tint {
		return x // bool to bool
	}
	panic(unsupported(fmt.Sprintf("conversion %s -> %s", from, to)))
}
