package main

// Model of package reflect: types are concrete (go/types), values are interpreter values.
// reflect.Type is an interface whose dynamic type is the engine type "rtype"; reflect.Value is
// the engine value rvalue. All entry points are intrinsics, so the real representation is
// never inspected by interpreted code.

import (
	"fmt"
	"go/token"
	"go/types"
	"strings"

	"golang.org/x/tools/go/ssa"
)

var rtypeNamed = types.NewNamed(types.NewTypeName(token.NoPos, types.NewPackage("gosym", "gosym"), "rtype", nil), types.NewStruct(nil, nil), nil)

var stdSizes = types.SizesFor("gc", "amd64")

func mkType(t types.Type) value { return iface{t: rtypeNamed, v: rtype{t}} }

func typeOfArg(v value) types.Type {
	i, ok := v.(iface)
	if !ok || i.t == nil {
		panic(goPanic{iface{t: types.Typ[types.String], v: "reflect: nil Type"}})
	}
	return i.v.(rtype).t
}

func reflectKind(t types.Type) uint64 {
	switch u := t.Underlying().(type) {
	case *types.Basic:
		switch u.Kind() {
		case types.Bool:
			return 1
		case types.Int:
			return 2
		case types.Int8:
			return 3
		case types.Int16:
			return 4
		case types.Int32:
			return 5
		case types.Int64:
			return 6
		case types.Uint:
			return 7
		case types.Uint8:
			return 8
		case types.Uint16:
			return 9
		case types.Uint32:
			return 10
		case types.Uint64:
			return 11
		case types.Uintptr:
			return 12
		case types.Float32:
			return 13
		case types.Float64:
			return 14
		case types.Complex64:
			return 15
		case types.Complex128:
			return 16
		case types.String:
			return 24
		case types.UnsafePointer:
			return 26
		}
	case *types.Array:
		return 17
	case *types.Chan:
		return 18
	case *types.Signature:
		return 19
	case *types.Interface:
		return 20
	case *types.Map:
		return 21
	case *types.Pointer:
		return 22
	case *types.Slice:
		return 23
	case *types.Struct:
		return 25
	}
	panic(unsupported("reflect.Kind of " + t.String()))
}

func reflectTypeString(t types.Type) string {
	return types.TypeString(t, func(p *types.Package) string { return p.Name() })
}

func (rv rvalue) get() value {
	if rv.ptr != nil {
		return *rv.ptr
	}
	return rv.v
}

func reflPanic(msg string) {
	panic(goPanic{iface{t: types.Typ[types.String], v: msg}})
}

func (in *Interp) rvArg(v value) rvalue {
	rv, ok := v.(rvalue)
	if !ok {
		panic(fmt.Sprintf("reflect.Value expected, got %T", v))
	}
	return rv
}

func (in *Interp) mustValid(rv rvalue, op string) {
	if rv.t == nil {
		reflPanic("reflect: call of reflect.Value." + op + " on zero Value")
	}
}

func (in *Interp) rvInterface(rv rvalue) value {
	in.mustValid(rv, "Interface")
	if _, ok := under(rv.t).(*types.Interface); ok {
		v := rv.get()
		if i, ok := v.(iface); ok {
			return i
		}
		return iface{}
	}
	return iface{t: rv.t, v: copyVal(rv.get())}
}

func isExportedName(n string) bool { return n != "" && n[0] >= 'A' && n[0] <= 'Z' }

func (in *Interp) structField(t types.Type, i int) value {
	st := under(t).(*types.Struct)
	f := st.Field(i)
	pkg := ""
	if !f.Exported() && f.Pkg() != nil {
		pkg = f.Pkg().Path()
	}
	return structure{
		f.Name(),
		pkg,
		mkType(f.Type()),
		st.Tag(i),
		in.ts.BV(64, 0),
		[]value{in.ts.BV(64, uint64(i))},
		in.ts.Bool(f.Anonymous()),
	}
}

func rtMethod(name string, f func(in *Interp, t types.Type, args []value) value) (string, *boundIntrinsic) {
	return name, &boundIntrinsic{name: "reflect.rtype." + name, fn: func(fr *frame, args []value) value {
		return f(fr.in, args[0].(rtype).t, args[1:])
	}}
}

var rtypeMethods = map[string]*boundIntrinsic{}

func addRT(name string, f func(in *Interp, t types.Type, args []value) value) {
	n, b := rtMethod(name, f)
	rtypeMethods[n] = b
}

func elemOf(t types.Type) types.Type {
	switch u := under(t).(type) {
	case *types.Pointer:
		return u.Elem()
	case *types.Slice:
		return u.Elem()
	case *types.Array:
		return u.Elem()
	case *types.Map:
		return u.Elem()
	case *types.Chan:
		return u.Elem()
	}
	reflPanic("reflect: Elem of invalid type " + t.String())
	return nil
}

func init() {
	addRT("Kind", func(in *Interp, t types.Type, a []value) value { return in.ts.BV(64, reflectKind(t)) })
	addRT("Elem", func(in *Interp, t types.Type, a []value) value { return mkType(elemOf(t)) })
	addRT("Key", func(in *Interp, t types.Type, a []value) value { return mkType(under(t).(*types.Map).Key()) })
	addRT("Len", func(in *Interp, t types.Type, a []value) value {
		return in.ts.BV(64, uint64(under(t).(*types.Array).Len()))
	})
	addRT("NumField", func(in *Interp, t types.Type, a []value) value {
		st, ok := under(t).(*types.Struct)
		if !ok {
			reflPanic("reflect: NumField of non-struct type " + t.String())
		}
		return in.ts.BV(64, uint64(st.NumFields()))
	})
	addRT("Field", func(in *Interp, t types.Type, a []value) value {
		i := in.concreteInt(a[0], "reflect Field index")
		st, ok := under(t).(*types.Struct)
		if !ok || i < 0 || i >= st.NumFields() {
			reflPanic("reflect: Field index out of bounds")
		}
		return in.structField(t, i)
	})
	addRT("NumMethod", func(in *Interp, t types.Type, a []value) value {
		if it, ok := under(t).(*types.Interface); ok {
			return in.ts.BV(64, uint64(it.NumMethods()))
		}
		ms := in.P.prog.MethodSets.MethodSet(t)
		n := 0
		for i := 0; i < ms.Len(); i++ {
			if ms.At(i).Obj().Exported() {
				n++
			}
		}
		return in.ts.BV(64, uint64(n))
	})
	addRT("Name", func(in *Interp, t types.Type, a []value) value {
		switch t := types.Unalias(t).(type) {
		case *types.Named:
			return t.Obj().Name()
		case *types.Basic:
			return t.Name()
		}
		return ""
	})
	addRT("PkgPath", func(in *Interp, t types.Type, a []value) value {
		if n, ok := types.Unalias(t).(*types.Named); ok && n.Obj().Pkg() != nil {
			return n.Obj().Pkg().Path()
		}
		return ""
	})
	addRT("String", func(in *Interp, t types.Type, a []value) value { return reflectTypeString(t) })
	addRT("Size", func(in *Interp, t types.Type, a []value) value {
		return in.ts.BV(64, uint64(stdSizes.Sizeof(t)))
	})
	addRT("Bits", func(in *Interp, t types.Type, a []value) value {
		return in.ts.BV(64, uint64(stdSizes.Sizeof(t))*8)
	})
	addRT("Implements", func(in *Interp, t types.Type, a []value) value {
		u := typeOfArg(a[0])
		it, ok := under(u).(*types.Interface)
		if !ok {
			reflPanic("reflect: non-interface type passed to Type.Implements")
		}
		return in.ts.Bool(types.Implements(t, it))
	})
	addRT("AssignableTo", func(in *Interp, t types.Type, a []value) value {
		return in.ts.Bool(types.AssignableTo(t, typeOfArg(a[0])))
	})
	addRT("ConvertibleTo", func(in *Interp, t types.Type, a []value) value {
		return in.ts.Bool(types.ConvertibleTo(t, typeOfArg(a[0])))
	})
	addRT("Comparable", func(in *Interp, t types.Type, a []value) value { return in.ts.Bool(types.Comparable(t)) })
}

func regRV(name string, f func(in *Interp, fr *frame, rv rvalue, args []value) value) {
	reg("(reflect.Value)."+name, func(fr *frame, fn *ssa.Function, args []value) value {
		return f(fr.in, fr, fr.in.rvArg(args[0]), args[1:])
	})
}

func (in *Interp) rvSettable(rv rvalue, op string) {
	in.mustValid(rv, op)
	if rv.ptr == nil {
		reflPanic("reflect: reflect.Value." + op + " using unaddressable value")
	}
	if rv.ro {
		reflPanic("reflect: reflect.Value." + op + " using value obtained using unexported field")
	}
}

func init() {
	reg("reflect.TypeOf", func(fr *frame, fn *ssa.Function, args []value) value {
		i := args[0].(iface)
		if i.t == nil {
			return iface{}
		}
		return mkType(i.t)
	})
	reg("reflect.ValueOf", func(fr *frame, fn *ssa.Function, args []value) value {
		i := args[0].(iface)
		if i.t == nil {
			return rvalue{}
		}
		return rvalue{t: i.t, v: i.v}
	})
	reg("reflect.New", func(fr *frame, fn *ssa.Function, args []value) value {
		t := typeOfArg(args[0])
		p := new(value)
		*p = fr.in.zero(t)
		return rvalue{t: types.NewPointer(t), v: p}
	})
	reg("reflect.Zero", func(fr *frame, fn *ssa.Function, args []value) value {
		t := typeOfArg(args[0])
		return rvalue{t: t, v: fr.in.zero(t)}
	})
	reg("reflect.PtrTo", func(fr *frame, fn *ssa.Function, args []value) value {
		return mkType(types.NewPointer(typeOfArg(args[0])))
	})
	reg("reflect.PointerTo", func(fr *frame, fn *ssa.Function, args []value) value {
		return mkType(types.NewPointer(typeOfArg(args[0])))
	})
	reg("reflect.SliceOf", func(fr *frame, fn *ssa.Function, args []value) value {
		return mkType(types.NewSlice(typeOfArg(args[0])))
	})
	reg("reflect.Indirect", func(fr *frame, fn *ssa.Function, args []value) value {
		rv := fr.in.rvArg(args[0])
		if rv.t == nil {
			return rv
		}
		if _, ok := under(rv.t).(*types.Pointer); !ok {
			return rv
		}
		return fr.in.rvElem(rv)
	})
	reg("reflect.MakeSlice", func(fr *frame, fn *ssa.Function, args []value) value {
		in := fr.in
		t := typeOfArg(args[0])
		in.guardAlloc(args[1])
		in.guardAlloc(args[2])
		n := in.concreteInt(args[1], "reflect.MakeSlice len")
		c := in.concreteInt(args[2], "reflect.MakeSlice cap")
		if n < 0 || c < n {
			reflPanic("reflect.MakeSlice: len out of range")
		}
		if c > in.cfg.MaxAlloc {
			panic(pathEnd{"bound", fmt.Sprintf("reflect.MakeSlice of %d elements exceeds the engine limit", c)})
		}
		in.noteAlloc(c)
		et := under(t).(*types.Slice).Elem()
		s := make([]value, c)
		if c > 0 {
			z := in.zero(et)
			for i := range s {
				s[i] = copyVal(z)
			}
		}
		return rvalue{t: t, v: s[:n]}
	})
	reg("reflect.Append", func(fr *frame, fn *ssa.Function, args []value) value {
		in := fr.in
		s := in.rvArg(args[0])
		sl, _ := s.get().([]value)
		out := append([]value(nil), sl...)
		for _, x := range args[1].([]value) {
			out = append(out, copyVal(x.(rvalue).get()))
		}
		return rvalue{t: s.t, v: out}
	})
	reg("reflect.Copy", func(fr *frame, fn *ssa.Function, args []value) value {
		in := fr.in
		d, s := in.rvArg(args[0]), in.rvArg(args[1])
		// reflect.Copy panics unless the element types are identical (a named byte type is not uint8)
		elemOf := func(t types.Type) types.Type {
			switch u := under(t).(type) {
			case *types.Slice:
				return u.Elem()
			case *types.Array:
				return u.Elem()
			}
			return nil
		}
		if de := elemOf(d.t); de != nil && !isString(s.t) {
			if se := elemOf(s.t); se != nil && !types.Identical(de, se) {
				reflPanic("reflect.Copy: " + de.String() + " != " + se.String())
			}
		}
		dst := in.rvElems(d)
		var src []value
		if isString(s.t) {
			src = termSlice(in.strBytes(s.get()))
		} else {
			src = in.rvElems(s)
		}
		n := len(dst)
		if len(src) < n {
			n = len(src)
		}
		tmp := make([]value, n)
		for i := 0; i < n; i++ {
			tmp[i] = copyVal(src[i])
		}
		copy(dst, tmp)
		return in.ts.BV(64, uint64(n))
	})
	reg("reflect.DeepEqual", func(fr *frame, fn *ssa.Function, args []value) value {
		a, b := args[0].(iface), args[1].(iface)
		if a.t == nil || b.t == nil {
			return fr.in.ts.Bool(a.t == nil && b.t == nil)
		}
		if !types.Identical(a.t, b.t) {
			return fr.in.ts.False
		}
		return fr.in.deepEqual(a.t, a.v, b.v, 0)
	})

	regRV("Type", func(in *Interp, fr *frame, rv rvalue, a []value) value {
		in.mustValid(rv, "Type")
		return mkType(rv.t)
	})
	regRV("Kind", func(in *Interp, fr *frame, rv rvalue, a []value) value {
		if rv.t == nil {
			return in.ts.BV(64, 0)
		}
		return in.ts.BV(64, reflectKind(rv.t))
	})
	regRV("IsValid", func(in *Interp, fr *frame, rv rvalue, a []value) value { return in.ts.Bool(rv.t != nil) })
	regRV("CanSet", func(in *Interp, fr *frame, rv rvalue, a []value) value {
		return in.ts.Bool(rv.t != nil && rv.ptr != nil && !rv.ro)
	})
	regRV("CanAddr", func(in *Interp, fr *frame, rv rvalue, a []value) value {
		return in.ts.Bool(rv.t != nil && rv.ptr != nil)
	})
	regRV("CanInterface", func(in *Interp, fr *frame, rv rvalue, a []value) value {
		in.mustValid(rv, "CanInterface")
		return in.ts.Bool(!rv.ro)
	})
	regRV("Elem", func(in *Interp, fr *frame, rv rvalue, a []value) value { return in.rvElem(rv) })
	regRV("Addr", func(in *Interp, fr *frame, rv rvalue, a []value) value {
		in.mustValid(rv, "Addr")
		if rv.ptr == nil {
			reflPanic("reflect.Value.Addr of unaddressable value")
		}
		return rvalue{t: types.NewPointer(rv.t), v: rv.ptr, ro: rv.ro}
	})
	regRV("NumField", func(in *Interp, fr *frame, rv rvalue, a []value) value {
		in.mustValid(rv, "NumField")
		st, ok := under(rv.t).(*types.Struct)
		if !ok {
			reflPanic("reflect: call of reflect.Value.NumField on " + rv.t.String() + " Value")
		}
		return in.ts.BV(64, uint64(st.NumFields()))
	})
	regRV("Field", func(in *Interp, fr *frame, rv rvalue, a []value) value {
		in.mustValid(rv, "Field")
		st, ok := under(rv.t).(*types.Struct)
		if !ok {
			reflPanic("reflect: call of reflect.Value.Field on " + rv.t.String() + " Value")
		}
		i := in.concreteInt(a[0], "reflect Field index")
		if i < 0 || i >= st.NumFields() {
			reflPanic("reflect: Field index out of range")
		}
		f := st.Field(i)
		out := rvalue{t: f.Type(), ro: rv.ro || !f.Exported()}
		if rv.ptr != nil {
			out.ptr = &(*rv.ptr).(structure)[i]
		} else {
			out.v = rv.v.(structure)[i]
		}
		return out
	})
	regRV("Index", func(in *Interp, fr *frame, rv rvalue, a []value) value {
		in.mustValid(rv, "Index")
		i := in.concreteInt(a[0], "reflect Index")
		switch u := under(rv.t).(type) {
		case *types.Slice:
			s, _ := rv.get().([]value)
			if i < 0 || i >= len(s) {
				reflPanic("reflect: slice index out of range")
			}
			return rvalue{t: u.Elem(), ptr: &s[i], ro: rv.ro}
		case *types.Array:
			if i < 0 || i >= int(u.Len()) {
				reflPanic("reflect: array index out of range")
			}
			if rv.ptr != nil {
				return rvalue{t: u.Elem(), ptr: &(*rv.ptr).(array)[i], ro: rv.ro}
			}
			return rvalue{t: u.Elem(), v: rv.v.(array)[i], ro: rv.ro}
		case *types.Basic:
			if isString(rv.t) {
				b := in.strBytes(rv.get())
				if i < 0 || i >= len(b) {
					reflPanic("reflect: string index out of range")
				}
				return rvalue{t: types.Typ[types.Uint8], v: b[i]}
			}
		}
		reflPanic("reflect: call of reflect.Value.Index on " + rv.t.String() + " Value")
		return nil
	})
	regRV("Len", func(in *Interp, fr *frame, rv rvalue, a []value) value {
		in.mustValid(rv, "Len")
		switch u := under(rv.t).(type) {
		case *types.Slice:
			s, _ := rv.get().([]value)
			return in.ts.BV(64, uint64(len(s)))
		case *types.Array:
			return in.ts.BV(64, uint64(u.Len()))
		case *types.Map:
			return in.ts.BV(64, uint64(rv.get().(*hmap).len()))
		case *types.Basic:
			if isString(rv.t) {
				return in.ts.BV(64, uint64(in.strLen(rv.get())))
			}
		case *types.Pointer:
			if at, ok := under(u.Elem()).(*types.Array); ok {
				return in.ts.BV(64, uint64(at.Len()))
			}
		}
		reflPanic("reflect: call of reflect.Value.Len on " + rv.t.String() + " Value")
		return nil
	})
	regRV("Cap", func(in *Interp, fr *frame, rv rvalue, a []value) value {
		in.mustValid(rv, "Cap")
		switch u := under(rv.t).(type) {
		case *types.Slice:
			s, _ := rv.get().([]value)
			return in.ts.BV(64, uint64(cap(s)))
		case *types.Array:
			return in.ts.BV(64, uint64(u.Len()))
		}
		reflPanic("reflect: call of reflect.Value.Cap on " + rv.t.String() + " Value")
		return nil
	})
	regRV("IsNil", func(in *Interp, fr *frame, rv rvalue, a []value) value {
		in.mustValid(rv, "IsNil")
		switch under(rv.t).(type) {
		case *types.Pointer, *types.Slice, *types.Map, *types.Chan, *types.Signature, *types.Interface:
			return in.ts.Bool(isNilValue(rv.get()))
		}
		reflPanic("reflect: call of reflect.Value.IsNil on " + rv.t.String() + " Value")
		return nil
	})
	regRV("IsZero", func(in *Interp, fr *frame, rv rvalue, a []value) value {
		in.mustValid(rv, "IsZero")
		return in.deepEqual(rv.t, rv.get(), in.zero(rv.t), 0)
	})
	regRV("Interface", func(in *Interp, fr *frame, rv rvalue, a []value) value {
		if rv.ro {
			reflPanic("reflect.Value.Interface: cannot return value obtained from unexported field or method")
		}
		return in.rvInterface(rv)
	})
	regRV("Uint", func(in *Interp, fr *frame, rv rvalue, a []value) value {
		in.mustValid(rv, "Uint")
		w, signed, ok := intInfo(rv.t)
		if !ok || w == 0 || signed {
			reflPanic("reflect: call of reflect.Value.Uint on " + rv.t.String() + " Value")
		}
		return in.ts.Zext(rv.get().(*Term), 64)
	})
	regRV("Int", func(in *Interp, fr *frame, rv rvalue, a []value) value {
		in.mustValid(rv, "Int")
		w, signed, ok := intInfo(rv.t)
		if !ok || w == 0 || !signed {
			reflPanic("reflect: call of reflect.Value.Int on " + rv.t.String() + " Value")
		}
		return in.ts.Sext(rv.get().(*Term), 64)
	})
	regRV("Bool", func(in *Interp, fr *frame, rv rvalue, a []value) value {
		in.mustValid(rv, "Bool")
		if w, _, ok := intInfo(rv.t); !ok || w != 0 {
			reflPanic("reflect: call of reflect.Value.Bool on " + rv.t.String() + " Value")
		}
		return rv.get()
	})
	regRV("Float", func(in *Interp, fr *frame, rv rvalue, a []value) value {
		in.mustValid(rv, "Float")
		return rv.get()
	})
	regRV("String", func(in *Interp, fr *frame, rv rvalue, a []value) value {
		if rv.t == nil {
			return "<invalid Value>"
		}
		if isString(rv.t) {
			return rv.get()
		}
		return "<" + reflectTypeString(rv.t) + " Value>"
	})
	regRV("Bytes", func(in *Interp, fr *frame, rv rvalue, a []value) value {
		in.mustValid(rv, "Bytes")
		switch u := under(rv.t).(type) {
		case *types.Slice:
			if w, _, _ := intInfo(u.Elem()); w == 8 {
				s, _ := rv.get().([]value)
				return s
			}
		case *types.Array:
			if w, _, _ := intInfo(u.Elem()); w == 8 {
				if rv.ptr == nil {
					reflPanic("reflect.Value.Bytes of unaddressable byte array")
				}
				return []value((*rv.ptr).(array))
			}
		}
		reflPanic("reflect.Value.Bytes of non-byte slice")
		return nil
	})
	regRV("Pointer", func(in *Interp, fr *frame, rv rvalue, a []value) value {
		in.mustValid(rv, "Pointer")
		// only used for identity / nil tests in the code under test
		if isNilValue(rv.get()) {
			return in.ts.BV(64, 0)
		}
		return in.ts.BV(64, 0xdead0000)
	})
	regRV("Set", func(in *Interp, fr *frame, rv rvalue, a []value) value {
		in.rvSettable(rv, "Set")
		x := in.rvArg(a[0])
		in.mustValid(x, "Set")
		if x.ro {
			reflPanic("reflect: reflect.Value.Set using value obtained using unexported field")
		}
		if !types.AssignableTo(x.t, rv.t) {
			reflPanic("reflect.Set: value of type " + x.t.String() + " is not assignable to type " + rv.t.String())
		}
		v := copyVal(x.get())
		if _, dstIface := under(rv.t).(*types.Interface); dstIface {
			if _, srcIface := under(x.t).(*types.Interface); !srcIface {
				v = iface{t: x.t, v: v}
			}
		}
		*rv.ptr = v
		return nil
	})
	regRV("SetUint", func(in *Interp, fr *frame, rv rvalue, a []value) value {
		in.rvSettable(rv, "SetUint")
		w, signed, ok := intInfo(rv.t)
		if !ok || w == 0 || signed {
			reflPanic("reflect: call of reflect.Value.SetUint on " + rv.t.String() + " Value")
		}
		*rv.ptr = in.ts.Zext(a[0].(*Term), w)
		return nil
	})
	regRV("SetInt", func(in *Interp, fr *frame, rv rvalue, a []value) value {
		in.rvSettable(rv, "SetInt")
		w, signed, ok := intInfo(rv.t)
		if !ok || w == 0 || !signed {
			reflPanic("reflect: call of reflect.Value.SetInt on " + rv.t.String() + " Value")
		}
		*rv.ptr = in.ts.Zext(a[0].(*Term), w)
		return nil
	})
	regRV("SetBool", func(in *Interp, fr *frame, rv rvalue, a []value) value {
		in.rvSettable(rv, "SetBool")
		if w, _, ok := intInfo(rv.t); !ok || w != 0 {
			reflPanic("reflect: call of reflect.Value.SetBool on " + rv.t.String() + " Value")
		}
		*rv.ptr = a[0]
		return nil
	})
	regRV("SetString", func(in *Interp, fr *frame, rv rvalue, a []value) value {
		in.rvSettable(rv, "SetString")
		if !isString(rv.t) {
			reflPanic("reflect: call of reflect.Value.SetString on " + rv.t.String() + " Value")
		}
		*rv.ptr = a[0]
		return nil
	})
	regRV("SetBytes", func(in *Interp, fr *frame, rv rvalue, a []value) value {
		in.rvSettable(rv, "SetBytes")
		sl, ok := under(rv.t).(*types.Slice)
		if !ok {
			reflPanic("reflect: call of reflect.Value.SetBytes on " + rv.t.String() + " Value")
		}
		if w, _, _ := intInfo(sl.Elem()); w != 8 {
			reflPanic("reflect.Value.SetBytes of non-byte slice")
		}
		*rv.ptr = a[0]
		return nil
	})
	regRV("SetLen", func(in *Interp, fr *frame, rv rvalue, a []value) value {
		in.rvSettable(rv, "SetLen")
		s := (*rv.ptr).([]value)
		n := in.concreteInt(a[0], "SetLen")
		if n < 0 || n > cap(s) {
			reflPanic("reflect: slice length out of range in SetLen")
		}
		*rv.ptr = s[:n]
		return nil
	})
	regRV("Grow", func(in *Interp, fr *frame, rv rvalue, a []value) value {
		in.rvSettable(rv, "Grow")
		s, _ := (*rv.ptr).([]value)
		n := in.concreteInt(a[0], "Grow")
		if n < 0 {
			reflPanic("reflect.Value.Grow: negative len")
		}
		if len(s)+n > cap(s) {
			et := under(rv.t).(*types.Slice).Elem()
			ns := make([]value, len(s), len(s)+n)
			copy(ns, s)
			full := ns[:cap(ns)]
			for i := len(s); i < len(full); i++ {
				full[i] = in.zero(et)
			}
			*rv.ptr = ns
		}
		return nil
	})
	regRV("Slice", func(in *Interp, fr *frame, rv rvalue, a []value) value {
		in.mustValid(rv, "Slice")
		i := in.concreteInt(a[0], "Slice")
		j := in.concreteInt(a[1], "Slice")
		switch u := under(rv.t).(type) {
		case *types.Slice:
			s, _ := rv.get().([]value)
			if i < 0 || j < i || j > cap(s) {
				reflPanic("reflect.Value.Slice: slice index out of bounds")
			}
			return rvalue{t: rv.t, v: s[i:j]}
		case *types.Array:
			if rv.ptr == nil {
				reflPanic("reflect.Value.Slice: slice of unaddressable array")
			}
			arr := []value((*rv.ptr).(array))
			if i < 0 || j < i || j > len(arr) {
				reflPanic("reflect.Value.Slice: slice index out of bounds")
			}
			return rvalue{t: types.NewSlice(u.Elem()), v: arr[i:j]}
		case *types.Basic:
			if isString(rv.t) {
				b := in.strBytes(rv.get())
				if i < 0 || j < i || j > len(b) {
					reflPanic("reflect.Value.Slice: string slice index out of bounds")
				}
				return rvalue{t: rv.t, v: mkStr(b[i:j])}
			}
		}
		reflPanic("reflect: call of reflect.Value.Slice on " + rv.t.String() + " Value")
		return nil
	})
	regRV("Convert", func(in *Interp, fr *frame, rv rvalue, a []value) value {
		in.mustValid(rv, "Convert")
		t := typeOfArg(a[0])
		if !types.ConvertibleTo(rv.t, t) {
			reflPanic("reflect.Value.Convert: value of type " + rv.t.String() + " cannot be converted to type " + t.String())
		}
		if _, ok := under(t).(*types.Interface); ok {
			if _, src := under(rv.t).(*types.Interface); src {
				return rvalue{t: t, v: rv.get()}
			}
			return rvalue{t: t, v: iface{t: rv.t, v: copyVal(rv.get())}}
		}
		return rvalue{t: t, v: in.convert(rv.t, t, copyVal(rv.get()))}
	})
	regRV("OverflowInt", func(in *Interp, fr *frame, rv rvalue, a []value) value {
		in.mustValid(rv, "OverflowInt")
		w, signed, ok := intInfo(rv.t)
		if !ok || w == 0 || !signed {
			reflPanic("reflect: call of reflect.Value.OverflowInt on " + rv.t.String() + " Value")
		}
		x := a[0].(*Term)
		if w == 64 {
			return in.ts.False
		}
		return in.ts.Ne(x, in.ts.Sext(in.ts.Extract(x, w-1, 0), 64))
	})
	regRV("OverflowUint", func(in *Interp, fr *frame, rv rvalue, a []value) value {
		in.mustValid(rv, "OverflowUint")
		w, signed, ok := intInfo(rv.t)
		if !ok || w == 0 || signed {
			reflPanic("reflect: call of reflect.Value.OverflowUint on " + rv.t.String() + " Value")
		}
		x := a[0].(*Term)
		if w == 64 {
			return in.ts.False
		}
		return in.ts.Ne(x, in.ts.Zext(in.ts.Extract(x, w-1, 0), 64))
	})
	regRV("MapIndex", func(in *Interp, fr *frame, rv rvalue, a []value) value {
		in.mustValid(rv, "MapIndex")
		m, _ := rv.get().(*hmap)
		k := in.rvArg(a[0])
		if m == nil {
			return rvalue{}
		}
		ks := in.mapKey(m, k.get())
		if e, ok := m.get(ks); ok {
			return rvalue{t: under(rv.t).(*types.Map).Elem(), v: copyVal(e.v)}
		}
		return rvalue{}
	})
}

func (in *Interp) rvElem(rv rvalue) value {
	in.mustValid(rv, "Elem")
	switch u := under(rv.t).(type) {
	case *types.Pointer:
		p, _ := rv.get().(*value)
		if p == nil {
			return rvalue{}
		}
		return rvalue{t: u.Elem(), ptr: p, ro: rv.ro}
	case *types.Interface:
		i, _ := rv.get().(iface)
		if i.t == nil {
			return rvalue{}
		}
		return rvalue{t: i.t, v: i.v, ro: rv.ro}
	}
	reflPanic("reflect: call of reflect.Value.Elem on " + rv.t.String() + " Value")
	return nil
}

func (in *Interp) rvElems(rv rvalue) []value {
	switch under(rv.t).(type) {
	case *types.Slice:
		s, _ := rv.get().([]value)
		return s
	case *types.Array:
		if rv.ptr != nil {
			return []value((*rv.ptr).(array))
		}
		return []value(rv.v.(array))
	}
	reflPanic("reflect: expected slice or array, got " + rv.t.String())
	return nil
}

// deepEqual implements reflect.DeepEqual on interpreter values, returning a Bool term.
func (in *Interp) deepEqual(t types.Type, x, y value, depth int) *Term {
	ts := in.ts
	if depth > 50 {
		panic(unsupported("reflect.DeepEqual recursion too deep"))
	}
	switch u := under(t).(type) {
	case *types.Basic:
		return in.equals(t, x, y)
	case *types.Pointer:
		px, _ := x.(*value)
		py, _ := y.(*value)
		if px == nil || py == nil {
			return ts.Bool(px == nil && py == nil)
		}
		if px == py {
			return ts.True
		}
		return in.deepEqual(u.Elem(), *px, *py, depth+1)
	case *types.Slice:
		sx, _ := x.([]value)
		sy, _ := y.([]value)
		if (sx == nil) != (sy == nil) || len(sx) != len(sy) {
			return ts.False
		}
		r := ts.True
		for i := range sx {
			r = ts.And(r, in.deepEqual(u.Elem(), sx[i], sy[i], depth+1))
			if r.IsFalse() {
				return r
			}
		}
		return r
	case *types.Array:
		ax, ay := x.(array), y.(array)
		r := ts.True
		for i := range ax {
			r = ts.And(r, in.deepEqual(u.Elem(), ax[i], ay[i], depth+1))
		}
		return r
	case *types.Struct:
		sx, sy := x.(structure), y.(structure)
		r := ts.True
		for i := range sx {
			r = ts.And(r, in.deepEqual(u.Field(i).Type(), sx[i], sy[i], depth+1))
			if r.IsFalse() {
				return r
			}
		}
		return r
	case *types.Interface:
		ix, _ := x.(iface)
		iy, _ := y.(iface)
		if ix.t == nil || iy.t == nil {
			return ts.Bool(ix.t == nil && iy.t == nil)
		}
		if !types.Identical(ix.t, iy.t) {
			return ts.False
		}
		if in.P.isEngineType(ix.t) || ix.t == rtypeNamed {
			return in.equalsDyn(x, y)
		}
		return in.deepEqual(ix.t, ix.v, iy.v, depth+1)
	case *types.Map:
		mx, _ := x.(*hmap)
		my, _ := y.(*hmap)
		if (mx == nil) != (my == nil) || mx.len() != my.len() {
			return ts.False
		}
		if mx == my {
			return ts.True
		}
		r := ts.True
		for _, k := range mx.order {
			ey, ok := my.m[k]
			if !ok {
				return ts.False
			}
			r = ts.And(r, in.deepEqual(u.Elem(), mx.m[k].v, ey.v, depth+1))
		}
		return r
	case *types.Signature:
		return ts.Bool(isNilValue(x) && isNilValue(y))
	case *types.Chan:
		return in.equals(t, x, y)
	}
	panic(unsupported("reflect.DeepEqual on " + t.String()))
}

func (P *Program) reflectMethod(name string) *boundIntrinsic { return rtypeMethods[name] }

var _ = strings.TrimSpace
