package main

// Interpreter values. All values are boxed in `value` (any):
//
//   *Term                 bool and all integer kinds (width/sign come from the SSA type)
//   float64               float32/float64 (concrete only)
//   string | *symStr | *decStr   strings (concrete, symbolic bytes of concrete length, decimal token)
//   *value                pointers (nil pointer = (*value)(nil)); *symRef = element pointer with symbolic index
//   []value               slices (nil slice = []value(nil))
//   array, structure      arrays and structs (copied on assignment)
//   iface                 interfaces (nil interface: t == nil)
//   *hmap, *hchan         maps, channels
//   *ssa.Function, *closure, *ssa.Builtin   functions
//   tuple                 multiple results
//   rtype, rvalue         reflect model

import (
	"fmt"
	"go/types"
	"sort"
	"strings"

	"golang.org/x/tools/go/ssa"
)

type value = any

type tuple []value
type array []value
type structure []value

type iface struct {
	t types.Type
	v value
}

type closure struct {
	fn  *ssa.Function
	env []value
}

// boundIntrinsic is a function value implemented by the engine.
type boundIntrinsic struct {
	name string
	fn   func(fr *frame, args []value) value
}

type symStr struct{ b []*Term }

type decStr struct {
	t      *Term
	signed bool
}

type symRef struct {
	elems []value
	idx   *Term // BV64, constrained in range by the path condition
}

type mapEntry struct {
	k, v value
}

type hmap struct {
	order []string
	m     map[string]*mapEntry
}

type hchan struct {
	buf    []value
	closed bool
	never  bool   // a channel nobody ever sends on (timers, Done of a live context)
	timer  bool   // created by time.After / NewTimer
	cap    int    // sched mode: buffer capacity
	vc     vclock // sched mode: happens-before clock
}

type rtype struct{ t types.Type }

// rvalue models reflect.Value.
type rvalue struct {
	t    types.Type // nil: the zero Value
	v    value      // the value when not addressable
	ptr  *value     // location when addressable (CanSet/CanAddr)
	ro   bool       // obtained via unexported field
	indr bool       // unused
}

func under(t types.Type) types.Type { return t.Underlying() }

// intInfo reports width and signedness for integer/bool basic types. Bool has width 0.
func intInfo(t types.Type) (w int, signed bool, ok bool) {
	b, isb := under(t).(*types.Basic)
	if !isb {
		return 0, false, false
	}
	switch b.Kind() {
	case types.Bool, types.UntypedBool:
		return 0, false, true
	case types.Int, types.Int64, types.UntypedInt, types.UntypedRune:
		return 64, true, true
	case types.Int8:
		return 8, true, true
	case types.Int16:
		return 16, true, true
	case types.Int32:
		return 32, true, true
	case types.Uint, types.Uint64, types.Uintptr:
		return 64, false, true
	case types.Uint8:
		return 8, false, true
	case types.Uint16:
		return 16, false, true
	case types.Uint32:
		return 32, false, true
	}
	return 0, false, false
}

func isString(t types.Type) bool {
	b, ok := under(t).(*types.Basic)
	return ok && b.Info()&types.IsString != 0
}

func isFloat(t types.Type) bool {
	b, ok := under(t).(*types.Basic)
	return ok && b.Info()&types.IsFloat != 0
}

var reflectValueType types.Type // set when the program is loaded (may be nil)

func isReflectValue(t types.Type) bool {
	n, ok := t.(*types.Named)
	if !ok {
		if a, isa := t.(*types.Alias); isa {
			return isReflectValue(types.Unalias(a))
		}
		return false
	}
	o := n.Obj()
	return o.Pkg() != nil && o.Pkg().Path() == "reflect" && o.Name() == "Value"
}

// zero returns the zero value of type t.
func (in *Interp) zero(t types.Type) value {
	if isReflectValue(t) {
		return rvalue{}
	}
	switch u := t.Underlying().(type) {
	case *types.Basic:
		if w, _, ok := intInfo(u); ok {
			if w == 0 {
				return in.ts.False
			}
			return in.ts.BV(w, 0)
		}
		switch {
		case u.Info()&types.IsString != 0:
			return ""
		case u.Info()&types.IsFloat != 0:
			return float64(0)
		case u.Kind() == types.UnsafePointer:
			return (*value)(nil)
		case u.Kind() == types.UntypedNil:
			return nil
		case u.Info()&types.IsComplex != 0:
			return complex128(0)
		}
	case *types.Pointer:
		return (*value)(nil)
	case *types.Slice:
		return []value(nil)
	case *types.Map:
		return (*hmap)(nil)
	case *types.Chan:
		return (*hchan)(nil)
	case *types.Interface:
		return iface{}
	case *types.Signature:
		return (*ssa.Function)(nil)
	case *types.Struct:
		s := make(structure, u.NumFields())
		for i := range s {
			s[i] = in.zero(u.Field(i).Type())
		}
		return s
	case *types.Array:
		a := make(array, u.Len())
		if u.Len() > 0 {
			z := in.zero(u.Elem())
			for i := range a {
				a[i] = copyVal(z)
			}
		}
		return a
	case *types.Tuple:
		tp := make(tuple, u.Len())
		for i := range tp {
			tp[i] = in.zero(u.At(i).Type())
		}
		return tp
	}
	panic(unsupported("zero value of type " + t.String()))
}

func copyVal(v value) value {
	switch v := v.(type) {
	case structure:
		c := make(structure, len(v))
		for i, x := range v {
			c[i] = copyVal(x)
		}
		return c
	case array:
		c := make(array, len(v))
		for i, x := range v {
			c[i] = copyVal(x)
		}
		return c
	case tuple:
		c := make(tuple, len(v))
		for i, x := range v {
			c[i] = copyVal(x)
		}
		return c
	}
	return v
}

func isNilValue(v value) bool {
	switch v := v.(type) {
	case nil:
		return true
	case *value:
		return v == nil
	case []value:
		return v == nil
	case *hmap:
		return v == nil
	case *hchan:
		return v == nil
	case iface:
		return v.t == nil
	case *ssa.Function:
		return v == nil
	case *closure:
		return v == nil
	case *boundIntrinsic:
		return v == nil
	}
	return false
}

// ---- strings ----

func (in *Interp) strBytes(s value) []*Term {
	switch s := s.(type) {
	case string:
		out := make([]*Term, len(s))
		for i := 0; i < len(s); i++ {
			out[i] = in.ts.BV(8, uint64(s[i]))
		}
		return out
	case *symStr:
		return s.b
	case *decStr:
		if s.t.IsConst() {
			return in.strBytes(decRender(s))
		}
		panic(unsupported("byte access to the decimal rendering of a symbolic integer"))
	}
	panic(fmt.Sprintf("strBytes: not a string: %T", s))
}

func decRender(s *decStr) string {
	if s.signed {
		return fmt.Sprintf("%d", s.t.SVal())
	}
	return fmt.Sprintf("%d", s.t.val)
}

// mkStr normalises a byte-term list into a string value.
func mkStr(b []*Term) value {
	all := true
	for _, t := range b {
		if !t.IsConst() {
			all = false
			break
		}
	}
	if all {
		bs := make([]byte, len(b))
		for i, t := range b {
			bs[i] = byte(t.val)
		}
		return string(bs)
	}
	return &symStr{b: b}
}

func (in *Interp) strLen(s value) int {
	switch s := s.(type) {
	case string:
		return len(s)
	case *symStr:
		return len(s.b)
	case *decStr:
		if s.t.IsConst() {
			return len(decRender(s))
		}
		panic(unsupported("len of the decimal rendering of a symbolic integer"))
	}
	panic(fmt.Sprintf("strLen: %T", s))
}

// concreteString returns the Go string if the value is fully concrete.
func concreteString(s value) (string, bool) {
	switch s := s.(type) {
	case string:
		return s, true
	case *decStr:
		if s.t.IsConst() {
			return decRender(s), true
		}
	}
	return "", false
}

// bytesOfSlice returns the byte terms of a []byte value.
func bytesOfSlice(v value) []*Term {
	s := v.([]value)
	out := make([]*Term, len(s))
	for i, x := range s {
		out[i] = x.(*Term)
	}
	return out
}

func concreteBytes(v value) ([]byte, bool) {
	s, ok := v.([]value)
	if !ok {
		return nil, false
	}
	out := make([]byte, len(s))
	for i, x := range s {
		t, ok := x.(*Term)
		if !ok || !t.IsConst() {
			return nil, false
		}
		out[i] = byte(t.val)
	}
	return out, true
}

func (in *Interp) byteSlice(b []byte) []value {
	out := make([]value, len(b))
	for i, x := range b {
		out[i] = in.ts.BV(8, uint64(x))
	}
	return out
}

func termSlice(ts []*Term) []value {
	out := make([]value, len(ts))
	for i, x := range ts {
		out[i] = x
	}
	return out
}

// ---- equality ----

// equals returns a Bool term for x == y at static type t.
func (in *Interp) equals(t types.Type, x, y value) *Term {
	ts := in.ts
	switch xv := x.(type) {
	case *Term:
		yv, ok := y.(*Term)
		if !ok {
			panic(fmt.Sprintf("equals: %T vs %T", x, y))
		}
		return ts.Eq(xv, yv)
	case float64:
		return ts.Bool(xv == y.(float64))
	case complex128:
		return ts.Bool(xv == y.(complex128))
	case string, *symStr, *decStr:
		return in.strEq(x, y)
	case *value:
		switch yv := y.(type) {
		case *value:
			return ts.Bool(xv == yv)
		case *symRef:
			return in.equals(t, y, x)
		case nil:
			return ts.Bool(xv == nil)
		}
	case *symRef:
		switch yv := y.(type) {
		case *value:
			if yv == nil {
				return ts.False
			}
			r := ts.False
			for i := range xv.elems {
				if &xv.elems[i] == yv {
					r = ts.Eq(xv.idx, ts.BV(64, uint64(i)))
				}
			}
			return r
		case *symRef:
			if len(xv.elems) > 0 && len(yv.elems) > 0 && &xv.elems[0] == &yv.elems[0] {
				return ts.Eq(xv.idx, yv.idx)
			}
			panic(unsupported("comparison of two symbolic element pointers into different arrays"))
		case nil:
			return ts.False
		}
	case []value:
		// only comparable with nil
		if isNilValue(y) {
			return ts.Bool(xv == nil)
		}
		if xv == nil {
			return ts.Bool(isNilValue(y))
		}
	case *hmap:
		if yv, ok := y.(*hmap); ok {
			return ts.Bool(xv == yv)
		}
		return ts.Bool(xv == nil && isNilValue(y))
	case *hchan:
		if yv, ok := y.(*hchan); ok {
			return ts.Bool(xv == yv)
		}
		return ts.Bool(xv == nil && isNilValue(y))
	case *ssa.Function, *closure, *ssa.Builtin, *boundIntrinsic:
		return ts.Bool(isNilValue(x) && isNilValue(y))
	case nil:
		return ts.Bool(isNilValue(y))
	case iface:
		yv, ok := y.(iface)
		if !ok {
			if isNilValue(y) {
				return ts.Bool(xv.t == nil)
			}
			panic(fmt.Sprintf("equals: iface vs %T", y))
		}
		if xv.t == nil || yv.t == nil {
			return ts.Bool(xv.t == nil && yv.t == nil)
		}
		if !types.Identical(xv.t, yv.t) {
			return ts.False
		}
		if !types.Comparable(xv.t) {
			panic(goPanic{in.runtimeError("comparing uncomparable type " + xv.t.String())})
		}
		return in.equals(xv.t, xv.v, yv.v)
	case structure:
		yv := y.(structure)
		st := under(t).(*types.Struct)
		r := ts.True
		for i := range xv {
			if st.Field(i).Name() == "_" {
				continue
			}
			r = ts.And(r, in.equals(st.Field(i).Type(), xv[i], yv[i]))
		}
		return r
	case array:
		yv := y.(array)
		et := under(t).(*types.Array).Elem()
		r := ts.True
		for i := range xv {
			r = ts.And(r, in.equals(et, xv[i], yv[i]))
		}
		return r
	case rtype:
		if yv, ok := y.(rtype); ok {
			return ts.Bool(types.Identical(xv.t, yv.t))
		}
		return ts.False
	}
	panic(unsupported(fmt.Sprintf("equality of %T and %T", x, y)))
}

func isCanonicalDec(s string, signed bool) bool {
	if s == "" {
		return false
	}
	i := 0
	if s[0] == '-' {
		if !signed || len(s) == 1 {
			return false
		}
		i = 1
		if s[1] == '0' {
			return false
		}
	}
	if s[i] == '0' && len(s) > i+1 {
		return false
	}
	for ; i < len(s); i++ {
		if s[i] < '0' || s[i] > '9' {
			return false
		}
	}
	return true
}

func (in *Interp) strEq(x, y value) *Term {
	ts := in.ts
	if dx, ok := x.(*decStr); ok && !dx.t.IsConst() {
		if dy, ok := y.(*decStr); ok && !dy.t.IsConst() && dx.signed == dy.signed {
			return ts.Eq(dx.t, dy.t)
		}
		if sy, ok := concreteString(y); ok {
			if !isCanonicalDec(sy, dx.signed) {
				return ts.False
			}
			var v uint64
			if dx.signed {
				var sv int64
				if _, err := fmt.Sscanf(sy, "%d", &sv); err != nil {
					return ts.False
				}
				v = uint64(sv)
			} else {
				if _, err := fmt.Sscanf(sy, "%d", &v); err != nil {
					return ts.False
				}
			}
			return ts.Eq(dx.t, ts.BV(64, v))
		}
		panic(unsupported("comparison of a symbolic decimal token with a symbolic string"))
	}
	if dy, ok := y.(*decStr); ok && !dy.t.IsConst() {
		return in.strEq(y, x)
	}
	if sx, ok := concreteString(x); ok {
		if sy, ok := concreteString(y); ok {
			return ts.Bool(sx == sy)
		}
	}
	bx, by := in.strBytes(x), in.strBytes(y)
	if len(bx) != len(by) {
		return ts.False
	}
	r := ts.True
	for i := range bx {
		r = ts.And(r, ts.Eq(bx[i], by[i]))
	}
	return r
}

// ---- maps ----

func newMap() *hmap { return &hmap{m: map[string]*mapEntry{}} }

// keyOf computes a canonical string for a concrete map key; ok=false if symbolic.
func keyOf(v value) (string, bool) {
	switch v := v.(type) {
	case *Term:
		if !v.IsConst() {
			return "", false
		}
		return fmt.Sprintf("i%d/%d", v.val, v.w), true
	case string:
		return "s" + v, true
	case *decStr:
		if v.t.IsConst() {
			return "s" + decRender(v), true
		}
		return "", false
	case *symStr:
		return "", false
	case float64:
		return fmt.Sprintf("f%v", v), true
	case *value:
		return fmt.Sprintf("p%p", v), true
	case *hchan:
		return fmt.Sprintf("c%p", v), true
	case iface:
		if v.t == nil {
			return "I<nil>", true
		}
		k, ok := keyOf(v.v)
		return "I" + v.t.String() + ":" + k, ok
	case rtype:
		return "T" + v.t.String(), true
	case structure:
		var sb strings.Builder
		sb.WriteString("S{")
		for _, f := range v {
			k, ok := keyOf(f)
			if !ok {
				return "", false
			}
			sb.WriteString(k)
			sb.WriteString(",")
		}
		sb.WriteString("}")
		return sb.String(), true
	case array:
		var sb strings.Builder
		sb.WriteString("A[")
		for _, f := range v {
			k, ok := keyOf(f)
			if !ok {
				return "", false
			}
			sb.WriteString(k)
			sb.WriteString(",")
		}
		sb.WriteString("]")
		return sb.String(), true
	case nil:
		return "nil", true
	}
	panic(unsupported(fmt.Sprintf("map key of type %T", v)))
}

func (m *hmap) get(k string) (*mapEntry, bool) {
	if m == nil {
		return nil, false
	}
	e, ok := m.m[k]
	return e, ok
}

func (m *hmap) set(k string, key, val value) {
	if e, ok := m.m[k]; ok {
		e.v = val
		return
	}
	m.m[k] = &mapEntry{k: key, v: val}
	m.order = append(m.order, k)
}

func (m *hmap) del(k string) {
	if m == nil {
		return
	}
	if _, ok := m.m[k]; !ok {
		return
	}
	delete(m.m, k)
	for i, x := range m.order {
		if x == k {
			m.order = append(m.order[:i:i], m.order[i+1:]...)
			break
		}
	}
}

func (m *hmap) len() int {
	if m == nil {
		return 0
	}
	return len(m.m)
}

func (m *hmap) sortedKeys() []string {
	ks := append([]string(nil), m.order...)
	sort.Strings(ks)
	return ks
}

// ---- diagnostics ----

func showValue(v value) string {
	return showValueD(v, 0)
}

func showValueD(v value, d int) string {
	if d > 4 {
		return "…"
	}
	switch v := v.(type) {
	case nil:
		return "nil"
	case *Term:
		return v.String()
	case string:
		return fmt.Sprintf("%q", v)
	case *symStr:
		return fmt.Sprintf("symstr(len=%d)", len(v.b))
	case *decStr:
		return "dec(" + v.t.String() + ")"
	case *value:
		if v == nil {
			return "nilptr"
		}
		return "&" + showValueD(*v, d+1)
	case []value:
		if v == nil {
			return "nilslice"
		}
		var p []string
		for i, x := range v {
			if i >= 8 {
				p = append(p, "…")
				break
			}
			p = append(p, showValueD(x, d+1))
		}
		return "[" + strings.Join(p, " ") + "]"
	case structure:
		var p []string
		for _, x := range v {
			p = append(p, showValueD(x, d+1))
		}
		return "{" + strings.Join(p, ", ") + "}"
	case array:
		var p []string
		for i, x := range v {
			if i >= 8 {
				p = append(p, "…")
				break
			}
			p = append(p, showValueD(x, d+1))
		}
		return "[" + strings.Join(p, " ") + "]a"
	case iface:
		if v.t == nil {
			return "iface(nil)"
		}
		return "iface(" + v.t.String() + ":" + showValueD(v.v, d+1) + ")"
	case tuple:
		var p []string
		for _, x := range v {
			p = append(p, showValueD(x, d+1))
		}
		return "(" + strings.Join(p, ", ") + ")"
	case *ssa.Function:
		if v == nil {
			return "nilfunc"
		}
		return v.String()
	}
	return fmt.Sprintf("%T", v)
}

// hashApp is one application of an uninterpreted injective hash function.
type hashApp struct {
	algo string
	in   []*Term
	out  *Term // BV(8*size)
	size int
}

// symFloat is a float converted from a symbolic integer; it can be passed around but not computed with.
type symFloat struct{ t *Term }
