package main

// Long-lived SMT solver processes, incremental (push/pop) with global declarations.

import (
	"bufio"
	"fmt"
	"io"
	"os/exec"
	"strconv"
	"strings"
	"sync"
	"time"
)

type SatResult int

const (
	Unsat SatResult = iota
	Sat
	Unknown
)

func (r SatResult) String() string { return [...]string{"unsat", "sat", "unknown"}[r] }

type solverKind struct {
	name string
	argv []string
	pre  string
}

var solverKinds = map[string]solverKind{
	"z3":       {"z3", []string{"z3", "-in"}, "(set-option :global-declarations true)\n"},
	"z3-new":   {"z3-new", []string{"z3-new", "-in"}, "(set-option :global-declarations true)\n"},
	"cvc5":     {"cvc5", []string{"cvc5", "--incremental", "--produce-models", "--lang=smt2"}, "(set-option :global-declarations true)\n(set-logic QF_BV)\n"},
	"cvc5-int": {"cvc5-int", []string{"cvc5", "--incremental", "--produce-models", "--lang=smt2", "--solve-bv-as-int=sum"}, "(set-option :global-declarations true)\n(set-logic QF_BV)\n"},
}

type SolverProc struct {
	kind    solverKind
	cmd     *exec.Cmd
	in      io.WriteCloser
	out     *bufio.Reader
	defined map[int]bool
	depth   int
	dead    bool
	queries int
	busy    time.Duration
	errs    int
	mu      sync.Mutex
}

func startSolver(kind string) (*SolverProc, error) {
	k, ok := solverKinds[kind]
	if !ok {
		return nil, fmt.Errorf("unknown solver %s", kind)
	}
	cmd := exec.Command(k.argv[0], k.argv[1:]...)
	in, err := cmd.StdinPipe()
	if err != nil {
		return nil, err
	}
	outp, err := cmd.StdoutPipe()
	if err != nil {
		return nil, err
	}
	cmd.Stderr = cmd.Stdout
	if err := cmd.Start(); err != nil {
		return nil, err
	}
	s := &SolverProc{kind: k, cmd: cmd, in: in, out: bufio.NewReaderSize(outp, 1<<16), defined: map[int]bool{}}
	s.send(k.pre)
	return s, nil
}

func (s *SolverProc) send(str string) {
	if s.dead {
		return
	}
	if _, err := io.WriteString(s.in, str); err != nil {
		s.dead = true
	}
}

func (s *SolverProc) close() {
	if s == nil || s.cmd == nil {
		return
	}
	s.in.Close()
	if s.cmd.Process != nil {
		s.cmd.Process.Kill()
	}
	s.cmd.Wait()
	s.dead = true
}

// define emits definitions for t and everything below it that this process has not seen.
func (s *SolverProc) define(t *Term, sb *strings.Builder) {
	if t.op == OpConst || s.defined[t.id] {
		return
	}
	// iterative post-order to survive deep terms
	type fr struct {
		t *Term
		i int
	}
	stack := []fr{{t, 0}}
	for len(stack) > 0 {
		f := &stack[len(stack)-1]
		if f.t.op == OpConst || s.defined[f.t.id] {
			stack = stack[:len(stack)-1]
			continue
		}
		if f.i < f.t.n {
			c := f.t.a[f.i]
			f.i++
			if c.op != OpConst && !s.defined[c.id] {
				stack = append(stack, fr{c, 0})
			}
			continue
		}
		sb.WriteString(f.t.def())
		s.defined[f.t.id] = true
		stack = stack[:len(stack)-1]
	}
}

func (s *SolverProc) push() {
	s.send("(push 1)\n")
	s.depth++
}

func (s *SolverProc) pop(n int) {
	if n <= 0 {
		return
	}
	s.send(fmt.Sprintf("(pop %d)\n", n))
	s.depth -= n
}

func (s *SolverProc) assert(t *Term) {
	var sb strings.Builder
	s.define(t, &sb)
	sb.WriteString("(assert ")
	sb.WriteString(t.ref())
	sb.WriteString(")\n")
	s.send(sb.String())
}

// readLine reads one line with a deadline; on timeout the process is killed.
func (s *SolverProc) readLine(deadline time.Duration) (string, bool) {
	type res struct {
		line string
		err  error
	}
	ch := make(chan res, 1)
	go func() {
		l, err := s.out.ReadString('\n')
		ch <- res{l, err}
	}()
	select {
	case r := <-ch:
		if r.err != nil {
			s.dead = true
			return "", false
		}
		return strings.TrimSpace(r.line), true
	case <-time.After(deadline):
		s.dead = true
		if s.cmd.Process != nil {
			s.cmd.Process.Kill()
		}
		<-ch
		return "", false
	}
}

// check runs (check-sat) under the current assertion stack.
func (s *SolverProc) check(timeout time.Duration) SatResult {
	if s.dead {
		return Unknown
	}
	t0 := time.Now()
	defer func() { s.busy += time.Since(t0); s.queries++ }()
	ms := int(timeout / time.Millisecond)
	if strings.HasPrefix(s.kind.name, "z3") {
		s.send(fmt.Sprintf("(set-option :timeout %d)\n", ms))
	} else {
		s.send(fmt.Sprintf("(set-option :tlimit-per %d)\n", ms))
	}
	s.send("(check-sat)\n")
	for {
		line, ok := s.readLine(timeout + 5*time.Second)
		if !ok {
			return Unknown
		}
		switch {
		case line == "sat":
			return Sat
		case line == "unsat":
			return Unsat
		case line == "unknown" || line == "timeout":
			return Unknown
		case strings.HasPrefix(line, "(error"):
			s.errs++
			// keep reading: the answer line may follow, but the result is not to be trusted
			s.drainAfterError()
			return Unknown
		case line == "" || line == "success":
			continue
		default:
			// unexpected chatter; treat as inconclusive
			s.errs++
			return Unknown
		}
	}
}

func (s *SolverProc) drainAfterError() {
	// After an error the solver may or may not print an answer to check-sat. Synchronise with
	// an echo marker.
	s.send("(echo \"SYNC\")\n")
	for {
		line, ok := s.readLine(10 * time.Second)
		if !ok || strings.Contains(line, "SYNC") {
			return
		}
	}
}

// getValues asks for the values of the given terms (after a sat answer).
func (s *SolverProc) getValues(ts []*Term) (map[*Term]string, bool) {
	if s.dead || len(ts) == 0 {
		return map[*Term]string{}, !s.dead
	}
	res := map[*Term]string{}
	// one query per chunk, one value per line is not guaranteed: parse the s-expression stream.
	const chunk = 200
	for i := 0; i < len(ts); i += chunk {
		j := i + chunk
		if j > len(ts) {
			j = len(ts)
		}
		var sb strings.Builder
		for _, t := range ts[i:j] {
			s.define(t, &sb)
		}
		sb.WriteString("(get-value (")
		for _, t := range ts[i:j] {
			sb.WriteString(t.ref())
			sb.WriteString(" ")
		}
		sb.WriteString("))\n(echo \"SYNC\")\n")
		s.send(sb.String())
		var acc strings.Builder
		for {
			line, ok := s.readLine(30 * time.Second)
			if !ok {
				return nil, false
			}
			if strings.Contains(line, "SYNC") {
				break
			}
			acc.WriteString(line)
			acc.WriteString(" ")
		}
		txt := acc.String()
		if strings.Contains(txt, "(error") {
			s.errs++
			return nil, false
		}
		vals := parseValueList(txt)
		if len(vals) != j-i {
			return nil, false
		}
		for k, t := range ts[i:j] {
			res[t] = vals[k]
		}
	}
	return res, true
}

// parseValueList extracts the value tokens of "((a v) (b v) ...)".
func parseValueList(txt string) []string {
	var out []string
	// tokens: #x.., #b.., true, false, (_ bvN w)
	toks := tokenize(txt)
	// structure: ( ( name value ) ( name value ) ... ) where value may be "( _ bvN w )"
	i := 0
	if i < len(toks) && toks[i] == "(" {
		i++
	}
	for i < len(toks) {
		if toks[i] != "(" {
			break
		}
		i++ // (
		// name may itself be parenthesised? our refs are atoms.
		i++ // name
		if i >= len(toks) {
			break
		}
		if toks[i] == "(" {
			// (_ bvN w)
			j := i
			depth := 0
			var parts []string
			for j < len(toks) {
				if toks[j] == "(" {
					depth++
				} else if toks[j] == ")" {
					depth--
					if depth == 0 {
						break
					}
				} else {
					parts = append(parts, toks[j])
				}
				j++
			}
			out = append(out, strings.Join(parts, " "))
			i = j + 1
		} else {
			out = append(out, toks[i])
			i++
		}
		if i < len(toks) && toks[i] == ")" {
			i++
		}
	}
	return out
}

func tokenize(s string) []string {
	var toks []string
	cur := strings.Builder{}
	flush := func() {
		if cur.Len() > 0 {
			toks = append(toks, cur.String())
			cur.Reset()
		}
	}
	for _, r := range s {
		switch r {
		case '(', ')':
			flush()
			toks = append(toks, string(r))
		case ' ', '\t', '\n', '\r':
			flush()
		default:
			cur.WriteRune(r)
		}
	}
	flush()
	return toks
}

// parseBV parses a model value into (hex string without prefix for wide values, uint64 for <=64).
func parseBVValue(v string) (uint64, string, bool) {
	switch {
	case v == "true":
		return 1, "1", true
	case v == "false":
		return 0, "0", true
	case strings.HasPrefix(v, "#x"):
		h := v[2:]
		if len(h) <= 16 {
			u, err := strconv.ParseUint(h, 16, 64)
			return u, h, err == nil
		}
		return 0, h, true
	case strings.HasPrefix(v, "#b"):
		b := v[2:]
		if len(b) <= 64 {
			u, err := strconv.ParseUint(b, 2, 64)
			return u, fmt.Sprintf("%x", u), err == nil
		}
		return 0, "", false
	case strings.HasPrefix(v, "_ bv"):
		f := strings.Fields(v)
		if len(f) >= 3 {
			u, err := strconv.ParseUint(strings.TrimPrefix(f[1], "bv"), 10, 64)
			return u, fmt.Sprintf("%x", u), err == nil
		}
	}
	return 0, "", false
}
