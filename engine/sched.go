package main

// Cooperative goroutine scheduler (harness option sched=1).
//
// Every goroutine of the interpreted program is backed by a native goroutine, but exactly one of
// them holds the interpreter at any time (token passing through gor.wake). Scheduling points are
// the synchronisation operations of the interpreted program (go, channel send / receive / close /
// select, Mutex / RWMutex Lock, WaitGroup.Wait, Once.Do, atomics, time.Sleep, runtime.Gosched,
// vYield / vSched). At each of them the choice of the goroutine that runs next is a decision of the
// path explorer, exactly like a symbolic branch, so the DFS over decision vectors enumerates the
// interleavings. Switching away from a goroutine that could have continued counts as a preemption;
// the number of preemptions per path is bounded (option preempt=N), switches at blocking
// operations and explicit yields are free (CHESS-style context bounding). Plain memory accesses
// are not scheduling points: that is sound for data-race-free programs, and the happens-before
// race detector (race.go) reports the accesses for which it is not.

import (
	"fmt"
	"go/types"
	"path/filepath"
	"strings"
	"sync"

	"golang.org/x/tools/go/ssa"
)

type gstate int

const (
	gRunnable gstate = iota
	gBlocked
	gDone
)

type selCase struct {
	ch   *hchan
	send bool
	val  value
}

type waitOp struct {
	cases  []selCase
	pred   func() bool
	what   string
	done   bool // completed by a partner (rendezvous)
	chosen int
	recv   value
	recvOK bool
}

type gor struct {
	id       int
	wake     chan struct{}
	state    gstate
	w        *waitOp
	curFrame *frame
	vc       vclock
	where    string
}

type gorKill struct{}

// childPanic carries an unrecovered Go panic of a non-main goroutine (it crashes the program and
// cannot be recovered by the main goroutine's deferred functions).
type childPanic struct {
	gp  goPanic
	pos string
}

type schedState struct {
	on       bool
	gs       []*gor
	cur      *gor
	preempts int
	pending  any
	dead     bool
	wg       sync.WaitGroup
	log      []string // vSched tags in the order they were passed
	switches []string // human-readable switch trace
	locks    map[*value]*lockState
	wgs      map[*value]*wgState
	onces    map[*value]*onceState
	race     *raceState
	inInit   int
}

type lockState struct {
	locked  bool
	readers int
	vc      vclock
	rvc     vclock
}

type wgState struct {
	n  int
	vc vclock
}

type onceState struct {
	state int // 0 fresh, 1 running, 2 done
	vc    vclock
}

func (in *Interp) initSched() {
	s := &in.sch
	s.on = true
	main := &gor{id: 0, wake: make(chan struct{}, 1)}
	main.vc = vclock{1}
	s.gs = []*gor{main}
	s.cur = main
	s.locks = map[*value]*lockState{}
	s.wgs = map[*value]*wgState{}
	s.onces = map[*value]*onceState{}
	if in.cfg.Race {
		s.race = newRaceState()
		in.noteAssumption("sched: happens-before data-race detection over loads, stores and map operations of the interpreted code (accesses inside engine models -- copy, append, reflect, formatting -- are not tracked)")
	}
	in.noteAssumption(fmt.Sprintf("sched: goroutines are interleaved at synchronisation operations only (go, channel operations, Mutex/RWMutex/WaitGroup/Once, sync/atomic, Sleep/Gosched, vSched); delay-bounded exploration with at most %d deviations from the deterministic round-robin scheduler per path; select among several ready cases and the choice of a rendezvous partner are explored exhaustively", in.cfg.MaxPreempt))
}

// killAll releases every parked goroutine at the end of a path and waits for them to unwind.
func (in *Interp) killAll() {
	s := &in.sch
	if !s.on {
		return
	}
	s.dead = true
	for _, g := range s.gs[1:] {
		if g.state != gDone {
			select {
			case g.wake <- struct{}{}:
			default:
			}
		}
	}
	s.wg.Wait()
}

func (in *Interp) spawnGor(fr *frame, fn value, args []value) {
	s := &in.sch
	if len(s.gs) >= in.cfg.MaxGoroutines {
		panic(pathEnd{"bound", fmt.Sprintf("more than %d goroutines", in.cfg.MaxGoroutines)})
	}
	g := &gor{id: len(s.gs), wake: make(chan struct{}, 1), where: fr.pos()}
	parent := s.cur
	g.vc = parent.vc.clone()
	g.vc.set(g.id, 1)
	parent.vc.inc(parent.id)
	s.gs = append(s.gs, g)
	s.wg.Add(1)
	go func() {
		defer s.wg.Done()
		<-g.wake
		if s.dead {
			g.state = gDone
			return
		}
		defer func() {
			r := recover()
			g.state = gDone
			if _, ok := r.(gorKill); ok {
				return
			}
			if r != nil {
				if gp, ok := r.(goPanic); ok {
					r = childPanic{gp, in.lastPanicPos}
				}
				in.abortFromChild(r)
				return
			}
			in.exitGor(g)
		}()
		root := &frame{in: in, fn: nil, depth: 0}
		in.curFrame = root
		in.callValue(root, fn, args, nil)
	}()
	in.schedPoint("go")
}

// abortFromChild ends the path from a non-main goroutine: the main goroutine re-raises r.
func (in *Interp) abortFromChild(r any) {
	s := &in.sch
	s.pending = r
	s.dead = true
	main := s.gs[0]
	s.cur = main
	main.wake <- struct{}{}
}

func (in *Interp) exitGor(g *gor) {
	s := &in.sch
	// the exit of a goroutine happens-before nothing by itself; WaitGroup / channels carry the edges
	defer func() {
		if r := recover(); r != nil {
			in.abortFromChild(r)
		}
	}()
	next := in.pickNext(g, true)
	if next == nil {
		in.deadlock()
		return
	}
	s.cur = next
	next.wake <- struct{}{}
}

func (in *Interp) opEnabled(self *gor, w *waitOp) bool {
	if w == nil {
		return true
	}
	if w.done {
		return true
	}
	if w.pred != nil {
		return w.pred()
	}
	for _, c := range w.cases {
		if in.caseReady(self, c) {
			return true
		}
	}
	return false
}

func (in *Interp) enabled(g *gor) bool {
	switch g.state {
	case gRunnable:
		return true
	case gBlocked:
		return in.opEnabled(g, g.w)
	}
	return false
}

// partners returns the blocked goroutines (other than self) waiting with the complementary
// operation on ch, with the index of that case.
func (in *Interp) partners(self *gor, ch *hchan, wantSend bool) (gs []*gor, idx []int) {
	for _, g := range in.sch.gs {
		if g == self || g.state != gBlocked || g.w == nil || g.w.done || g.w.pred != nil {
			continue
		}
		for i, c := range g.w.cases {
			if c.ch == ch && c.send == wantSend {
				gs = append(gs, g)
				idx = append(idx, i)
				break
			}
		}
	}
	return
}

func (in *Interp) caseReady(self *gor, c selCase) bool {
	ch := c.ch
	if ch == nil || ch.never {
		return false
	}
	if c.send {
		if ch.closed || len(ch.buf) < ch.cap {
			return true
		}
		ps, _ := in.partners(self, ch, false)
		return len(ps) > 0
	}
	if len(ch.buf) > 0 || ch.closed {
		return true
	}
	ps, _ := in.partners(self, ch, true)
	return len(ps) > 0
}

// pickNext chooses the goroutine that runs next; nil means nobody can run.
//
// Delay-bounded scheduling (Emmi, Qadeer, Rakamaric 2011): the default scheduler is deterministic
// -- the running goroutine continues while it can, otherwise the next enabled goroutine in
// round-robin order takes over -- and every deviation from it (skipping one candidate in that
// order) costs one unit of the per-path budget (option preempt=N). With budget 0 exactly one
// schedule is explored; the number of schedules grows polynomially with the budget. At explicit
// yields of the harness (vYield, vSched, time.Sleep, Gosched) every candidate is free, so the
// order of the environment's events is fully explored.
func (in *Interp) pickNext(self *gor, free bool) *gor {
	s := &in.sch
	var cands []*gor
	if self.state == gRunnable {
		cands = append(cands, self)
	}
	n := len(s.gs)
	for k := 1; k < n; k++ {
		g := s.gs[(self.id+k)%n]
		if in.enabled(g) {
			cands = append(cands, g)
		}
	}
	if len(cands) == 0 {
		return nil
	}
	if len(cands) == 1 {
		return cands[0]
	}
	if free && self.state == gRunnable && len(cands) > 1 {
		// fair yield (Sleep, Gosched, waiting for a timer, vYield): by default the next goroutine
		// runs and the yielding one goes to the end of the round-robin order
		cands = append(cands[1:], self)
	}
	m := len(cands)
	if left := in.cfg.MaxPreempt - s.preempts; left+1 < m {
		m = left + 1
	}
	if m <= 1 {
		return cands[0]
	}
	i := in.choose(m, "schedule")
	s.preempts += i
	return cands[i]
}

func (in *Interp) switchTo(self, next *gor) {
	s := &in.sch
	if next == self {
		return
	}
	if len(s.switches) < 400 {
		s.switches = append(s.switches, fmt.Sprintf("g%d->g%d", self.id, next.id))
	}
	self.curFrame = in.curFrame
	s.cur = next
	next.wake <- struct{}{}
	<-self.wake
	if s.dead {
		if self.id == 0 && s.pending != nil {
			r := s.pending
			s.pending = nil
			panic(r)
		}
		panic(gorKill{})
	}
	in.curFrame = self.curFrame
}

// schedPoint is a preemption opportunity for the running goroutine.
func (in *Interp) schedPoint(what string) {
	s := &in.sch
	if !s.on || len(s.gs) == 1 || s.inInit > 0 {
		return
	}
	self := s.cur
	next := in.pickNext(self, false)
	in.switchTo(self, next)
}

// yieldPoint is an explicit yield: by default the next enabled goroutine runs (fairness for
// polling loops), staying on the yielding goroutine is a deviation like any other.
func (in *Interp) yieldPoint() {
	s := &in.sch
	if !s.on || len(s.gs) == 1 || s.inInit > 0 {
		return
	}
	self := s.cur
	next := in.pickNext(self, true)
	in.switchTo(self, next)
}

// block parks the running goroutine on w until the scheduler resumes it.
func (in *Interp) block(w *waitOp) {
	s := &in.sch
	self := s.cur
	self.w = w
	self.state = gBlocked
	next := in.pickNext(self, true)
	if next == nil {
		self.state = gRunnable
		in.deadlock()
	}
	in.switchTo(self, next)
	self.state = gRunnable
}

func (in *Interp) deadlock() {
	s := &in.sch
	desc := ""
	for _, g := range s.gs {
		if g.state == gBlocked && g.w != nil {
			desc += fmt.Sprintf(" g%d:%s", g.id, g.w.what)
		}
	}
	in.checkObligation("deadlock", "no deadlock: some goroutine can always run", in.ts.False, "all goroutines blocked:"+desc)
	panic(pathEnd{"stop", "deadlock"})
}

// waitUntil blocks the running goroutine until pred holds.
func (in *Interp) waitUntil(what string, pred func() bool) {
	for !pred() {
		in.block(&waitOp{pred: pred, what: what})
	}
	in.sch.cur.w = nil
}

// ---- channels ----

// doSelect performs one of the cases; blocking=false returns -1 when none is ready.
func (in *Interp) doSelect(cases []selCase, blocking bool, what string) (int, value, bool) {
	s := &in.sch
	in.schedPoint(what)
	self := s.cur
	for {
		var ready []int
		for i, c := range cases {
			if in.caseReady(self, c) {
				ready = append(ready, i)
			}
		}
		if len(ready) > 0 {
			i := ready[in.chooseReady(cases, ready)]
			v, ok := in.performCase(self, cases[i])
			return i, v, ok
		}
		if !blocking {
			return -1, nil, false
		}
		w := &waitOp{cases: cases, what: what}
		in.block(w)
		self.w = nil
		if w.done {
			self.vc.join(w.partnerVC())
			return w.chosen, w.recv, w.recvOK
		}
	}
}

// chooseReady picks one of the ready cases of a select. Go picks uniformly at random, so every
// ready case is a legitimate outcome; with timers that are ready at once (virtual time) a polling
// loop `select { case <-time.After(d): ...; case <-ctx.Done(): return }` would have an unbounded
// number of outcomes. A ready non-timer case therefore goes first (a timer fires only if nothing
// else is ready), all non-timer alternatives are explored freely, and preferring a timer over a
// ready non-timer case is a deviation charged to the delay budget.
func (in *Interp) chooseReady(cases []selCase, ready []int) int {
	if len(ready) == 1 {
		return 0
	}
	var plain, timers []int
	for k, i := range ready {
		if cases[i].ch != nil && cases[i].ch.timer {
			timers = append(timers, k)
		} else {
			plain = append(plain, k)
		}
	}
	if len(plain) == 0 || len(timers) == 0 {
		return in.choose(len(ready), "select")
	}
	n := len(plain)
	if in.cfg.MaxPreempt-in.sch.preempts > 0 {
		n += len(timers)
	}
	k := in.choose(n, "select")
	if k < len(plain) {
		return plain[k]
	}
	in.sch.preempts++
	return timers[k-len(plain)]
}

var noVC vclock

func (w *waitOp) partnerVC() vclock { return noVC }

func (in *Interp) performCase(self *gor, c selCase) (value, bool) {
	ch := c.ch
	if c.send {
		if ch.closed {
			in.rtPanic("send on closed channel")
		}
		if ps, idx := in.partners(self, ch, false); len(ps) > 0 && len(ch.buf) == 0 {
			k := in.choose(len(ps), "receiver")
			p := ps[k]
			p.w.done, p.w.chosen, p.w.recv, p.w.recvOK = true, idx[k], copyVal(c.val), true
			p.state = gRunnable
			// rendezvous: both sides synchronise
			in.hbRelease(self, &ch.vc)
			in.hbAcquire(p, &ch.vc)
			in.hbRelease(p, &ch.vc)
			in.hbAcquire(self, &ch.vc)
			return nil, false
		}
		in.hbRelease(self, &ch.vc)
		ch.buf = append(ch.buf, copyVal(c.val))
		return nil, false
	}
	if len(ch.buf) > 0 {
		v := ch.buf[0]
		ch.buf = ch.buf[1:]
		in.hbAcquire(self, &ch.vc)
		return v, true
	}
	if ch.closed {
		in.hbAcquire(self, &ch.vc)
		return nil, false
	}
	ps, idx := in.partners(self, ch, true)
	k := in.choose(len(ps), "sender")
	p := ps[k]
	v := copyVal(p.w.cases[idx[k]].val)
	p.w.done, p.w.chosen = true, idx[k]
	p.state = gRunnable
	in.hbRelease(p, &ch.vc)
	in.hbAcquire(self, &ch.vc)
	in.hbRelease(self, &ch.vc)
	in.hbAcquire(p, &ch.vc)
	return v, true
}

func (in *Interp) schedSend(fr *frame, ch *hchan, v value) {
	if ch == nil {
		in.block(&waitOp{pred: func() bool { return false }, what: "send on nil channel at " + fr.pos()})
	}
	in.doSelect([]selCase{{ch: ch, send: true, val: v}}, true, "send at "+fr.pos())
}

func (in *Interp) schedRecv(fr *frame, ch *hchan, et types.Type) (value, bool) {
	if ch != nil && ch.timer {
		in.yieldPoint() // waiting for a timer lets the others run
	}
	if ch == nil {
		in.block(&waitOp{pred: func() bool { return false }, what: "receive from nil channel at " + fr.pos()})
	}
	_, v, ok := in.doSelect([]selCase{{ch: ch}}, true, "receive at "+fr.pos())
	if !ok {
		return in.zero(et), false
	}
	return v, true
}

func (in *Interp) schedClose(ch *hchan) {
	in.schedPoint("close")
	if ch == nil {
		in.rtPanic("close of nil channel")
	}
	if ch.closed {
		in.rtPanic("close of closed channel")
	}
	in.hbRelease(in.sch.cur, &ch.vc)
	ch.closed = true
}

func (in *Interp) schedSelectOp(fr *frame, instr *ssa.Select) value {
	ts := in.ts
	nrecv := 0
	for _, st := range instr.States {
		if st.Dir == types.RecvOnly {
			nrecv++
		}
	}
	res := make(tuple, 2+nrecv)
	res[0] = ts.BV(64, ^uint64(0))
	res[1] = ts.False
	ri := 2
	recvIdx := map[int]int{}
	cases := make([]selCase, len(instr.States))
	for i, st := range instr.States {
		ch, _ := fr.get(st.Chan).(*hchan)
		cases[i] = selCase{ch: ch}
		if st.Dir == types.RecvOnly {
			recvIdx[i] = ri
			res[ri] = in.zero(under(st.Chan.Type()).(*types.Chan).Elem())
			ri++
		} else {
			cases[i].send = true
			cases[i].val = fr.get(st.Send)
		}
	}
	for _, c := range cases {
		if c.ch != nil && c.ch.timer && instr.Blocking {
			in.yieldPoint() // waiting for a timer lets the others run
			break
		}
	}
	i, v, ok := in.doSelect(cases, instr.Blocking, "select at "+fr.pos())
	if i < 0 {
		return res
	}
	res[0] = ts.BV(64, uint64(i))
	if !cases[i].send {
		res[1] = ts.Bool(ok)
		if ok {
			res[recvIdx[i]] = v
		}
	}
	return res
}

// ---- sync ----

// lockSiteTag names a Lock / RLock call site inside the package under test (the native replay
// routes exactly these sites through vLk, see replay.go); "" for other callers.
func (in *Interp) lockSiteTag(fr *frame) string {
	if fr == nil || fr.fn == nil || fr.fn.Pkg != in.P.mainPkg || fr.curInstr == nil {
		return ""
	}
	if _, isDefer := fr.curInstr.(*ssa.Defer); isDefer {
		return ""
	}
	if _, isGo := fr.curInstr.(*ssa.Go); isGo {
		return ""
	}
	pos := in.P.fset.Position(fr.curInstr.Pos())
	if !pos.IsValid() || strings.HasPrefix(filepath.Base(pos.Filename), "zz_verif_") {
		return ""
	}
	return "L:" + fr.pos()
}

func (in *Interp) logSched(s string) {
	if s != "" && len(in.sch.log) < 2000 {
		in.sch.log = append(in.sch.log, s)
	}
}

func (in *Interp) lockOf(p *value) *lockState {
	l := in.sch.locks[p]
	if l == nil {
		l = &lockState{}
		in.sch.locks[p] = l
	}
	return l
}

func init() {
	schedOr := func(name string, f intrinsicFn) {
		old := intrinsics[name]
		reg(name, func(fr *frame, fn *ssa.Function, args []value) value {
			if fr.in.sch.on {
				return f(fr, fn, args)
			}
			if old == nil {
				panic(unsupported(name + " outside sched mode"))
			}
			return old(fr, fn, args)
		})
	}
	ptr := func(in *Interp, a value) *value {
		p, _ := a.(*value)
		if p == nil {
			in.rtPanic("invalid memory address or nil pointer dereference")
		}
		return p
	}
	schedOr("(*sync.Mutex).Lock", func(fr *frame, fn *ssa.Function, args []value) value {
		in := fr.in
		l := in.lockOf(ptr(in, args[0]))
		tag := in.lockSiteTag(fr)
		if tag != "" {
			in.logSched("+" + tag)
		}
		in.schedPoint("Lock")
		in.waitUntil("Mutex.Lock at "+fr.pos(), func() bool { return !l.locked })
		l.locked = true
		in.hbAcquire(in.sch.cur, &l.vc)
		if tag != "" {
			in.logSched("-" + tag)
		}
		return nil
	})
	schedOr("(*sync.Mutex).TryLock", func(fr *frame, fn *ssa.Function, args []value) value {
		in := fr.in
		l := in.lockOf(ptr(in, args[0]))
		in.schedPoint("TryLock")
		if l.locked {
			return in.ts.False
		}
		l.locked = true
		in.hbAcquire(in.sch.cur, &l.vc)
		return in.ts.True
	})
	schedOr("(*sync.Mutex).Unlock", func(fr *frame, fn *ssa.Function, args []value) value {
		in := fr.in
		l := in.lockOf(ptr(in, args[0]))
		if !l.locked {
			in.checkObligation("fatal", "no unlock of an unlocked mutex", in.ts.False, "sync: unlock of unlocked mutex at "+fr.pos())
		}
		in.hbRelease(in.sch.cur, &l.vc)
		l.locked = false
		return nil
	})
	schedOr("(*sync.RWMutex).Lock", func(fr *frame, fn *ssa.Function, args []value) value {
		in := fr.in
		l := in.lockOf(ptr(in, args[0]))
		tag := in.lockSiteTag(fr)
		if tag != "" {
			in.logSched("+" + tag)
		}
		in.schedPoint("Lock")
		in.waitUntil("RWMutex.Lock at "+fr.pos(), func() bool { return !l.locked && l.readers == 0 })
		l.locked = true
		in.hbAcquire(in.sch.cur, &l.vc)
		in.hbAcquire(in.sch.cur, &l.rvc)
		if tag != "" {
			in.logSched("-" + tag)
		}
		return nil
	})
	schedOr("(*sync.RWMutex).Unlock", func(fr *frame, fn *ssa.Function, args []value) value {
		in := fr.in
		l := in.lockOf(ptr(in, args[0]))
		if !l.locked {
			in.checkObligation("fatal", "no unlock of an unlocked mutex", in.ts.False, "sync: Unlock of unlocked RWMutex at "+fr.pos())
		}
		in.hbRelease(in.sch.cur, &l.vc)
		l.locked = false
		return nil
	})
	schedOr("(*sync.RWMutex).RLock", func(fr *frame, fn *ssa.Function, args []value) value {
		in := fr.in
		l := in.lockOf(ptr(in, args[0]))
		tag := in.lockSiteTag(fr)
		if tag != "" {
			in.logSched("+" + tag)
		}
		in.schedPoint("RLock")
		in.waitUntil("RWMutex.RLock at "+fr.pos(), func() bool { return !l.locked })
		l.readers++
		in.hbAcquire(in.sch.cur, &l.vc)
		if tag != "" {
			in.logSched("-" + tag)
		}
		return nil
	})
	schedOr("(*sync.RWMutex).RUnlock", func(fr *frame, fn *ssa.Function, args []value) value {
		in := fr.in
		l := in.lockOf(ptr(in, args[0]))
		if l.readers <= 0 {
			in.checkObligation("fatal", "no unlock of an unlocked mutex", in.ts.False, "sync: RUnlock of unlocked RWMutex at "+fr.pos())
		}
		in.hbRelease(in.sch.cur, &l.rvc)
		l.readers--
		return nil
	})
	wgOf := func(in *Interp, p *value) *wgState {
		w := in.sch.wgs[p]
		if w == nil {
			w = &wgState{}
			in.sch.wgs[p] = w
		}
		return w
	}
	wgAdd := func(fr *frame, p *value, d int) {
		in := fr.in
		w := wgOf(in, p)
		in.hbRelease(in.sch.cur, &w.vc)
		w.n += d
		if w.n < 0 {
			in.rtPanic("sync: negative WaitGroup counter")
		}
	}
	schedOr("(*sync.WaitGroup).Add", func(fr *frame, fn *ssa.Function, args []value) value {
		in := fr.in
		wgAdd(fr, ptr(in, args[0]), in.concreteInt(args[1], "WaitGroup.Add delta"))
		return nil
	})
	schedOr("(*sync.WaitGroup).Done", func(fr *frame, fn *ssa.Function, args []value) value {
		wgAdd(fr, ptr(fr.in, args[0]), -1)
		return nil
	})
	schedOr("(*sync.WaitGroup).Wait", func(fr *frame, fn *ssa.Function, args []value) value {
		in := fr.in
		w := wgOf(in, ptr(in, args[0]))
		in.schedPoint("Wait")
		in.waitUntil("WaitGroup.Wait at "+fr.pos(), func() bool { return w.n == 0 })
		in.hbAcquire(in.sch.cur, &w.vc)
		return nil
	})
	schedOr("(*sync.Once).Do", func(fr *frame, fn *ssa.Function, args []value) value {
		in := fr.in
		p := ptr(in, args[0])
		o := in.sch.onces[p]
		if o == nil {
			o = &onceState{}
			in.sch.onces[p] = o
		}
		in.schedPoint("Once")
		if o.state == 1 {
			in.waitUntil("Once.Do at "+fr.pos(), func() bool { return o.state == 2 })
		}
		if o.state == 2 {
			in.hbAcquire(in.sch.cur, &o.vc)
			return nil
		}
		o.state = 1
		in.callValue(fr, args[1], nil, nil)
		in.hbRelease(in.sch.cur, &o.vc)
		o.state = 2
		return nil
	})
	for name, f := range intrinsics {
		if strings.HasPrefix(name, "sync/atomic.") || strings.HasPrefix(name, "(*sync/atomic.Value)") {
			f := f
			reg(name, func(fr *frame, fn *ssa.Function, args []value) value {
				if !fr.in.sch.on {
					return f(fr, fn, args)
				}
				var loc any = args[0]
				fr.in.atomicBegin(loc)
				defer fr.in.atomicEnd(loc)
				return f(fr, fn, args)
			})
		}
	}
	for _, n := range []string{"(*sync.Cond).Broadcast", "(*sync.Cond).Signal", "(*sync.Cond).Wait"} {
		n := n
		schedOr(n, func(fr *frame, fn *ssa.Function, args []value) value {
			panic(unsupported(n + " is not modelled by the scheduler"))
		})
	}
	for _, n := range []string{"runtime.Gosched", "time.Sleep"} {
		schedOr(n, func(fr *frame, fn *ssa.Function, args []value) value {
			fr.in.yieldPoint()
			return nil
		})
	}
}
