package main

// Loading /repo (plus injected harness files) into go/ssa, registries of models and stubs.

import (
	"crypto/sha256"
	"fmt"
	"go/ast"
	"go/token"
	"go/types"
	"os"
	"path/filepath"
	"regexp"
	"sort"
	"strings"
	"sync"

	"golang.org/x/tools/go/packages"
	"golang.org/x/tools/go/ssa"
	"golang.org/x/tools/go/ssa/ssautil"
)

type intrinsicFn func(fr *frame, fn *ssa.Function, args []value) value

type Program struct {
	prog     *ssa.Program
	fset     *token.FileSet
	pkgs     []*packages.Package
	mainPkg  *ssa.Package
	repoDir  string
	stubs    map[string][]stubEntry // full name of replaced function -> harness functions (per call-site file)
	stubSpec []StubSpec
	harness  map[string]*HarnessDecl
	rtErr    types.Type
	opaqErr  *types.Named

	mu          sync.Mutex
	funcsUsed   map[*ssa.Function]bool
	modelsUsed  map[string]int
	assumptions map[string]bool
	intrCache   sync.Map // *ssa.Function -> intrinsicFn or nil marker
	noGo        map[string]bool
	externs     map[*ssa.Function]*ssa.Function
	needAsmStub bool
}

type stubEntry struct {
	fn    *ssa.Function
	files []string
	dir   string // absolute directory of the package whose call sites are redirected (for files=*)
}

type StubSpec struct {
	Target string // e.g. time.Now or (*pkg.T).Method
	Stub   string // harness function name
	Files  []string
	Method string // for method targets: the method name as it appears at call sites
	Dir    string // repo-relative package dir whose files are patched (default: the harness package)
	As     string // replacement text at call sites (default: the stub's name)
}

type HarnessDecl struct {
	Name  string
	Fn    *ssa.Function
	Opts  map[string]string
	Doc   string
	Known map[string]string
}

var rtTemplatePath string

// LoadSpec describes one package load: repo-relative package dir + harness files to inject.
type LoadSpec struct {
	RepoDir string
	PkgDir  string   // relative to repo, e.g. "trillian/ctfe"
	Files   []string // harness source files (absolute paths in /verif/harness/...)
	Tags    []string
	Aux     []AuxFile // harness files injected into other packages (stubs with exported knobs)
}

type AuxFile struct {
	Path   string   `json:"path"`
	PkgDir string   `json:"pkg_dir"`
	For    []string `json:"for,omitempty"`
}

var reHarnessDirective = regexp.MustCompile(`(?m)^//verif:(\w+)\s*(.*)$`)

// overlayFor builds the overlay map for a package load/replay.
func overlayFor(spec LoadSpec, pkgName string) (map[string][]byte, error) {
	ov := map[string][]byte{}
	dir := filepath.Join(spec.RepoDir, spec.PkgDir)
	for _, f := range spec.Files {
		b, err := os.ReadFile(f)
		if err != nil {
			return nil, err
		}
		b = []byte(strings.Replace(string(b), "package PKGNAME", "package "+pkgName, 1))
		ov[filepath.Join(dir, "zz_verif_"+filepath.Base(f))] = b
	}
	rt, err := os.ReadFile(rtTemplatePath)
	if err != nil {
		return nil, err
	}
	ov[filepath.Join(dir, "zz_verif_rt.go")] = []byte(strings.Replace(string(rt), "package PKGNAME", "package "+pkgName, 1))
	for _, a := range spec.Aux {
		b, err := os.ReadFile(a.Path)
		if err != nil {
			return nil, err
		}
		an, err := packageNameOf(a.Path)
		if err != nil {
			return nil, err
		}
		adir := filepath.Join(spec.RepoDir, a.PkgDir)
		ov[filepath.Join(adir, "zz_verif_"+filepath.Base(a.Path))] = b
		ov[filepath.Join(adir, "zz_verif_rt.go")] = []byte(strings.Replace(string(rt), "package PKGNAME", "package "+an, 1))
	}
	return ov, nil
}

func packageNameOf(file string) (string, error) {
	b, err := os.ReadFile(file)
	if err != nil {
		return "", err
	}
	m := regexp.MustCompile(`(?m)^package\s+(\w+)`).FindSubmatch(b)
	if m == nil {
		return "", fmt.Errorf("%s: no package clause", file)
	}
	return string(m[1]), nil
}

func LoadProgram(spec LoadSpec) (*Program, error) {
	if len(spec.Files) == 0 {
		return nil, fmt.Errorf("no harness files")
	}
	pkgName, err := specPackageName(spec)
	if err != nil {
		return nil, err
	}
	ov, err := overlayFor(spec, pkgName)
	if err != nil {
		return nil, err
	}
	fset := token.NewFileSet()
	cfg := &packages.Config{
		Mode:       packages.LoadAllSyntax,
		Dir:        spec.RepoDir,
		Fset:       fset,
		Overlay:    ov,
		BuildFlags: []string{"-tags=" + strings.Join(append([]string{"verif"}, spec.Tags...), ",")},
		Env:        append(os.Environ(), "GOFLAGS=-mod=mod", "GOPROXY=off", "GOSUMDB=off", "GOTOOLCHAIN=local", "CGO_ENABLED=0"),
	}
	pkgs, err := packages.Load(cfg, "./"+spec.PkgDir)
	if err != nil {
		return nil, err
	}
	var errs []string
	packages.Visit(pkgs, nil, func(p *packages.Package) {
		for _, e := range p.Errors {
			errs = append(errs, e.Error())
		}
	})
	if len(errs) > 0 {
		if len(errs) > 10 {
			errs = errs[:10]
		}
		return nil, fmt.Errorf("load errors:\n%s", strings.Join(errs, "\n"))
	}
	prog, spkgs := ssautil.AllPackages(pkgs, ssa.InstantiateGenerics|ssa.SanityCheckFunctions&0)
	prog.Build()
	P := &Program{prog: prog, fset: fset, pkgs: pkgs, repoDir: spec.RepoDir,
		stubs: map[string][]stubEntry{}, harness: map[string]*HarnessDecl{},
		funcsUsed: map[*ssa.Function]bool{}, modelsUsed: map[string]int{}, assumptions: map[string]bool{}, noGo: map[string]bool{}, externs: map[*ssa.Function]*ssa.Function{}}
	P.mainPkg = spkgs[0]
	if P.mainPkg == nil {
		return nil, fmt.Errorf("no SSA package for %s", spec.PkgDir)
	}
	if rp := prog.ImportedPackage("runtime"); rp != nil {
		if tn := rp.Type("errorString"); tn != nil {
			P.rtErr = tn.Type()
		}
	}
	errT := types.Universe.Lookup("error").Type()
	P.opaqErr = types.NewNamed(types.NewTypeName(token.NoPos, types.NewPackage("gosym", "gosym"), "opaqueError", nil),
		types.NewStruct([]*types.Var{
			types.NewField(token.NoPos, nil, "msg", types.Typ[types.String], false),
			types.NewField(token.NoPos, nil, "wrapped", errT, false),
			types.NewField(token.NoPos, nil, "id", types.Typ[types.Int], false)}, nil), nil)
	if P.rtErr == nil {
		P.rtErr = P.opaqErr
	}
	// harness declarations and directives
	type synFile struct {
		f    *ast.File
		spkg *ssa.Package
		dir  string
	}
	var synFiles []synFile
	for _, f := range pkgs[0].Syntax {
		synFiles = append(synFiles, synFile{f, P.mainPkg, spec.PkgDir})
	}
	if len(spec.Aux) > 0 {
		auxDirs := map[string]string{}
		for _, a := range spec.Aux {
			auxDirs[filepath.Join(spec.RepoDir, a.PkgDir)] = a.PkgDir
		}
		packages.Visit(pkgs, nil, func(p *packages.Package) {
			if len(p.GoFiles) == 0 {
				return
			}
			rel, ok := auxDirs[filepath.Dir(p.GoFiles[0])]
			if !ok || p == pkgs[0] {
				return
			}
			sp := prog.Package(p.Types)
			for _, f := range p.Syntax {
				synFiles = append(synFiles, synFile{f, sp, rel})
			}
		})
	}
	for _, sf := range synFiles {
		f := sf.f
		fname := fset.Position(f.Pos()).Filename
		if !strings.HasPrefix(filepath.Base(fname), "zz_verif_") {
			continue
		}
		for _, d := range f.Decls {
			fd, ok := d.(*ast.FuncDecl)
			if !ok || fd.Recv != nil {
				continue
			}
			doc := ""
			if fd.Doc != nil {
				for _, c := range fd.Doc.List {
					doc += c.Text + "\n"
				}
			}
			opts := map[string]string{}
			known := map[string]string{}
			for _, m := range reHarnessDirective.FindAllStringSubmatch(doc, -1) {
				switch m[1] {
				case "stub":
					// //verif:stub <target> [files=a.go,b.go]
					parts := strings.Fields(m[2])
					if len(parts) == 0 {
						continue
					}
					ss := StubSpec{Target: parts[0], Stub: fd.Name.Name, Dir: sf.dir}
					for _, p := range parts[1:] {
						if strings.HasPrefix(p, "files=") {
							ss.Files = strings.Split(strings.TrimPrefix(p, "files="), ",")
						}
						if strings.HasPrefix(p, "dir=") {
							ss.Dir = strings.TrimPrefix(p, "dir=")
						}
						if strings.HasPrefix(p, "as=") {
							ss.As = strings.TrimPrefix(p, "as=")
						}
						if strings.HasPrefix(p, "method=") {
							ss.Method = strings.TrimPrefix(p, "method=")
						}
					}
					P.stubSpec = append(P.stubSpec, ss)
					stubFn := sf.spkg.Func(fd.Name.Name)
					if stubFn == nil {
						return nil, fmt.Errorf("stub function %s not found", fd.Name.Name)
					}
					P.stubs[parts[0]] = append(P.stubs[parts[0]], stubEntry{fn: stubFn, files: ss.Files, dir: filepath.Join(spec.RepoDir, ss.Dir)})
				case "opt":
					for _, p := range strings.Fields(m[2]) {
						if kv := strings.SplitN(p, "=", 2); len(kv) == 2 {
							opts[kv[0]] = kv[1]
						}
					}
				case "known":
					parts := strings.SplitN(strings.TrimSpace(m[2]), " ", 2)
					if len(parts) == 2 {
						known[parts[0]] = parts[1]
					} else if len(parts) == 1 {
						known[parts[0]] = ""
					}
				case "extern":
					// //verif:extern <pkgpath>.<func>: bodiless harness declaration bound to an (unexported) function
					tgt := strings.TrimSpace(m[2])
					i := strings.LastIndex(tgt, ".")
					if i < 0 {
						return nil, fmt.Errorf("bad extern %q", tgt)
					}
					tp := prog.ImportedPackage(tgt[:i])
					if tp == nil {
						return nil, fmt.Errorf("extern: package %s not in program", tgt[:i])
					}
					tf := tp.Func(tgt[i+1:])
					hf := sf.spkg.Func(fd.Name.Name)
					if tf == nil || hf == nil {
						return nil, fmt.Errorf("extern: function %s not found", tgt)
					}
					P.externs[hf] = tf
				case "nogo":
					for _, p := range strings.Fields(m[2]) {
						P.noGo[p] = true
					}
				}
			}
			if strings.HasPrefix(fd.Name.Name, "Harness_") && sf.spkg == P.mainPkg {
				fn := P.mainPkg.Func(fd.Name.Name)
				if fn == nil {
					return nil, fmt.Errorf("harness %s has no SSA function", fd.Name.Name)
				}
				P.harness[fd.Name.Name] = &HarnessDecl{Name: fd.Name.Name, Fn: fn, Opts: opts, Doc: doc, Known: known}
			}
		}
	}
	return P, nil
}

func (P *Program) harnessNames() []string {
	var ns []string
	for n := range P.harness {
		ns = append(ns, n)
	}
	sort.Strings(ns)
	return ns
}

func (P *Program) runtimeErrType() types.Type { return P.rtErr }

func (P *Program) noteFunc(fn *ssa.Function) {
	P.mu.Lock()
	P.funcsUsed[fn] = true
	P.mu.Unlock()
}

// Usage notes are buffered per goroutine-local path and merged at path end (see flushNotes);
// these helpers are only safe to call through the Interp wrappers.
func (P *Program) mergeNotes(models map[string]int, assumptions map[string]bool) {
	P.mu.Lock()
	for k, v := range models {
		P.modelsUsed[k] += v
	}
	for k := range assumptions {
		P.assumptions[k] = true
	}
	P.mu.Unlock()
}

func (P *Program) skipGo(f *ssa.Function) bool { return P.noGo[f.String()] }

var skipInitPkgs = map[string]bool{
	"net/http": true, "net": true, "os": true, "runtime": true, "syscall": true, "internal/poll": true,
	"crypto/tls": true, "flag": true, "testing": true, "log": true,
	"k8s.io/klog/v2": true, "google.golang.org/grpc": true, "google.golang.org/protobuf/internal/impl": true,
	"reflect": true, "internal/godebug": true, "internal/cpu": true, "golang.org/x/sys/cpu": true,
	"os/signal": true, "os/exec": true, "net/http/httptrace": true, "mime": true, "mime/multipart": true,
	"golang.org/x/net/http2": true, "golang.org/x/net/trace": true, "expvar": true,
}

func (P *Program) skipInit(path string) bool {
	if skipInitPkgs[path] {
		return true
	}
	if strings.HasPrefix(path, "google.golang.org/grpc/") && path != "google.golang.org/grpc/codes" {
		return true
	}
	if strings.HasPrefix(path, "google.golang.org/protobuf/") || strings.HasPrefix(path, "google.golang.org/genproto/") {
		return true
	}
	if strings.HasPrefix(path, "github.com/prometheus/") || strings.HasPrefix(path, "go.etcd.io/") {
		return true
	}
	return false
}

// funcHash identifies the SSA text of a function (proof that the encoding came from the tree).
func funcHash(fn *ssa.Function) string {
	var sb strings.Builder
	fn.WriteTo(&sb)
	h := sha256.Sum256([]byte(sb.String()))
	return fmt.Sprintf("%x", h[:6])
}

type FuncInfo struct {
	Name string `json:"name"`
	Pos  string `json:"pos"`
	Hash string `json:"ssa_sha256_48"`
}

// repoFuncs lists the interpreted functions that live in /repo (excluding harness files).
func (P *Program) repoFuncs() (repo []FuncInfo, other int) {
	P.mu.Lock()
	defer P.mu.Unlock()
	for fn := range P.funcsUsed {
		pos := P.fset.Position(fn.Pos())
		if strings.HasPrefix(pos.Filename, P.repoDir+"/") && !strings.HasPrefix(filepath.Base(pos.Filename), "zz_verif_") {
			repo = append(repo, FuncInfo{Name: fn.String(), Pos: fmt.Sprintf("%s:%d", shortFile(pos.Filename), pos.Line), Hash: funcHash(fn)})
		} else {
			other++
		}
	}
	sort.Slice(repo, func(i, j int) bool { return repo[i].Name < repo[j].Name })
	return
}

// specPackageName takes the package name from the first harness file that names one.
func specPackageName(spec LoadSpec) (string, error) {
	for _, f := range spec.Files {
		n, err := packageNameOf(f)
		if err != nil {
			return "", err
		}
		if n != "PKGNAME" {
			return n, nil
		}
	}
	return "", fmt.Errorf("no harness file names the package")
}
