package main

// Models: harness API, run-time leaves, small library models. Every model used in a run is
// counted and listed in the evidence.

import (
	"fmt"
	"go/types"
	"os"
	"path/filepath"
	"strconv"
	"strings"

	"golang.org/x/tools/go/ssa"
)

var noopPkgPrefixes = []string{
	"k8s.io/klog/v2",
	"log",
	"github.com/prometheus/",
	"go.opencensus.io/",
	"go.opentelemetry.io/",
	"runtime/debug",
	"runtime/trace",
	"runtime/pprof",
	"internal/race",
	"expvar",
}

func pkgPathOf(fn *ssa.Function) string {
	if fn.Pkg != nil {
		return fn.Pkg.Pkg.Path()
	}
	if o := fn.Object(); o != nil && o.Pkg() != nil {
		return o.Pkg().Path()
	}
	if fn.Parent() != nil {
		return pkgPathOf(fn.Parent())
	}
	if fn.Origin() != nil {
		return pkgPathOf(fn.Origin())
	}
	return ""
}

type nilIntr struct{}

func (P *Program) intrinsicFor(fn *ssa.Function) intrinsicFn {
	if v, ok := P.intrCache.Load(fn); ok {
		if f, ok := v.(intrinsicFn); ok {
			return f
		}
		return nil
	}
	f := P.findIntrinsic(fn)
	if f == nil {
		P.intrCache.Store(fn, nilIntr{})
	} else {
		P.intrCache.Store(fn, f)
	}
	return f
}

func (P *Program) findIntrinsic(fn *ssa.Function) intrinsicFn {
	name := fn.String()
	if o := fn.Origin(); o != nil {
		name = o.String()
	}
	if tgt, ok := P.externs[fn]; ok {
		return func(fr *frame, _ *ssa.Function, args []value) value {
			return fr.in.callSSA(fr, tgt, args, nil)
		}
	}
	// harness runtime API (functions of the package under test named v<Upper>…)
	if fn.Parent() == nil && fn.Signature.Recv() == nil && fn.Pkg != nil {
		if h, ok := harnessAPI[fn.Name()]; ok {
			if fn.Pkg == P.mainPkg || strings.HasSuffix(P.fset.Position(fn.Pos()).Filename, "zz_verif_rt.go") {
				return h
			}
		}
	}
	if entries, ok := P.stubs[name]; ok {
		orig := intrinsics[name]
		return func(fr *frame, f *ssa.Function, args []value) value {
			var stub *ssa.Function
			if fr != nil && fr.fn != nil {
				cf := fr.fn
				for cf.Parent() != nil {
					cf = cf.Parent()
				}
				fname := P.fset.Position(cf.Pos()).Filename
				base := filepath.Base(fname)
				if strings.HasPrefix(cf.Synthetic, "thunk") {
					// a method expression (T).m used as a function value: the call site is wherever the
					// value is called (a harness), not the method's own file
					base, fname = "", ""
				}
				for _, e := range entries {
					if cf == e.fn {
						stub = nil // the stub itself may call the function it replaces
						break
					}
					if len(e.files) == 0 {
						stub = e.fn
						break
					}
					for _, fl := range e.files {
						if fl == base {
							stub = e.fn
						}
						// files=*: every call site in the package directory (harness files excluded)
						if fl == "*" && filepath.Dir(fname) == e.dir && !strings.HasPrefix(base, "zz_verif_") {
							stub = e.fn
						}
					}
					if stub != nil {
						break
					}
				}
			}
			if stub == nil {
				if orig != nil {
					return orig(fr, f, args)
				}
				return fr.in.callFunction(fr, f, args, nil)
			}
			// a stub may declare a parameter as an interface where the replaced function has a
			// concrete type (so that it survives signature changes): box the argument
			if len(stub.Params) == len(args) && len(f.Params) == len(args) {
				var boxed []value
				for i, sp := range stub.Params {
					if _, already := args[i].(iface); !already && types.IsInterface(sp.Type()) && !types.IsInterface(f.Params[i].Type()) {
						if boxed == nil {
							boxed = append([]value(nil), args...)
						}
						boxed[i] = iface{t: f.Params[i].Type(), v: args[i]}
					}
				}
				if boxed != nil {
					args = boxed
				}
			}
			return fr.in.callFunction(fr, stub, args, nil)
		}
	}
	if h, ok := intrinsics[name]; ok {
		return h
	}
	path := pkgPathOf(fn)
	for _, p := range noopPkgPrefixes {
		if path == p || (strings.HasSuffix(p, "/") && strings.HasPrefix(path, p)) || strings.HasPrefix(path, p+"/") {
			return noopIntrinsic
		}
	}
	return nil
}

func noopIntrinsic(fr *frame, fn *ssa.Function, args []value) value {
	res := fn.Signature.Results()
	switch res.Len() {
	case 0:
		return nil
	case 1:
		return fr.in.zero(res.At(0).Type())
	}
	return fr.in.zero(res)
}

// ---- opaque errors and other engine-defined dynamic types ----

func (P *Program) isEngineType(t types.Type) bool { return t == P.opaqErr || t == rtypeNamed }

func (P *Program) engineImplements(t types.Type, it *types.Interface) bool {
	if t == rtypeNamed {
		for i := 0; i < it.NumMethods(); i++ {
			if rtypeMethods[it.Method(i).Name()] == nil && it.Method(i).Exported() {
				return false
			}
		}
		return true
	}
	if t == P.opaqErr {
		// implements exactly interfaces whose only method is Error() string
		return it.NumMethods() == 0 || (it.NumMethods() == 1 && it.Method(0).Name() == "Error")
	}
	return false
}

func (P *Program) engineMethod(t types.Type, name string) *boundIntrinsic {
	if t == rtypeNamed {
		if m := rtypeMethods[name]; m != nil {
			return m
		}
		panic(unsupported("reflect.Type method " + name))
	}
	if t == P.opaqErr && name == "Error" {
		return &boundIntrinsic{name: "opaqueError.Error", fn: func(fr *frame, args []value) value {
			return args[0].(structure)[0]
		}}
	}
	if t == P.rtErr && P.rtErr != P.opaqErr {
		switch name {
		case "Error":
			return &boundIntrinsic{name: "runtime.errorString.Error", fn: func(fr *frame, args []value) value { return args[0] }}
		case "RuntimeError":
			return &boundIntrinsic{name: "runtime.errorString.RuntimeError", fn: func(fr *frame, args []value) value { return nil }}
		}
	}
	return nil
}

// opaqueError builds an error value with message and optional wrapped error.
func (in *Interp) opaqueError(msg string, wrapped value) value {
	if wrapped == nil {
		wrapped = iface{}
	}
	in.errSeq++
	return iface{t: in.P.opaqErr, v: structure{msg, wrapped, in.ts.BV(64, uint64(in.errSeq))}}
}

// ---- harness API ----

var harnessAPI map[string]intrinsicFn

func init() {
	harnessAPI = map[string]intrinsicFn{
		"vI64":    nondetInt(64, "i64"),
		"vU64":    nondetInt(64, "u64"),
		"vInt":    nondetInt(64, "i64"),
		"vI32":    nondetInt(32, "i32"),
		"vU32":    nondetInt(32, "u32"),
		"vU16":    nondetInt(16, "u16"),
		"vU8":     nondetInt(8, "u8"),
		"vBool":   nondetBool,
		"vChoice": vChoice,
		"vBytes":  vBytes,
		"vAssume": vAssume,
		"vAssert": vAssert,
		"vReach":  vReach,
		"vFail":   vFail,
		"vDecStr": vDecStr,
		"vSame":   vSame,
		"vByDesign": func(fr *frame, fn *ssa.Function, args []value) value {
			id, _ := concreteString(args[0])
			c := args[1].(*Term)
			if !c.IsFalse() {
				r, _ := fr.in.ctx.Check(c, fr.in.ctx.branchTO, nil)
				if r != Unsat {
					h := fr.in.res()
					h.mu.Lock()
					h.ByDesign[id]++
					h.mu.Unlock()
				}
			}
			return c
		},
		"vYield": func(fr *frame, fn *ssa.Function, args []value) value { fr.in.yieldPoint(); return nil },
		"vSched": func(fr *frame, fn *ssa.Function, args []value) value {
			tag, _ := concreteString(args[0])
			if len(fr.in.sch.log) < 2000 {
				fr.in.sch.log = append(fr.in.sch.log, "+"+tag)
			}
			fr.in.schedPoint("vSched")
			if len(fr.in.sch.log) < 2000 {
				fr.in.sch.log = append(fr.in.sch.log, "-"+tag)
			}
			return nil
		},
		"vTier": func(fr *frame, fn *ssa.Function, args []value) value {
			if fr.in.cfg.Tier == "thorough" {
				return fr.in.ts.BV(64, 1)
			}
			return fr.in.ts.BV(64, 0)
		},
		"vSymbolic": func(fr *frame, fn *ssa.Function, args []value) value { return fr.in.ts.True },
		"vNote": func(fr *frame, fn *ssa.Function, args []value) value {
			if os.Getenv("GOSYM_DEBUG") != "" {
				var parts []string
				if va, ok := args[0].([]value); ok {
					for _, a := range va {
						parts = append(parts, fr.in.showArg(a)+"="+showValue(a))
					}
				}
				fmt.Fprintln(os.Stderr, "NOTE:", strings.Join(parts, " | "))
			}
			return nil
		},
		"vJSONEncode": vJSONEncode,
		"vJSONDecode": vJSONDecode,
		"vGhostSet": func(fr *frame, fn *ssa.Function, args []value) value {
			k, _ := concreteString(args[0])
			fr.in.ghost["h:"+k] = args[1]
			return nil
		},
		"vGhostGet": func(fr *frame, fn *ssa.Function, args []value) value {
			k, _ := concreteString(args[0])
			if v, ok := fr.in.ghost["h:"+k]; ok {
				return v
			}
			return iface{}
		},
		"vMaxAlloc": func(fr *frame, fn *ssa.Function, args []value) value {
			a, _ := fr.in.ghost["maxalloc"].(int)
			return fr.in.ts.BV(64, uint64(a))
		},
		"vResetAlloc": func(fr *frame, fn *ssa.Function, args []value) value {
			delete(fr.in.ghost, "maxalloc")
			return nil
		},
	}
}

func argName(args []value, i int) string {
	if i < len(args) {
		if s, ok := concreteString(args[i]); ok {
			return s
		}
	}
	return "x"
}

func (in *Interp) newTape(name, kind string, w int) *TapeEntry {
	e := &TapeEntry{Name: fmt.Sprintf("%s#%d", name, len(in.tape)), Kind: kind, W: w}
	in.tape = append(in.tape, e)
	return e
}

func nondetInt(w int, kind string) intrinsicFn {
	return func(fr *frame, fn *ssa.Function, args []value) value {
		in := fr.in
		e := in.newTape(argName(args, 0), kind, w)
		e.term = in.ts.Var(e.Name, w)
		return e.term
	}
}

func nondetBool(fr *frame, fn *ssa.Function, args []value) value {
	in := fr.in
	e := in.newTape(argName(args, 0), "bool", 0)
	e.term = in.ts.Var(e.Name, 0)
	return e.term
}

func vChoice(fr *frame, fn *ssa.Function, args []value) value {
	in := fr.in
	n := in.concreteInt(args[1], "vChoice n")
	e := in.newTape(argName(args, 0), "choice", 64)
	c := in.choose(n, e.Name)
	e.cval = uint64(c)
	e.conc = true
	return in.ts.BV(64, uint64(c))
}

func vBytes(fr *frame, fn *ssa.Function, args []value) value {
	in := fr.in
	n := in.concreteInt(args[1], "vBytes n")
	name := argName(args, 0)
	out := make([]value, n)
	for i := 0; i < n; i++ {
		e := in.newTape(fmt.Sprintf("%s[%d]", name, i), "u8", 8)
		e.term = in.ts.Var(e.Name, 8)
		out[i] = e.term
	}
	return out
}

func vAssume(fr *frame, fn *ssa.Function, args []value) value {
	in := fr.in
	c := args[0].(*Term)
	if c.IsTrue() {
		return nil
	}
	if c.IsFalse() {
		panic(pathEnd{"assume", ""})
	}
	r, _ := in.ctx.Check(c, in.ctx.branchTO, nil)
	if r == Unsat {
		panic(pathEnd{"assume", ""})
	}
	if r == Unknown {
		in.res().noteUnknownBranch()
	}
	in.ctx.AddPC(c)
	return nil
}

func vAssert(fr *frame, fn *ssa.Function, args []value) value {
	label := argName(args, 1)
	fr.in.curFrame = fr.callerOrSelf()
	fr.in.checkObligation("assert", label, args[0].(*Term), "")
	return nil
}

func (fr *frame) callerOrSelf() *frame { return fr }

func vReach(fr *frame, fn *ssa.Function, args []value) value {
	h := fr.in.res()
	h.mu.Lock()
	h.Reach[argName(args, 0)]++
	h.mu.Unlock()
	return nil
}

func vFail(fr *frame, fn *ssa.Function, args []value) value {
	fr.in.checkObligation("fail", argName(args, 0), fr.in.ts.False, "")
	return nil
}

func vDecStr(fr *frame, fn *ssa.Function, args []value) value {
	t := args[0].(*Term)
	if t.IsConst() {
		return strconv.FormatInt(t.SVal(), 10)
	}
	return &decStr{t: t, signed: true}
}

// vSame(a, b []byte) reports structural identity of two slices (same backing store, offset, length).
func vSame(fr *frame, fn *ssa.Function, args []value) value {
	a, _ := args[0].([]value)
	b, _ := args[1].([]value)
	if len(a) != len(b) {
		return fr.in.ts.False
	}
	if len(a) == 0 {
		return fr.in.ts.True
	}
	return fr.in.ts.Bool(&a[0] == &b[0])
}

// JSON codec tokens: Marshal(x) = tok(x), Unmarshal(tok(x)) = x.
func vJSONEncode(fr *frame, fn *ssa.Function, args []value) value {
	return fr.in.jsonToken(args[0])
}

func (in *Interp) jsonToken(v value) value {
	in.ntok++
	tok := fmt.Sprintf("\x00json-token-%d\x00", in.ntok)
	in.jsonToks[tok] = deepCopy(v)
	return in.byteSlice([]byte(tok))
}

func vJSONDecode(fr *frame, fn *ssa.Function, args []value) value {
	return fr.in.jsonDecode(args[0], args[1])
}

// jsonDecode copies the tokenised value into *into; returns error iface.
func (in *Interp) jsonDecode(data value, into value) value {
	b, ok := concreteBytes(data)
	if !ok {
		return in.opaqueError("json: symbolic body is not a codec token", nil)
	}
	src, ok := in.jsonToks[string(b)]
	if !ok {
		return in.opaqueError("json: syntax error (body is not a codec token)", nil)
	}
	dst, ok := into.(iface)
	if !ok || dst.t == nil {
		return in.opaqueError("json: Unmarshal(nil)", nil)
	}
	p, ok := dst.v.(*value)
	if !ok || p == nil {
		return in.opaqueError("json: Unmarshal(non-pointer)", nil)
	}
	if _, isIface := under(deref(dst.t)).(*types.Interface); isIface {
		// Unmarshal into an interface holding a non-nil pointer decodes into the pointee
		if cur, ok := (*p).(iface); ok && cur.t != nil {
			if _, isPtr := under(cur.t).(*types.Pointer); isPtr {
				return in.jsonDecode(data, cur)
			}
		}
		return in.opaqueError("json: Unmarshal into bare interface is outside the codec-token model", nil)
	}
	sv := src
	if si, ok := src.(iface); ok {
		sv = si.v
		// pointer to struct marshals as the struct
		if sp, ok := sv.(*value); ok && sp != nil {
			sv = *sp
		}
		st := si.t
		if pt, ok := under(st).(*types.Pointer); ok {
			st = pt.Elem()
		}
		dt := deref(dst.t)
		if !types.Identical(st, dt) && !structurallySame(st, dt) {
			return in.opaqueError(fmt.Sprintf("json: cannot unmarshal %s into %s", st, dt), nil)
		}
	}
	*p = deepCopy(sv)
	return iface{}
}

func structurallySame(a, b types.Type) bool {
	return types.Identical(a.Underlying(), b.Underlying())
}

// deepCopy copies a value graph reachable through slices and pointers (tokens must not alias).
func deepCopy(v value) value {
	switch v := v.(type) {
	case structure:
		c := make(structure, len(v))
		for i, x := range v {
			c[i] = deepCopy(x)
		}
		return c
	case array:
		c := make(array, len(v))
		for i, x := range v {
			c[i] = deepCopy(x)
		}
		return c
	case []value:
		if v == nil {
			return v
		}
		c := make([]value, len(v))
		for i, x := range v {
			c[i] = deepCopy(x)
		}
		return c
	case *value:
		if v == nil {
			return v
		}
		p := new(value)
		*p = deepCopy(*v)
		return p
	case iface:
		return iface{t: v.t, v: deepCopy(v.v)}
	}
	return v
}

// ---- library models ----

var intrinsics = map[string]intrinsicFn{}

func reg(name string, f intrinsicFn) { intrinsics[name] = f }

func retZero(fr *frame, fn *ssa.Function, args []value) value { return noopIntrinsic(fr, fn, args) }

func init() {
	// sync
	for _, n := range []string{
		"(*sync.Mutex).Lock", "(*sync.Mutex).Unlock", "(*sync.RWMutex).Lock", "(*sync.RWMutex).Unlock",
		"(*sync.RWMutex).RLock", "(*sync.RWMutex).RUnlock", "(*sync.WaitGroup).Add", "(*sync.WaitGroup).Done",
		"(*sync.WaitGroup).Wait", "runtime.KeepAlive", "runtime.SetFinalizer", "runtime.Gosched",
		"(*sync.Cond).Broadcast", "(*sync.Cond).Signal", "runtime.GC", "(*internal/godebug.Setting).IncNonDefault",
		"os.Exit", "time.Sleep", "sync.runtime_registerPoolCleanup", "sync.runtime_notifyListCheck",
		"(*github.com/google/trillian/monitoring.InertFloat).Inc", "(*github.com/google/trillian/monitoring.InertFloat).Dec",
		"(*github.com/google/trillian/monitoring.InertFloat).Add", "(*github.com/google/trillian/monitoring.InertFloat).Set",
		"(*github.com/google/trillian/monitoring.InertFloat).Value", "(*github.com/google/trillian/monitoring.InertDistribution).Observe",
		"(*github.com/google/trillian/monitoring.InertDistribution).Info",
	} {
		reg(n, retZero)
	}
	ident := func(fr *frame, fn *ssa.Function, args []value) value { return args[0] }
	reg("internal/abi.NoEscape", ident)
	reg("strings.noescape", ident)
	reg("internal/abi.Escape", ident)
	reg("internal/stringslite.Clone", ident)
	reg("strings.Clone", ident)
	reg("time.runtimeNano", func(fr *frame, fn *ssa.Function, args []value) value { return fr.in.ts.BV(64, 1000) })
	reg("runtime.GOROOT", func(fr *frame, fn *ssa.Function, args []value) value { return "/usr/lib/go" })
	reg("os.Getenv", func(fr *frame, fn *ssa.Function, args []value) value { return "" })
	reg("syscall.Getenv", func(fr *frame, fn *ssa.Function, args []value) value { return tuple{"", fr.in.ts.False} })
	reg("(*sync.Mutex).TryLock", func(fr *frame, fn *ssa.Function, args []value) value { return fr.in.ts.True })
	// sync.Pool: Get hands back the item most recently Put, if any (the behaviour of the real
	// per-P cache on one P; a legal behaviour of any Pool), else New(). Put / Get synchronise
	// (the item's hand-over is a happens-before edge, as in the real Pool).
	type poolState struct {
		items []value
		vc    vclock
	}
	poolOf := func(fr *frame, p *value) *poolState {
		key := fmt.Sprintf("pool:%p", p)
		ps, _ := fr.in.ghost[key].(*poolState)
		if ps == nil {
			ps = &poolState{}
			fr.in.ghost[key] = ps
		}
		return ps
	}
	reg("(*sync.Pool).Put", func(fr *frame, fn *ssa.Function, args []value) value {
		p := args[0].(*value)
		if isNilValue(args[1]) {
			return nil
		}
		ps := poolOf(fr, p)
		ps.items = append(ps.items, args[1])
		if fr.in.sch.on && fr.in.sch.cur != nil {
			fr.in.hbRelease(fr.in.sch.cur, &ps.vc)
		}
		return nil
	})
	reg("(*sync.Pool).Get", func(fr *frame, fn *ssa.Function, args []value) value {
		p := args[0].(*value)
		ps := poolOf(fr, p)
		if n := len(ps.items); n > 0 {
			it := ps.items[n-1]
			ps.items = ps.items[:n-1]
			if fr.in.sch.on && fr.in.sch.cur != nil {
				fr.in.hbAcquire(fr.in.sch.cur, &ps.vc)
			}
			return it
		}
		st := (*p).(structure)
		// field "New" is the last field of sync.Pool
		newFn := st[len(st)-1]
		if isNilValue(newFn) {
			return iface{}
		}
		return fr.in.callValue(fr, newFn, nil, nil)
	})
	reg("(*sync.Once).Do", func(fr *frame, fn *ssa.Function, args []value) value {
		p := args[0].(*value)
		key := fmt.Sprintf("once:%p", p)
		if _, done := fr.in.ghost[key]; done {
			return nil
		}
		fr.in.ghost[key] = true
		fr.in.callValue(fr, args[1], nil, nil)
		return nil
	})
	reg("(*internal/godebug.Setting).Value", func(fr *frame, fn *ssa.Function, args []value) value { return "" })
	reg("runtime.GOMAXPROCS", func(fr *frame, fn *ssa.Function, args []value) value { return fr.in.ts.BV(64, 1) })
	reg("runtime.NumCPU", func(fr *frame, fn *ssa.Function, args []value) value { return fr.in.ts.BV(64, 1) })

	// sync/atomic
	for _, ty := range []string{"Int32", "Int64", "Uint32", "Uint64", "Uintptr", "Pointer"} {
		ty := ty
		reg("sync/atomic.Load"+ty, func(fr *frame, fn *ssa.Function, args []value) value { return fr.in.load(args[0]) })
		reg("sync/atomic.Store"+ty, func(fr *frame, fn *ssa.Function, args []value) value {
			fr.in.store(args[0], args[1])
			return nil
		})
		reg("sync/atomic.Swap"+ty, func(fr *frame, fn *ssa.Function, args []value) value {
			old := fr.in.load(args[0])
			fr.in.store(args[0], args[1])
			return old
		})
		reg("sync/atomic.CompareAndSwap"+ty, func(fr *frame, fn *ssa.Function, args []value) value {
			in := fr.in
			old := in.load(args[0])
			eq := in.equals(nil, old, args[1])
			if in.branch(eq) {
				in.store(args[0], args[2])
				return in.ts.True
			}
			return in.ts.False
		})
		if ty != "Pointer" {
			reg("sync/atomic.Add"+ty, func(fr *frame, fn *ssa.Function, args []value) value {
				in := fr.in
				old := in.load(args[0]).(*Term)
				nv := in.ts.Arith(OpAdd, old, args[1].(*Term))
				in.store(args[0], nv)
				return nv
			})
			reg("sync/atomic.And"+ty, func(fr *frame, fn *ssa.Function, args []value) value {
				in := fr.in
				old := in.load(args[0]).(*Term)
				in.store(args[0], in.ts.Arith(OpBAnd, old, args[1].(*Term)))
				return old
			})
			reg("sync/atomic.Or"+ty, func(fr *frame, fn *ssa.Function, args []value) value {
				in := fr.in
				old := in.load(args[0]).(*Term)
				in.store(args[0], in.ts.Arith(OpBOr, old, args[1].(*Term)))
				return old
			})
		}
	}
	reg("(*sync/atomic.Value).Load", func(fr *frame, fn *ssa.Function, args []value) value {
		p := args[0].(*value)
		return (*p).(structure)[0]
	})
	reg("(*sync/atomic.Value).Store", func(fr *frame, fn *ssa.Function, args []value) value {
		p := args[0].(*value)
		(*p).(structure)[0] = args[1]
		return nil
	})

	// internal/bytealg and friends
	reg("internal/bytealg.IndexByte", func(fr *frame, fn *ssa.Function, args []value) value {
		return fr.in.indexByte(bytesOfSlice(args[0]), args[1].(*Term))
	})
	reg("internal/bytealg.IndexByteString", func(fr *frame, fn *ssa.Function, args []value) value {
		return fr.in.indexByte(fr.in.strBytes(args[0]), args[1].(*Term))
	})
	reg("internal/bytealg.Count", func(fr *frame, fn *ssa.Function, args []value) value {
		return fr.in.countByte(bytesOfSlice(args[0]), args[1].(*Term))
	})
	reg("internal/bytealg.CountString", func(fr *frame, fn *ssa.Function, args []value) value {
		return fr.in.countByte(fr.in.strBytes(args[0]), args[1].(*Term))
	})
	reg("internal/bytealg.Equal", func(fr *frame, fn *ssa.Function, args []value) value {
		return fr.in.bytesEq(bytesOfSlice(args[0]), bytesOfSlice(args[1]))
	})
	reg("bytes.Equal", func(fr *frame, fn *ssa.Function, args []value) value {
		return fr.in.bytesEq(bytesOfSlice(args[0]), bytesOfSlice(args[1]))
	})
	reg("internal/bytealg.Compare", func(fr *frame, fn *ssa.Function, args []value) value {
		return fr.in.bytesCompare(bytesOfSlice(args[0]), bytesOfSlice(args[1]))
	})
	reg("bytes.Compare", func(fr *frame, fn *ssa.Function, args []value) value {
		return fr.in.bytesCompare(bytesOfSlice(args[0]), bytesOfSlice(args[1]))
	})
	reg("internal/bytealg.MakeNoZero", func(fr *frame, fn *ssa.Function, args []value) value {
		n := fr.in.concreteInt(args[0], "MakeNoZero")
		out := make([]value, n)
		for i := range out {
			out[i] = fr.in.ts.BV(8, 0)
		}
		return out
	})
	reg("internal/bytealg.Index", func(fr *frame, fn *ssa.Function, args []value) value {
		return fr.in.indexConcrete(args[0], args[1])
	})
	reg("internal/bytealg.IndexString", func(fr *frame, fn *ssa.Function, args []value) value {
		return fr.in.indexConcrete(args[0], args[1])
	})
	reg("internal/stringslite.Index", func(fr *frame, fn *ssa.Function, args []value) value {
		return fr.in.indexConcrete(args[0], args[1])
	})
	reg("strings.Index", func(fr *frame, fn *ssa.Function, args []value) value {
		return fr.in.indexConcrete(args[0], args[1])
	})
	reg("internal/bytealg.IndexRabinKarp", nil)
	delete(intrinsics, "internal/bytealg.IndexRabinKarp")

	// flag: definitions allocate a cell holding the default
	for _, n := range []string{"Bool", "Int", "Int64", "Uint", "Uint64", "String", "Float64", "Duration"} {
		reg("flag."+n, func(fr *frame, fn *ssa.Function, args []value) value {
			p := new(value)
			*p = args[1]
			return p
		})
	}
	reg("(*net/http.Request).FormValue", func(fr *frame, fn *ssa.Function, args []value) value {
		in := fr.in
		p := args[0].(*value)
		if p == nil {
			in.rtPanic("nil *http.Request")
		}
		st := (*p).(structure)
		rt := deref(fn.Signature.Recv().Type())
		form := st[fieldIndex(rt, "Form")].(*hmap)
		if form == nil {
			panic(unsupported("http.Request.FormValue with nil Form (the harness must pre-parse the form)"))
		}
		k := in.mapKey(form, args[1])
		if e, ok := form.get(k); ok {
			if vs := e.v.([]value); len(vs) > 0 {
				return vs[0]
			}
		}
		return ""
	})
	// strconv tokens
	reg("strconv.ParseInt", func(fr *frame, fn *ssa.Function, args []value) value {
		in := fr.in
		if d, ok := args[0].(*decStr); ok && !d.t.IsConst() {
			base, bits := args[1].(*Term), args[2].(*Term)
			if base.IsConst() && (base.val == 10 || base.val == 0) && bits.IsConst() && (bits.val == 64 || bits.val == 0) && d.signed {
				in.noteModelName("strconv.ParseInt(dec(t)) = (t, nil)")
				return tuple{d.t, iface{}}
			}
			panic(unsupported("strconv.ParseInt on a decimal token with unusual base/size"))
		}
		if _, ok := args[0].(*symStr); ok {
			panic(unsupported("strconv.ParseInt on symbolic bytes"))
		}
		return in.callFunction(fr, fn, args, nil)
	})
	reg("strconv.Atoi", func(fr *frame, fn *ssa.Function, args []value) value {
		in := fr.in
		if d, ok := args[0].(*decStr); ok && !d.t.IsConst() && d.signed {
			in.noteModelName("strconv.Atoi(dec(t)) = (t, nil)")
			return tuple{d.t, iface{}}
		}
		if _, ok := args[0].(*symStr); ok {
			panic(unsupported("strconv.Atoi on symbolic bytes"))
		}
		return in.callFunction(fr, fn, args, nil)
	})
	reg("strconv.FormatInt", func(fr *frame, fn *ssa.Function, args []value) value {
		in := fr.in
		t := args[0].(*Term)
		if !t.IsConst() {
			if b := args[1].(*Term); b.IsConst() && b.val == 10 {
				return &decStr{t: t, signed: true}
			}
			panic(unsupported("strconv.FormatInt of a symbolic value in base != 10"))
		}
		return in.callFunction(fr, fn, args, nil)
	})
	reg("strconv.Itoa", func(fr *frame, fn *ssa.Function, args []value) value {
		t := args[0].(*Term)
		if !t.IsConst() {
			return &decStr{t: t, signed: true}
		}
		return strconv.FormatInt(t.SVal(), 10)
	})
	reg("strconv.FormatBool", func(fr *frame, fn *ssa.Function, args []value) value {
		t := args[0].(*Term)
		if t.IsConst() {
			return strconv.FormatBool(t.val == 1)
		}
		return "<bool>"
	})

	// fmt: opaque
	reg("fmt.Sprintf", func(fr *frame, fn *ssa.Function, args []value) value {
		return fr.in.fmtOpaque(args[0], args[1])
	})
	reg("fmt.Sprint", func(fr *frame, fn *ssa.Function, args []value) value { return fr.in.fmtOpaque("", args[0]) })
	reg("fmt.Sprintln", func(fr *frame, fn *ssa.Function, args []value) value { return fr.in.fmtOpaque("", args[0]) })
	reg("fmt.Errorf", func(fr *frame, fn *ssa.Function, args []value) value {
		in := fr.in
		f, _ := concreteString(args[0])
		var wrapped value
		if strings.Contains(f, "%w") {
			if va, ok := args[1].([]value); ok {
				for _, a := range va {
					if ai, ok := a.(iface); ok && ai.t != nil && in.isErrorType(ai.t) {
						wrapped = ai
					}
				}
			}
		}
		s, _ := concreteString(in.fmtOpaque(args[0], args[1]))
		return in.opaqueError(s, wrapped)
	})
	for _, n := range []string{"fmt.Printf", "fmt.Println", "fmt.Print"} {
		reg(n, func(fr *frame, fn *ssa.Function, args []value) value {
			return tuple{fr.in.ts.BV(64, 0), iface{}}
		})
	}
	fprint := func(hasFormat bool) intrinsicFn {
		return func(fr *frame, fn *ssa.Function, args []value) value {
			in := fr.in
			w, _ := args[0].(iface)
			var txt value
			if hasFormat {
				txt = in.fmtOpaque(args[1], args[2])
			} else {
				txt = in.fmtOpaque("", args[1])
			}
			s, _ := concreteString(txt)
			if w.t == nil {
				in.rtPanic("invalid memory address or nil pointer dereference (nil io.Writer)")
			}
			wm := in.lookupMethodByName(w.t, "Write")
			res := in.callValue(fr, wm, []value{w.v, in.byteSlice([]byte(s + "\n"))}, nil).(tuple)
			return tuple{res[0], res[1]}
		}
	}
	reg("fmt.Fprintf", fprint(true))
	reg("fmt.Fprint", fprint(false))
	reg("fmt.Fprintln", fprint(false))
	reg("errors.Is", func(fr *frame, fn *ssa.Function, args []value) value {
		return fr.in.errorsIs(fr, args[0].(iface), args[1].(iface))
	})
	reg("errors.As", func(fr *frame, fn *ssa.Function, args []value) value {
		return fr.in.errorsAs(fr, args[0].(iface), args[1].(iface))
	})
	reg("errors.Unwrap", func(fr *frame, fn *ssa.Function, args []value) value {
		return fr.in.unwrapErr(fr, args[0].(iface))
	})
}

func (in *Interp) isErrorType(t types.Type) bool {
	if t == in.P.opaqErr {
		return true
	}
	errT := types.Universe.Lookup("error").Type().Underlying().(*types.Interface)
	return types.Implements(t, errT)
}

// fmtOpaque renders a format call: concrete arguments are formatted by the real fmt package,
// errors through their Error method, everything else as an opaque placeholder.
func (in *Interp) fmtOpaque(format value, va value) value {
	f, _ := concreteString(format)
	var goArgs []any
	if s, ok := va.([]value); ok {
		for _, a := range s {
			goArgs = append(goArgs, in.goArg(a))
		}
	}
	in.noteModelName("fmt.* = real formatting of concrete arguments, opaque placeholders for symbolic ones")
	if f == "" {
		return fmt.Sprint(goArgs...)
	}
	return fmt.Sprintf(f, goArgs...)
}

type fmtErrText struct{ s string }

func (e fmtErrText) Error() string { return e.s }

type fmtPlaceholder string

func (p fmtPlaceholder) String() string { return string(p) }

// goArg converts an interpreter value (boxed in an interface) to a native Go value for fmt.
func (in *Interp) goArg(a value) any {
	ai, ok := a.(iface)
	if !ok {
		return fmtPlaceholder("?")
	}
	if ai.t == nil {
		return nil
	}
	if in.isErrorType(ai.t) {
		return fmtErrText{in.showArg(a)}
	}
	switch v := ai.v.(type) {
	case *Term:
		if !v.IsConst() {
			return fmtPlaceholder("‹sym›")
		}
		w, signed, _ := intInfo(ai.t)
		if w == 0 {
			return v.val == 1
		}
		if signed {
			return v.SVal()
		}
		return v.val
	case string:
		return v
	case float64:
		return v
	case []value:
		if b, ok := concreteBytes(v); ok {
			if sl, isSl := under(ai.t).(*types.Slice); isSl {
				if w, _, _ := intInfo(sl.Elem()); w == 8 {
					return b
				}
			}
		}
	}
	return fmtPlaceholder("‹" + ai.t.String() + "›")
}

func (in *Interp) showArg(a value) string {
	ai, ok := a.(iface)
	if !ok {
		return "?"
	}
	if ai.t == nil {
		return "<nil>"
	}
	switch v := ai.v.(type) {
	case *Term:
		if v.IsConst() {
			if v.w == 0 {
				return fmt.Sprint(v.val == 1)
			}
			return fmt.Sprint(v.SVal())
		}
		return "‹sym›"
	case string:
		return v
	case structure:
		if ai.t == in.P.opaqErr {
			s, _ := v[0].(string)
			return s
		}
	}
	if in.isErrorType(ai.t) && in.curFrame != nil && in.fmtDepth < 3 {
		// render errors through their Error method when that yields concrete text
		in.fmtDepth++
		defer func() { in.fmtDepth-- }()
		var out string
		func() {
			defer func() {
				if r := recover(); r != nil {
					if _, isEnd := r.(pathEnd); isEnd {
						panic(r)
					}
					out = "‹" + ai.t.String() + "›"
				}
			}()
			m := in.lookupMethodByName(ai.t, "Error")
			res := in.callValue(in.curFrame, m, []value{ai.v}, nil)
			if s, ok := concreteString(res); ok {
				out = s
			} else {
				out = "‹" + ai.t.String() + "›"
			}
		}()
		return out
	}
	return "‹" + fmt.Sprint(ai.t) + "›"
}

func (in *Interp) unwrapErr(fr *frame, e iface) value {
	if e.t == nil {
		return iface{}
	}
	if e.t == in.P.opaqErr {
		return e.v.(structure)[1]
	}
	ms := in.P.prog.MethodSets.MethodSet(e.t)
	for i := 0; i < ms.Len(); i++ {
		sel := ms.At(i)
		if sel.Obj().Name() == "Unwrap" {
			sig := sel.Type().(*types.Signature)
			if sig.Params().Len() == 0 && sig.Results().Len() == 1 {
				if _, isSlice := under(sig.Results().At(0).Type()).(*types.Slice); isSlice {
					panic(unsupported("errors with Unwrap() []error"))
				}
				f := in.P.prog.MethodValue(sel)
				r := in.callSSA(fr, f, []value{e.v}, nil)
				if ri, ok := r.(iface); ok {
					return ri
				}
			}
		}
	}
	return iface{}
}

func (in *Interp) errorsIs(fr *frame, err, target iface) value {
	ts := in.ts
	for depth := 0; depth < 20; depth++ {
		if err.t == nil {
			return ts.Bool(target.t == nil)
		}
		if target.t != nil && types.Identical(err.t, target.t) && (err.t == in.P.opaqErr || types.Comparable(err.t)) {
			var eq *Term
			if err.t == in.P.opaqErr {
				eq = ts.Eq(err.v.(structure)[2].(*Term), target.v.(structure)[2].(*Term))
			} else {
				eq = in.equals(err.t, err.v, target.v)
			}
			if in.branch(eq) {
				return ts.True
			}
		}
		// Is(target) bool method
		if err.t != in.P.opaqErr {
			ms := in.P.prog.MethodSets.MethodSet(err.t)
			for i := 0; i < ms.Len(); i++ {
				sel := ms.At(i)
				if sel.Obj().Name() == "Is" {
					sig := sel.Type().(*types.Signature)
					if sig.Params().Len() == 1 && sig.Results().Len() == 1 {
						f := in.P.prog.MethodValue(sel)
						r := in.callSSA(fr, f, []value{err.v, target}, nil)
						if rt, ok := r.(*Term); ok && in.branch(rt) {
							return ts.True
						}
					}
				}
			}
		}
		next := in.unwrapErr(fr, err).(iface)
		if next.t == nil {
			return ts.False
		}
		err = next
	}
	panic(unsupported("errors.Is chain too deep"))
}

func (in *Interp) errorsAs(fr *frame, err, target iface) value {
	ts := in.ts
	if target.t == nil {
		in.rtPanic("errors: target cannot be nil")
	}
	pt, ok := under(target.t).(*types.Pointer)
	if !ok {
		in.rtPanic("errors: target must be a non-nil pointer")
	}
	want := pt.Elem()
	p := target.v.(*value)
	for depth := 0; depth < 20; depth++ {
		if err.t == nil {
			return ts.False
		}
		if it, isIface := under(want).(*types.Interface); isIface {
			if in.implements(err.t, it) {
				*p = err
				return ts.True
			}
		} else if types.Identical(err.t, want) {
			*p = copyVal(err.v)
			return ts.True
		}
		next := in.unwrapErr(fr, err).(iface)
		if next.t == nil {
			return ts.False
		}
		err = next
	}
	panic(unsupported("errors.As chain too deep"))
}

// ---- byte helpers ----

func (in *Interp) indexByte(b []*Term, c *Term) value {
	ts := in.ts
	res := ts.BV(64, ^uint64(0))
	for i := len(b) - 1; i >= 0; i-- {
		res = ts.Ite(ts.Eq(b[i], c), ts.BV(64, uint64(i)), res)
	}
	return res
}

func (in *Interp) countByte(b []*Term, c *Term) value {
	ts := in.ts
	res := ts.BV(64, 0)
	for i := range b {
		res = ts.Arith(OpAdd, res, ts.Ite(ts.Eq(b[i], c), ts.BV(64, 1), ts.BV(64, 0)))
	}
	return res
}

func (in *Interp) bytesEq(a, b []*Term) value {
	ts := in.ts
	if len(a) != len(b) {
		return ts.False
	}
	r := ts.True
	for i := range a {
		r = ts.And(r, ts.Eq(a[i], b[i]))
	}
	return r
}

func (in *Interp) bytesCompare(a, b []*Term) value {
	ts := in.ts
	n := len(a)
	if len(b) < n {
		n = len(b)
	}
	var res *Term
	switch {
	case len(a) < len(b):
		res = ts.BV(64, ^uint64(0))
	case len(a) > len(b):
		res = ts.BV(64, 1)
	default:
		res = ts.BV(64, 0)
	}
	for i := n - 1; i >= 0; i-- {
		res = ts.Ite(ts.Cmp(OpUlt, a[i], b[i]), ts.BV(64, ^uint64(0)), ts.Ite(ts.Cmp(OpUlt, b[i], a[i]), ts.BV(64, 1), res))
	}
	return res
}

func (in *Interp) indexConcrete(a, b value) value {
	toStr := func(v value) (string, bool) {
		if s, ok := concreteString(v); ok {
			return s, true
		}
		if bs, ok := concreteBytes(v); ok {
			return string(bs), true
		}
		return "", false
	}
	sa, ok1 := toStr(a)
	sb, ok2 := toStr(b)
	if !ok1 || !ok2 {
		panic(unsupported("substring search on symbolic text"))
	}
	return in.ts.BV(64, uint64(int64(strings.Index(sa, sb))))
}

func fieldIndex(t types.Type, name string) int {
	st := under(t).(*types.Struct)
	for i := 0; i < st.NumFields(); i++ {
		if st.Field(i).Name() == name {
			return i
		}
	}
	panic("no field " + name + " in " + t.String())
}
