package main

// Symbolic interpreter over go/ssa. One Interp per explored path (state is rebuilt by
// re-execution from the harness entry).

import (
	"fmt"
	"go/constant"
	"go/token"
	"go/types"
	"strings"
	"time"

	"golang.org/x/tools/go/ssa"
)

// pathEnd terminates the current path (Go panic payload).
type pathEnd struct {
	kind string // infeasible | assume | bound | unsupported | stop
	msg  string
}

func unsupported(msg string) pathEnd { return pathEnd{"unsupported", msg} }

// goPanic is a panic of the interpreted program.
type goPanic struct{ v value }

type deferred struct {
	fn    value
	args  []value
	instr *ssa.Defer
}

type frame struct {
	in        *Interp
	caller    *frame
	fn        *ssa.Function
	block     *ssa.BasicBlock
	prev      *ssa.BasicBlock
	env       map[ssa.Value]value
	defers    []*deferred
	result    value
	panicking bool
	panicVal  value
	recovered bool
	depth     int
	curInstr  ssa.Instruction
}

type TapeEntry struct {
	Name string `json:"name"`
	Kind string `json:"kind"` // i64,u64,u8,...,bool,choice,bytes
	W    int    `json:"w"`
	Val  string `json:"val"` // decimal (two's complement as unsigned) ; filled from model
	term *Term
	cval uint64
	conc bool
}

type Interp struct {
	P            *Program
	ts           *TermStore
	ctx          *Ctx
	run          *pathRun
	globals      map[*ssa.Global]*value
	pkgInit      map[*ssa.Package]int
	steps        int64
	maxSteps     int64
	maxDepth     int
	tape         []*TapeEntry
	ghost        map[string]value
	hashApps     []*hashApp
	nfresh       int
	curFrame     *frame
	jsonToks     map[string]value
	ntok         int
	errSeq       int
	timeSeq      int
	cfg          *HarnessCfg
	result       *HarnessResult
	lastPanicPos string
	fmtDepth     int
	funcsSeen    map[*ssa.Function]bool
	models       map[string]int
	assumes      map[string]bool
	sch          schedState
	deadline     time.Time
}

func (in *Interp) fresh(prefix string, w int) *Term {
	in.nfresh++
	return in.ts.Var(fmt.Sprintf("%s!%d", prefix, in.nfresh), w)
}

func (fr *frame) get(v ssa.Value) value {
	switch v := v.(type) {
	case *ssa.Const:
		return fr.in.constValue(v)
	case *ssa.Global:
		return fr.in.globalAddr(v)
	case *ssa.Function:
		return v
	case *ssa.Builtin:
		return v
	}
	if r, ok := fr.env[v]; ok {
		return r
	}
	panic(fmt.Sprintf("get: no value for %T %s in %s", v, v.Name(), fr.fn))
}

func (in *Interp) globalAddr(g *ssa.Global) *value {
	if p, ok := in.globals[g]; ok {
		return p
	}
	in.ensureInit(g.Pkg)
	if p, ok := in.globals[g]; ok {
		return p
	}
	p := new(value)
	*p = in.zero(deref(g.Type()))
	in.globals[g] = p
	return p
}

func deref(t types.Type) types.Type {
	if p, ok := under(t).(*types.Pointer); ok {
		return p.Elem()
	}
	panic("deref of non-pointer " + t.String())
}

func (in *Interp) ensureInit(pkg *ssa.Package) {
	if pkg == nil || in.pkgInit[pkg] != 0 {
		return
	}
	in.pkgInit[pkg] = 1
	if in.P.skipInit(pkg.Pkg.Path()) {
		in.pkgInit[pkg] = 2
		return
	}
	initFn := pkg.Func("init")
	if initFn != nil && initFn.Blocks != nil {
		saved := in.curFrame
		// package initialisation happens before every goroutine of the program: no scheduling
		// inside it, and its writes are not candidates for data races
		in.sch.inInit++
		if in.sch.race != nil {
			in.sch.race.skip++
		}
		in.callFunction(nil, initFn, nil, nil)
		if in.sch.race != nil {
			in.sch.race.skip--
		}
		in.sch.inInit--
		in.curFrame = saved
	}
	in.pkgInit[pkg] = 2
}

func (in *Interp) constValue(c *ssa.Const) value {
	t := c.Type()
	if c.Value == nil {
		return in.zero(t)
	}
	if tp, ok := t.(*types.TypeParam); ok {
		panic(unsupported("constant of type parameter type " + tp.String()))
	}
	if w, signed, ok := intInfo(t); ok {
		if w == 0 {
			return in.ts.Bool(constant.BoolVal(c.Value))
		}
		v := constant.ToInt(c.Value)
		if signed {
			i, _ := constant.Int64Val(v)
			return in.ts.BV(w, uint64(i))
		}
		u, exact := constant.Uint64Val(v)
		if !exact {
			i, _ := constant.Int64Val(v)
			u = uint64(i)
		}
		return in.ts.BV(w, u)
	}
	if isString(t) {
		if c.Value.Kind() == constant.String {
			return constant.StringVal(c.Value)
		}
		return c.Value.ExactString()
	}
	if isFloat(t) {
		f, _ := constant.Float64Val(c.Value)
		return f
	}
	if b, ok := under(t).(*types.Basic); ok && b.Info()&types.IsComplex != 0 {
		re, _ := constant.Float64Val(constant.Real(c.Value))
		im, _ := constant.Float64Val(constant.Imag(c.Value))
		return complex(re, im)
	}
	panic(unsupported("constant " + c.String()))
}

// callFunction interprets fn (which must have a body).
func (in *Interp) callFunction(caller *frame, fn *ssa.Function, args []value, env []value) value {
	if fn.Blocks == nil {
		panic(unsupported("call to function without body: " + fn.String()))
	}
	depth := 0
	if caller != nil {
		depth = caller.depth + 1
	}
	if depth > in.maxDepth {
		panic(pathEnd{"bound", "call depth limit reached in " + fn.String()})
	}
	if !in.funcsSeen[fn] {
		in.funcsSeen[fn] = true
	}
	fr := &frame{in: in, caller: caller, fn: fn, env: make(map[ssa.Value]value, 16), depth: depth}
	for i, p := range fn.Params {
		fr.env[p] = args[i]
	}
	for i, fv := range fn.FreeVars {
		fr.env[fv] = env[i]
	}
	saved := in.curFrame
	in.curFrame = fr
	for fr.block = fn.Blocks[0]; fr.block != nil; {
		fr.runBlocks()
	}
	in.curFrame = saved
	if fr.recovered && fr.result == nil {
		// recovered panic without a Recover block: zero results
		res := fn.Signature.Results()
		switch res.Len() {
		case 0:
			return nil
		case 1:
			return in.zero(res.At(0).Type())
		default:
			return in.zero(res)
		}
	}
	return fr.result
}

func (fr *frame) runBlocks() {
	defer func() {
		if fr.block == nil {
			return
		}
		r := recover()
		if gp, ok := r.(goPanic); ok {
			fr.in.curFrame = fr
			fr.panicking = true
			fr.panicVal = gp.v
			fr.runDefers()
			fr.recovered = true
			fr.block = fr.fn.Recover
			return
		}
		panic(r)
	}()
	in := fr.in
	for {
		blk := fr.block
		jumped := false
		for _, instr := range blk.Instrs {
			in.steps++
			if in.steps > in.maxSteps {
				panic(pathEnd{"bound", fmt.Sprintf("step limit %d reached in %s", in.maxSteps, fr.fn)})
			}
			fr.curInstr = instr
			switch fr.exec(instr) {
			case kNext:
			case kJump:
				jumped = true
			case kReturn:
				return
			}
			if jumped {
				break
			}
		}
		if !jumped {
			panic("block fell through: " + fr.fn.String())
		}
	}
}

func (fr *frame) runDefers() {
	for len(fr.defers) > 0 {
		d := fr.defers[len(fr.defers)-1]
		fr.defers = fr.defers[:len(fr.defers)-1]
		fr.runDefer(d)
	}
	if fr.panicking {
		panic(goPanic{fr.panicVal})
	}
}

func (fr *frame) runDefer(d *deferred) {
	ok := false
	defer func() {
		if !ok {
			r := recover()
			if gp, isgp := r.(goPanic); isgp {
				// a deferred call panicked: replaces the current panic
				fr.panicking = true
				fr.panicVal = gp.v
				return
			}
			panic(r)
		}
	}()
	fr.in.callValue(fr, d.fn, d.args, nil)
	ok = true
}

type cont int

const (
	kNext cont = iota
	kJump
	kReturn
)

func (fr *frame) jump(to *ssa.BasicBlock) cont {
	fr.prev = fr.block
	fr.block = to
	return kJump
}

func (fr *frame) pos() string {
	if fr == nil || fr.curInstr == nil {
		return "?"
	}
	p := fr.in.P.fset.Position(fr.curInstr.Pos())
	if !p.IsValid() {
		// look for a nearby instruction with a position
		for _, i := range fr.curInstr.Block().Instrs {
			if q := fr.in.P.fset.Position(i.Pos()); q.IsValid() {
				p = q
				break
			}
		}
	}
	fn := p.Filename
	if rd := fr.in.P.repoDir; rd != "" && strings.HasPrefix(fn, rd+"/") {
		fn = "/repo/" + fn[len(rd)+1:]
	}
	return fmt.Sprintf("%s:%d", shortFile(fn), p.Line)
}

func shortFile(f string) string {
	if i := strings.Index(f, "/repo/"); i >= 0 {
		return f[i+6:]
	}
	if i := strings.LastIndex(f, "/src/"); i >= 0 {
		return f[i+5:]
	}
	if i := strings.LastIndex(f, "/mod/"); i >= 0 {
		return f[i+5:]
	}
	return f
}

func (in *Interp) where() string {
	fr := in.curFrame
	var parts []string
	for i := 0; fr != nil && fr.fn != nil && i < 6; i++ {
		parts = append(parts, fr.fn.String()+"@"+fr.pos())
		fr = fr.caller
	}
	return strings.Join(parts, " <- ")
}

// runtimeError builds the panic value for a run-time error.
func (in *Interp) runtimeError(msg string) value {
	return iface{t: in.P.runtimeErrType(), v: "runtime error: " + msg}
}

func (in *Interp) rtPanic(msg string) {
	in.lastPanicPos = in.curFrame.pos()
	panic(goPanic{in.runtimeError(msg)})
}

// branchPanic forks on cond; on the true side it raises a run-time panic.
func (in *Interp) panicIf(cond *Term, msg string) {
	if cond.IsFalse() {
		return
	}
	if in.branch(cond) {
		in.rtPanic(msg)
	}
}

func (fr *frame) exec(instr ssa.Instruction) cont {
	in := fr.in
	switch instr := instr.(type) {
	case *ssa.DebugRef:
	case *ssa.UnOp:
		fr.env[instr] = in.unop(fr, instr)
	case *ssa.BinOp:
		fr.env[instr] = in.binop(instr.Op, instr.X.Type(), fr.get(instr.X), fr.get(instr.Y), instr.Y.Type())
	case *ssa.Call:
		fr.env[instr] = in.doCall(fr, &instr.Call)
	case *ssa.ChangeInterface:
		fr.env[instr] = fr.get(instr.X)
	case *ssa.ChangeType:
		fr.env[instr] = fr.get(instr.X)
	case *ssa.Convert:
		fr.env[instr] = in.convert(instr.X.Type(), instr.Type(), fr.get(instr.X))
	case *ssa.MultiConvert:
		fr.env[instr] = in.convert(instr.X.Type(), instr.Type(), fr.get(instr.X))
	case *ssa.SliceToArrayPointer:
		x := fr.get(instr.X).([]value)
		n := int(under(deref(instr.Type())).(*types.Array).Len())
		if len(x) < n {
			in.rtPanic("cannot convert slice with length to array or pointer to array: too short")
		}
		if x == nil && n == 0 {
			fr.env[instr] = (*value)(nil)
			break
		}
		// share the backing store: the array value aliases the slice elements
		p := new(value)
		*p = array(x[:n:n])
		fr.env[instr] = p
	case *ssa.MakeInterface:
		fr.env[instr] = iface{t: instr.X.Type(), v: fr.get(instr.X)}
	case *ssa.Extract:
		fr.env[instr] = fr.get(instr.Tuple).(tuple)[instr.Index]
	case *ssa.Slice:
		fr.env[instr] = in.sliceOp(fr, instr)
	case *ssa.Return:
		switch len(instr.Results) {
		case 0:
		case 1:
			fr.result = fr.get(instr.Results[0])
		default:
			res := make(tuple, len(instr.Results))
			for i, r := range instr.Results {
				res[i] = fr.get(r)
			}
			fr.result = res
		}
		fr.block = nil
		return kReturn
	case *ssa.RunDefers:
		fr.runDefers()
	case *ssa.Panic:
		in.lastPanicPos = fr.pos()
		panic(goPanic{fr.get(instr.X)})
	case *ssa.Send:
		ch := fr.get(instr.Chan).(*hchan)
		if in.sch.on {
			in.schedSend(fr, ch, fr.get(instr.X))
			break
		}
		if ch == nil {
			panic(unsupported("send on nil channel blocks forever"))
		}
		if ch.closed {
			in.rtPanic("send on closed channel")
		}
		ch.buf = append(ch.buf, copyVal(fr.get(instr.X)))
	case *ssa.Store:
		in.store(fr.get(instr.Addr), fr.get(instr.Val))
	case *ssa.If:
		c := fr.get(instr.Cond).(*Term)
		succ := 1
		if in.branch(c) {
			succ = 0
		}
		return fr.jump(fr.block.Succs[succ])
	case *ssa.Jump:
		return fr.jump(fr.block.Succs[0])
	case *ssa.Defer:
		fn, args := in.prepareCall(fr, &instr.Call)
		fr.defers = append(fr.defers, &deferred{fn: fn, args: args, instr: instr})
	case *ssa.Go:
		fn, args := in.prepareCall(fr, &instr.Call)
		in.spawn(fr, fn, args)
	case *ssa.MakeChan:
		fr.env[instr] = &hchan{cap: in.concreteInt(fr.get(instr.Size), "channel capacity")}
	case *ssa.Alloc:
		p := new(value)
		*p = in.zero(deref(instr.Type()))
		fr.env[instr] = p
	case *ssa.MakeSlice:
		in.guardAlloc(fr.get(instr.Len))
		in.guardAlloc(fr.get(instr.Cap))
		n := in.concreteInt(fr.get(instr.Len), "make length")
		var c int
		if ct, ok := fr.get(instr.Cap).(*Term); ok && !ct.IsConst() && instr.Len != instr.Cap {
			// a symbolic capacity next to a separate length is a pre-allocation hint: it has been
			// checked against the allocation guard above; the slice is created with cap == len and
			// grows on append (programs that observe cap() are outside)
			c64 := ct
			if ct.w < 64 {
				c64 = in.ts.Sext(ct, 64)
			}
			in.panicIf(in.ts.Cmp(OpSlt, c64, in.ts.BV(64, uint64(n))), "makeslice: cap out of range")
			in.noteAssumption("make([]T, n, c) with a symbolic capacity c: the capacity is treated as a hint (cap == len)")
			c = n
		} else {
			c = in.concreteInt(fr.get(instr.Cap), "make capacity")
		}
		if n < 0 || c < n {
			in.rtPanic("makeslice: len out of range")
		}
		if c > in.cfg.MaxAlloc {
			panic(pathEnd{"bound", fmt.Sprintf("allocation of %d elements exceeds the engine limit", c)})
		}
		in.noteAlloc(c)
		et := under(instr.Type()).(*types.Slice).Elem()
		s := make([]value, c)
		if c > 0 {
			z := in.zero(et)
			for i := range s {
				s[i] = copyVal(z)
			}
		}
		fr.env[instr] = s[:n]
	case *ssa.MakeMap:
		fr.env[instr] = newMap()
	case *ssa.Range:
		fr.env[instr] = in.rangeIter(fr.get(instr.X), instr.X.Type())
	case *ssa.Next:
		fr.env[instr] = fr.get(instr.Iter).(iterator).next()
	case *ssa.FieldAddr:
		x := fr.get(instr.X)
		p, ok := x.(*value)
		if !ok {
			panic(unsupported(fmt.Sprintf("FieldAddr through %T", x)))
		}
		if p == nil {
			in.rtPanic("invalid memory address or nil pointer dereference")
		}
		fr.env[instr] = &(*p).(structure)[instr.Field]
	case *ssa.Field:
		fr.env[instr] = copyVal(fr.get(instr.X).(structure)[instr.Field])
	case *ssa.IndexAddr:
		fr.env[instr] = in.indexAddr(fr.get(instr.X), fr.get(instr.Index).(*Term), instr.Index.Type())
	case *ssa.Index:
		fr.env[instr] = in.index(fr.get(instr.X), fr.get(instr.Index).(*Term), instr.Index.Type(), instr.X.Type())
	case *ssa.Lookup:
		fr.env[instr] = in.lookup(instr, fr.get(instr.X), fr.get(instr.Index))
	case *ssa.MapUpdate:
		m := fr.get(instr.Map).(*hmap)
		if m == nil {
			panic(goPanic{iface{t: in.P.runtimeErrType(), v: "assignment to entry in nil map"}})
		}
		key := fr.get(instr.Key)
		k := in.mapKey(m, key)
		if in.sch.race != nil {
			in.raceWrite(m)
		}
		m.set(k, key, copyVal(fr.get(instr.Value)))
	case *ssa.TypeAssert:
		fr.env[instr] = in.typeAssert(instr, fr.get(instr.X).(iface))
	case *ssa.MakeClosure:
		var bindings []value
		for _, b := range instr.Bindings {
			bindings = append(bindings, fr.get(b))
		}
		fr.env[instr] = &closure{fn: instr.Fn.(*ssa.Function), env: bindings}
	case *ssa.Phi:
		for i, pred := range instr.Block().Preds {
			if fr.prev == pred {
				fr.env[instr] = fr.get(instr.Edges[i])
				break
			}
		}
	case *ssa.Select:
		if in.sch.on {
			fr.env[instr] = in.schedSelectOp(fr, instr)
		} else {
			fr.env[instr] = in.selectOp(fr, instr)
		}
	default:
		panic(unsupported(fmt.Sprintf("instruction %T", instr)))
	}
	return kNext
}

func (in *Interp) noteAlloc(n int) {
	if g, ok := in.ghost["maxalloc"].(int); !ok || n > g {
		in.ghost["maxalloc"] = n
	}
}

// concreteInt turns an integer value into a concrete Go int, forking over feasible values.
func (in *Interp) concreteInt(v value, what string) int {
	t := v.(*Term)
	if t.IsConst() {
		return int(t.SVal())
	}
	t64 := t
	if t.w < 64 {
		t64 = in.ts.Sext(t, 64)
	}
	return int(int64(in.concretize(t64, what)))
}

func (in *Interp) load(p value) value {
	switch p := p.(type) {
	case *value:
		if p == nil {
			in.rtPanic("invalid memory address or nil pointer dereference")
		}
		if in.sch.race != nil {
			in.raceRead(p)
		}
		return copyVal(*p)
	case *symRef:
		return in.selectElem(p.elems, p.idx)
	}
	panic(unsupported(fmt.Sprintf("load through %T", p)))
}

// selectElem builds elems[idx] as an ITE chain (scalar elements) or forks.
func (in *Interp) selectElem(elems []value, idx *Term) value {
	if len(elems) == 0 {
		panic("selectElem on empty")
	}
	if _, ok := elems[0].(*Term); ok {
		res := elems[len(elems)-1].(*Term)
		for i := len(elems) - 2; i >= 0; i-- {
			res = in.ts.Ite(in.ts.Eq(idx, in.ts.BV(idx.w, uint64(i))), elems[i].(*Term), res)
		}
		return res
	}
	i := in.concretize(idx, "index of non-scalar element")
	return copyVal(elems[i])
}

func (in *Interp) store(addr value, v value) {
	switch p := addr.(type) {
	case *value:
		if p == nil {
			in.rtPanic("invalid memory address or nil pointer dereference")
		}
		if in.sch.race != nil {
			in.raceWrite(p)
		}
		*p = copyVal(v)
		return
	case *symRef:
		if nv, ok := v.(*Term); ok {
			for i := range p.elems {
				old := p.elems[i].(*Term)
				p.elems[i] = in.ts.Ite(in.ts.Eq(p.idx, in.ts.BV(p.idx.w, uint64(i))), nv, old)
			}
			return
		}
		i := in.concretize(p.idx, "index of non-scalar store")
		p.elems[i] = copyVal(v)
		return
	}
	panic(unsupported(fmt.Sprintf("store through %T", addr)))
}

// idx64 widens an index to 64 bits according to its type.
func (in *Interp) idx64(idx *Term, it types.Type) *Term {
	if idx.w == 64 {
		return idx
	}
	_, signed, _ := intInfo(it)
	if signed {
		return in.ts.Sext(idx, 64)
	}
	return in.ts.Zext(idx, 64)
}

func (in *Interp) boundsCheck(idx *Term, n int, what string) {
	// unsigned compare covers negative indices
	oob := in.ts.Not(in.ts.Cmp(OpUlt, idx, in.ts.BV(64, uint64(n))))
	if oob.IsFalse() {
		return
	}
	if in.branch(oob) {
		in.rtPanic(fmt.Sprintf("index out of range [%s] with length %d", what, n))
	}
}

func (in *Interp) indexAddr(x value, idx *Term, it types.Type) value {
	var elems []value
	switch x := x.(type) {
	case []value:
		elems = x
	case *value:
		if x == nil {
			in.rtPanic("invalid memory address or nil pointer dereference")
		}
		elems = (*x).(array)
	default:
		panic(unsupported(fmt.Sprintf("IndexAddr on %T", x)))
	}
	idx = in.idx64(idx, it)
	in.boundsCheck(idx, len(elems), idxStr(idx))
	if idx.IsConst() {
		return &elems[idx.val]
	}
	if len(elems) == 1 {
		return &elems[0]
	}
	return &symRef{elems: elems, idx: idx}
}

func idxStr(t *Term) string {
	if t.IsConst() {
		return fmt.Sprint(t.SVal())
	}
	return "symbolic"
}

func (in *Interp) index(x value, idx *Term, it types.Type, xt types.Type) value {
	idx = in.idx64(idx, it)
	switch x := x.(type) {
	case array:
		in.boundsCheck(idx, len(x), idxStr(idx))
		if idx.IsConst() {
			return copyVal(x[idx.val])
		}
		return in.selectElem(x, idx)
	case string, *symStr, *decStr:
		b := in.strBytes(x)
		in.boundsCheck(idx, len(b), idxStr(idx))
		if idx.IsConst() {
			return b[idx.val]
		}
		return in.selectElem(termSlice(b), idx)
	}
	panic(unsupported(fmt.Sprintf("Index on %T", x)))
}

func (in *Interp) mapKey(m *hmap, key value) string {
	if k, ok := keyOf(key); ok {
		return k
	}
	// symbolic key: fork on equality with each present key, else treat as a new distinct key
	if m != nil {
		for _, k := range m.order {
			e := m.m[k]
			eq := in.equalsDyn(key, e.k)
			if in.branch(eq) {
				return k
			}
		}
	}
	return in.symKeyName(key)
}

// symKeyName gives a symbolic key that differs from all present keys its own slot.
func (in *Interp) symKeyName(key value) string {
	in.nfresh++
	return fmt.Sprintf("symkey!%d", in.nfresh)
}

// equalsDyn compares two values without a static type (used for map keys).
func (in *Interp) equalsDyn(x, y value) *Term {
	switch xv := x.(type) {
	case iface:
		yv, ok := y.(iface)
		if !ok {
			return in.ts.False
		}
		if xv.t == nil || yv.t == nil {
			return in.ts.Bool(xv.t == nil && yv.t == nil)
		}
		if !types.Identical(xv.t, yv.t) {
			return in.ts.False
		}
		return in.equals(xv.t, xv.v, yv.v)
	case array:
		yv, ok := y.(array)
		if !ok || len(yv) != len(xv) {
			return in.ts.False
		}
		r := in.ts.True
		for i := range xv {
			r = in.ts.And(r, in.equalsDyn(xv[i], yv[i]))
		}
		return r
	case structure:
		yv, ok := y.(structure)
		if !ok || len(yv) != len(xv) {
			return in.ts.False
		}
		r := in.ts.True
		for i := range xv {
			r = in.ts.And(r, in.equalsDyn(xv[i], yv[i]))
		}
		return r
	}
	return in.equals(nil, x, y)
}

func (in *Interp) lookup(instr *ssa.Lookup, x, key value) value {
	switch x := x.(type) {
	case *hmap:
		vt := under(instr.X.Type()).(*types.Map).Elem()
		var v value
		ok := false
		if in.sch.race != nil && x != nil {
			in.raceRead(x)
		}
		if x != nil && x.len() > 0 {
			k := in.mapKey(x, key)
			if e, found := x.get(k); found {
				v, ok = copyVal(e.v), true
			}
		}
		if !ok {
			v = in.zero(vt)
		}
		if instr.CommaOk {
			return tuple{v, in.ts.Bool(ok)}
		}
		return v
	case string, *symStr, *decStr:
		return in.index(x, key.(*Term), instr.Index.Type(), instr.X.Type())
	}
	panic(unsupported(fmt.Sprintf("Lookup on %T", x)))
}

func (in *Interp) sliceOp(fr *frame, instr *ssa.Slice) value {
	x := fr.get(instr.X)
	var lo, hi, max = -1, -1, -1
	// Evaluate bounds, resolving symbolic ones against the capacity.
	var capacity, length int
	var elems []value
	isStr := false
	var strb []*Term
	switch xv := x.(type) {
	case []value:
		elems = xv
		length, capacity = len(xv), cap(xv)
	case *value:
		if xv == nil {
			in.rtPanic("invalid memory address or nil pointer dereference")
		}
		a := (*xv).(array)
		elems = []value(a)
		length, capacity = len(a), len(a)
	case string, *symStr, *decStr:
		isStr = true
		strb = in.strBytes(xv)
		length, capacity = len(strb), len(strb)
	default:
		panic(unsupported(fmt.Sprintf("Slice of %T", x)))
	}
	resolve := func(v ssa.Value, limit int, what string) int {
		if v == nil {
			return -1
		}
		t := fr.get(v).(*Term)
		t64 := in.idx64(t, v.Type())
		if !t64.IsConst() {
			oob := in.ts.Not(in.ts.Cmp(OpUle, t64, in.ts.BV(64, uint64(limit))))
			if in.branch(oob) {
				in.rtPanic(fmt.Sprintf("slice bounds out of range [%s symbolic] with capacity %d", what, limit))
			}
			return int(in.concretize(t64, "slice bound"))
		}
		r := int64(t64.val)
		if r < 0 || r > int64(limit) {
			in.rtPanic(fmt.Sprintf("slice bounds out of range [%s%d] with capacity %d", what, r, limit))
		}
		return int(r)
	}
	max = resolve(instr.Max, capacity, "::")
	hiLimit := capacity
	if max >= 0 {
		hiLimit = max
	}
	if isStr {
		hiLimit = length
	}
	hi = resolve(instr.High, hiLimit, ":")
	if hi < 0 {
		hi = length
		if max >= 0 && hi > max {
			in.rtPanic("slice bounds out of range")
		}
	}
	lo = resolve(instr.Low, hi, "")
	if lo < 0 {
		lo = 0
	}
	if isStr {
		return mkStr(strb[lo:hi])
	}
	if _, isSlice := x.([]value); isSlice && elems == nil {
		return []value(nil)
	}
	if max < 0 {
		max = capacity
	}
	return elems[lo:hi:max]
}

func (in *Interp) unop(fr *frame, instr *ssa.UnOp) value {
	x := fr.get(instr.X)
	switch instr.Op {
	case token.MUL:
		return in.load(x)
	case token.NOT:
		return in.ts.Not(x.(*Term))
	case token.SUB:
		switch x := x.(type) {
		case *Term:
			return in.ts.Neg(x)
		case float64:
			return -x
		}
	case token.XOR:
		return in.ts.BNot(x.(*Term))
	case token.ARROW:
		ch := x.(*hchan)
		et := under(instr.X.Type()).(*types.Chan).Elem()
		if in.sch.on {
			v, ok := in.schedRecv(fr, ch, et)
			if instr.CommaOk {
				return tuple{v, in.ts.Bool(ok)}
			}
			return v
		}
		if ch == nil {
			panic(unsupported("receive from nil channel blocks forever"))
		}
		if len(ch.buf) > 0 {
			v := ch.buf[0]
			ch.buf = ch.buf[1:]
			if instr.CommaOk {
				return tuple{v, in.ts.True}
			}
			return v
		}
		if ch.closed {
			if instr.CommaOk {
				return tuple{in.zero(et), in.ts.False}
			}
			return in.zero(et)
		}
		panic(unsupported("receive on empty open channel would block (no concurrency semantics) at " + fr.pos()))
	}
	panic(unsupported(fmt.Sprintf("unop %s on %T", instr.Op, x)))
}

// ---- calls ----

func (in *Interp) prepareCall(fr *frame, call *ssa.CallCommon) (value, []value) {
	var fn value
	var args []value
	if call.Method == nil {
		fn = fr.get(call.Value)
	} else {
		recv := fr.get(call.Value).(iface)
		if recv.t == nil {
			in.rtPanic("invalid memory address or nil pointer dereference (method call on nil interface)")
		}
		fn = in.lookupMethod(recv.t, call.Method)
		args = append(args, recv.v)
	}
	for _, a := range call.Args {
		args = append(args, fr.get(a))
	}
	return fn, args
}

// methodFn is a method implemented by the engine for engine-defined dynamic types.
type methodFn struct {
	name string
	recv types.Type
}

func (in *Interp) lookupMethod(t types.Type, m *types.Func) value {
	if bi := in.P.engineMethod(t, m.Name()); bi != nil {
		return bi
	}
	sel := in.P.prog.MethodSets.MethodSet(t).Lookup(m.Pkg(), m.Name())
	if sel == nil {
		panic(unsupported(fmt.Sprintf("method %s not found on %s", m.Name(), t)))
	}
	f := in.P.prog.MethodValue(sel)
	if f == nil {
		panic(unsupported(fmt.Sprintf("no method value for %s.%s", t, m.Name())))
	}
	return f
}

func (in *Interp) doCall(fr *frame, call *ssa.CallCommon) value {
	fn, args := in.prepareCall(fr, call)
	return in.callValue(fr, fn, args, call)
}

func (in *Interp) callValue(fr *frame, fn value, args []value, call *ssa.CallCommon) value {
	switch fn := fn.(type) {
	case *ssa.Function:
		if fn == nil {
			in.rtPanic("invalid memory address or nil pointer dereference (call of nil func)")
		}
		return in.callSSA(fr, fn, args, nil)
	case *closure:
		if fn == nil {
			in.rtPanic("call of nil func")
		}
		return in.callSSA(fr, fn.fn, args, fn.env)
	case *ssa.Builtin:
		return in.callBuiltin(fr, fn, args, call)
	case *boundIntrinsic:
		return fn.fn(fr, args)
	}
	panic(unsupported(fmt.Sprintf("call of %T", fn)))
}

func (in *Interp) callSSA(fr *frame, fn *ssa.Function, args []value, env []value) value {
	if fn.Name() == "init" && fn.Synthetic != "" && fr != nil && fr.fn != nil && fn.Pkg != fr.fn.Pkg {
		// package initialisers of dependencies run lazily, on first access to one of their globals
		return nil
	}
	if h := in.P.intrinsicFor(fn); h != nil {
		in.noteModelName(fn.String())
		return h(fr, fn, args)
	}
	if pkgPathOf(fn) == "reflect" && !reflectPureOK(fn) {
		panic(unsupported("reflect entry point without model: " + fn.String() + " called at " + in.where()))
	}
	if fn.Blocks == nil {
		panic(unsupported("external function without model: " + fn.String() + " called at " + in.where()))
	}
	return in.callFunction(fr, fn, args, env)
}

func (in *Interp) spawn(fr *frame, fn value, args []value) {
	if f, ok := fn.(*ssa.Function); ok && in.P.skipGo(f) {
		return
	}
	if in.sch.on {
		in.spawnGor(fr, fn, args)
		return
	}
	// No concurrency semantics: the goroutine is run to completion at the spawn point.
	in.noteAssumption("goroutines are sequentialised: `go f()` runs f to completion at the spawn point")
	defer func() {
		if r := recover(); r != nil {
			if gp, ok := r.(goPanic); ok {
				// an unrecovered panic in a goroutine crashes the program: surface as panic
				panic(gp)
			}
			panic(r)
		}
	}()
	in.callValue(fr, fn, args, nil)
}

func (in *Interp) callBuiltin(fr *frame, fn *ssa.Builtin, args []value, call *ssa.CallCommon) value {
	ts := in.ts
	switch fn.Name() {
	case "append":
		if len(args) == 1 {
			return args[0]
		}
		var dst []value
		if args[0] != nil {
			dst = args[0].([]value)
		}
		var src []value
		switch s := args[1].(type) {
		case []value:
			src = s
		case string, *symStr, *decStr:
			src = termSlice(in.strBytes(s))
		case nil:
		default:
			panic(unsupported(fmt.Sprintf("append of %T", s)))
		}
		if len(src) == 0 {
			return dst
		}
		n := len(dst) + len(src)
		if n <= cap(dst) {
			out := dst[:n]
			for i, v := range src {
				out[len(dst)+i] = copyVal(v)
			}
			// copy semantic for overlapping: src evaluated before; handle overlap by snapshot
			return out
		}
		// growth: exactly sized new array (documented: programs depending on growth policy are outside)
		out := make([]value, n)
		copy(out, dst)
		for i, v := range src {
			out[len(dst)+i] = copyVal(v)
		}
		return out
	case "copy":
		dst := args[0].([]value)
		var src []value
		switch s := args[1].(type) {
		case []value:
			src = s
		case string, *symStr, *decStr:
			src = termSlice(in.strBytes(s))
		}
		n := len(dst)
		if len(src) < n {
			n = len(src)
		}
		tmp := make([]value, n)
		for i := 0; i < n; i++ {
			tmp[i] = copyVal(src[i])
		}
		copy(dst, tmp)
		return ts.BV(64, uint64(n))
	case "len":
		switch x := args[0].(type) {
		case []value:
			return ts.BV(64, uint64(len(x)))
		case string, *symStr, *decStr:
			return ts.BV(64, uint64(in.strLen(x)))
		case *hmap:
			return ts.BV(64, uint64(x.len()))
		case *hchan:
			if x == nil {
				return ts.BV(64, 0)
			}
			return ts.BV(64, uint64(len(x.buf)))
		case array:
			return ts.BV(64, uint64(len(x)))
		case *value:
			if x == nil {
				// len of nil *array is the static length
				return ts.BV(64, uint64(under(deref(call.Args[0].Type())).(*types.Array).Len()))
			}
			return ts.BV(64, uint64(len((*x).(array))))
		}
	case "cap":
		switch x := args[0].(type) {
		case []value:
			return ts.BV(64, uint64(cap(x)))
		case *hchan:
			return ts.BV(64, 0)
		case array:
			return ts.BV(64, uint64(len(x)))
		case *value:
			return ts.BV(64, uint64(under(deref(call.Args[0].Type())).(*types.Array).Len()))
		}
	case "delete":
		m := args[0].(*hmap)
		if in.sch.race != nil && m != nil {
			in.raceWrite(m)
		}
		if m != nil && m.len() > 0 {
			if k, ok := keyOf(args[1]); ok {
				m.del(k)
			} else {
				for _, k := range append([]string(nil), m.order...) {
					if in.branch(in.equalsDyn(args[1], m.m[k].k)) {
						m.del(k)
						break
					}
				}
			}
		}
		return nil
	case "clear":
		switch x := args[0].(type) {
		case *hmap:
			if x != nil {
				x.m = map[string]*mapEntry{}
				x.order = nil
			}
		case []value:
			if len(x) > 0 {
				et := under(call.Args[0].Type()).(*types.Slice).Elem()
				for i := range x {
					x[i] = in.zero(et)
				}
			}
		}
		return nil
	case "print", "println":
		return nil
	case "panic":
		panic(goPanic{args[0]})
	case "recover":
		return in.doRecover(fr)
	case "close":
		ch := args[0].(*hchan)
		if in.sch.on {
			in.schedClose(ch)
			return nil
		}
		if ch == nil {
			in.rtPanic("close of nil channel")
		}
		if ch.closed {
			in.rtPanic("close of closed channel")
		}
		ch.closed = true
		return nil
	case "min", "max":
		return in.minmax(fn.Name() == "min", args, call)
	case "String": // unsafe.String(ptr, len)
		n := in.concreteInt(args[1], "unsafe.String len")
		switch p := args[0].(type) {
		case *unsafeData:
			return mkStr(p.bytes(in)[:n])
		case *value:
			if p == nil && n == 0 {
				return ""
			}
		}
		panic(unsupported(fmt.Sprintf("unsafe.String on pointer %T at %s", args[0], in.where())))
	case "StringData":
		return &unsafeData{str: args[0]}
	case "SliceData":
		return &unsafeData{elems: args[0].([]value)}
	case "Slice": // unsafe.Slice(ptr, len)
		n := in.concreteInt(args[1], "unsafe.Slice len")
		switch p := args[0].(type) {
		case *unsafeData:
			if p.elems != nil {
				return p.elems[:n:n]
			}
			return termSlice(p.bytes(in)[:n])
		}
		panic(unsupported("unsafe.Slice on this pointer"))
	case "ssa:wrapnilchk":
		if p, ok := args[0].(*value); ok && p == nil {
			in.rtPanic("value method called using nil pointer")
		}
		return args[0]
	}
	panic(unsupported("builtin " + fn.Name() + fmt.Sprintf(" on %T", args[0])))
}

func (in *Interp) minmax(isMin bool, args []value, call *ssa.CallCommon) value {
	res := args[0]
	t := call.Args[0].Type()
	for _, a := range args[1:] {
		switch r := res.(type) {
		case *Term:
			op := token.LSS
			lt := in.binop(op, t, a, r, t).(*Term) // a < r
			if isMin {
				res = in.ts.Ite(lt, a.(*Term), r)
			} else {
				res = in.ts.Ite(lt, r, a.(*Term))
			}
		case float64:
			if (isMin && a.(float64) < r) || (!isMin && a.(float64) > r) {
				res = a
			}
		case string:
			as, ok := a.(string)
			if !ok {
				panic(unsupported("min/max on symbolic strings"))
			}
			if (isMin && as < r) || (!isMin && as > r) {
				res = a
			}
		default:
			panic(unsupported("min/max operand"))
		}
	}
	return res
}

func (in *Interp) doRecover(fr *frame) value {
	// recover() is called from a deferred function: its caller frame is the panicking one.
	c := fr.caller
	if c != nil && c.panicking {
		c.panicking = false
		v := c.panicVal
		c.panicVal = nil
		if v == nil {
			return iface{}
		}
		if _, ok := v.(iface); !ok {
			panic(fmt.Sprintf("panic value is not an interface: %T", v))
		}
		return v
	}
	return iface{}
}

// ---- type assertions ----

func (in *Interp) typeAssert(instr *ssa.TypeAssert, x iface) value {
	var ok bool
	var v value
	at := instr.AssertedType
	if it, isIface := under(at).(*types.Interface); isIface {
		if x.t != nil {
			ok = in.implements(x.t, it)
			v = x
		}
	} else {
		if x.t != nil && types.Identical(x.t, at) {
			ok = true
			v = x.v
		}
	}
	if instr.CommaOk {
		if !ok {
			v = in.zero(at)
		}
		return tuple{copyVal(v), in.ts.Bool(ok)}
	}
	if !ok {
		desc := "nil"
		if x.t != nil {
			desc = x.t.String()
		}
		panic(goPanic{iface{t: in.P.runtimeErrType(), v: fmt.Sprintf("interface conversion: interface is %s, not %s", desc, at)}})
	}
	return copyVal(v)
}

func (in *Interp) implements(t types.Type, it *types.Interface) bool {
	if in.P.isEngineType(t) {
		return in.P.engineImplements(t, it)
	}
	return types.Implements(t, it)
}

// ---- range ----

type iterator interface{ next() tuple }

type mapIter struct {
	in   *Interp
	m    *hmap
	keys []string
	i    int
	kt   types.Type
	vt   types.Type
}

func (it *mapIter) next() tuple {
	for it.i < len(it.keys) {
		k := it.keys[it.i]
		it.i++
		if e, ok := it.m.m[k]; ok {
			return tuple{it.in.ts.True, e.k, copyVal(e.v)}
		}
	}
	return tuple{it.in.ts.False, it.in.zero(it.kt), it.in.zero(it.vt)}
}

type strIter struct {
	in *Interp
	s  string
	i  int
}

func (it *strIter) next() tuple {
	ts := it.in.ts
	if it.i >= len(it.s) {
		return tuple{ts.False, ts.BV(64, 0), ts.BV(32, 0)}
	}
	start := it.i
	var r rune
	var size int
	for j, c := range it.s[it.i:] {
		if j == 0 {
			r = c
			continue
		}
		size = j
		break
	}
	if size == 0 {
		size = len(it.s) - it.i
	}
	it.i += size
	return tuple{ts.True, ts.BV(64, uint64(start)), ts.BV(32, uint64(r))}
}

func (in *Interp) rangeIter(x value, t types.Type) value {
	switch x := x.(type) {
	case *hmap:
		mt := under(t).(*types.Map)
		it := &mapIter{in: in, m: x, kt: mt.Key(), vt: mt.Elem()}
		if in.sch.race != nil && x != nil {
			in.raceRead(x)
		}
		if x != nil {
			it.keys = in.mapOrder(x)
		}
		return it
	case string:
		return &strIter{in: in, s: x}
	case *symStr:
		return &symStrIter{in: in, b: x.b}
	case *decStr:
		panic(unsupported("range over a decimal token"))
	}
	panic(unsupported(fmt.Sprintf("range over %T", x)))
}

// mapOrder returns the iteration order; harnesses may ask for all permutations of small maps.
func (in *Interp) mapOrder(m *hmap) []string {
	keys := append([]string(nil), m.order...)
	if in.cfg.PermuteMaps > 0 && len(keys) > 1 && len(keys) <= in.cfg.PermuteMaps {
		// choose a permutation by successive choices
		var out []string
		rest := keys
		for len(rest) > 1 {
			i := in.choose(len(rest), "map-order")
			out = append(out, rest[i])
			rest = append(append([]string(nil), rest[:i]...), rest[i+1:]...)
		}
		out = append(out, rest[0])
		return out
	}
	return keys
}

// ---- select ----

func (in *Interp) selectOp(fr *frame, instr *ssa.Select) value {
	ts := in.ts
	res := make(tuple, 2)
	nrecv := 0
	for _, st := range instr.States {
		if st.Dir == types.RecvOnly {
			nrecv++
		}
	}
	res = make(tuple, 2+nrecv)
	res[0] = ts.BV(64, ^uint64(0))
	res[1] = ts.False
	ri := 2
	recvIdx := map[int]int{}
	for i, st := range instr.States {
		if st.Dir == types.RecvOnly {
			recvIdx[i] = ri
			res[ri] = in.zero(under(st.Chan.Type()).(*types.Chan).Elem())
			ri++
		}
	}
	for i, st := range instr.States {
		ch := fr.get(st.Chan).(*hchan)
		if ch == nil || ch.never {
			continue
		}
		if st.Dir == types.RecvOnly {
			if len(ch.buf) > 0 {
				v := ch.buf[0]
				ch.buf = ch.buf[1:]
				res[0] = ts.BV(64, uint64(i))
				res[1] = ts.True
				res[recvIdx[i]] = v
				return res
			}
			if ch.closed {
				res[0] = ts.BV(64, uint64(i))
				res[1] = ts.False
				return res
			}
		} else {
			if ch.closed {
				in.rtPanic("send on closed channel")
			}
			ch.buf = append(ch.buf, copyVal(fr.get(st.Send)))
			res[0] = ts.BV(64, uint64(i))
			return res
		}
	}
	if !instr.Blocking {
		return res
	}
	panic(unsupported("blocking select with no ready case (no concurrency semantics) at " + fr.pos()))
}

// unsafeData is the result of unsafe.SliceData / unsafe.StringData.
type unsafeData struct {
	elems []value
	str   value
}

func (u *unsafeData) bytes(in *Interp) []*Term {
	if u.elems != nil || u.str == nil {
		out := make([]*Term, len(u.elems))
		for i, e := range u.elems {
			out[i] = e.(*Term)
		}
		return out
	}
	return in.strBytes(u.str)
}

// symStrIter ranges over a string of symbolic bytes; every byte must be ASCII on the path
// (non-ASCII symbolic text would need UTF-8 decoding over terms and is refused).
type symStrIter struct {
	in *Interp
	b  []*Term
	i  int
}

func (it *symStrIter) next() tuple {
	ts := it.in.ts
	if it.i >= len(it.b) {
		return tuple{ts.False, ts.BV(64, 0), ts.BV(32, 0)}
	}
	c := it.b[it.i]
	if it.in.branch(ts.Not(ts.Cmp(OpUlt, c, ts.BV(8, 0x80)))) {
		panic(unsupported("range over symbolic text that may be non-ASCII"))
	}
	i := it.i
	it.i++
	return tuple{ts.True, ts.BV(64, uint64(i)), ts.Zext(c, 32)}
}

// guardAlloc splits off the case of a grossly excessive allocation size before the size is
// enumerated: a request for more than the engine limit is reported like a run-time panic
// ("excessive allocation"), which the native replay confirms by measuring allocated bytes.
func (in *Interp) guardAlloc(v value) {
	t, ok := v.(*Term)
	if !ok || t.IsConst() {
		if ok && t.SVal() > int64(in.cfg.MaxAlloc) {
			in.lastPanicPos = in.curFrame.pos()
			panic(goPanic{iface{t: in.P.runtimeErrType(), v: fmt.Sprintf("excessive allocation: %d elements", t.SVal())}})
		}
		return
	}
	t64 := t
	if t.w < 64 {
		t64 = in.ts.Sext(t, 64)
	}
	big := in.ts.Cmp(OpSlt, in.ts.BV(64, uint64(in.cfg.MaxAlloc)), t64)
	if in.branch(big) {
		in.lastPanicPos = in.curFrame.pos()
		panic(goPanic{iface{t: in.P.runtimeErrType(), v: "excessive allocation: more than the engine limit of elements requested by a make()"}})
	}
}

// reflectPureOK lists the functions of package reflect that may be interpreted from their own
// SSA because they never look inside the real representation of Value / Type.
func reflectPureOK(fn *ssa.Function) bool {
	n := fn.String()
	switch {
	case strings.HasPrefix(n, "(reflect.Kind)"), strings.HasPrefix(n, "(reflect.StructTag)"),
		strings.HasPrefix(n, "(reflect.StructField)"), strings.HasPrefix(n, "(*reflect.ValueError)"),
		strings.HasPrefix(n, "(reflect.ChanDir)"), strings.HasPrefix(n, "reflect.TypeFor"),
		strings.HasPrefix(n, "(reflect.Method)"), n == "reflect.init":
		return true
	}
	return false
}

func (in *Interp) noteModelName(name string) {
	if in.models == nil {
		in.models = map[string]int{}
	}
	in.models[name]++
}

func (in *Interp) noteAssumption(a string) {
	if in.assumes == nil {
		in.assumes = map[string]bool{}
	}
	in.assumes[a] = true
}
