package main

import (
	"encoding/json"
	"flag"
	"fmt"
	"os"
	"path/filepath"
	"regexp"
	"runtime/debug"
	"runtime/pprof"
	"sort"
	"strconv"
	"strings"
	"sync"
	"time"
)

func main() {
	if pf := os.Getenv("GOSYM_CPUPROFILE"); pf != "" {
		f, err := os.Create(pf)
		if err == nil {
			pprof.StartCPUProfile(f)
		}
	}
	code := realMain()
	pprof.StopCPUProfile()
	os.Exit(code)
}

func realMain() int {
	// the interpreter allocates many short-lived boxes; memory is plentiful, GC time is not
	debug.SetGCPercent(800)
	if len(os.Args) < 2 {
		fmt.Fprintln(os.Stderr, "usage: gosym check <property> [flags] | gosym replay <file> | gosym selftest")
		return 2
	}
	switch os.Args[1] {
	case "check":
		return cmdCheck(os.Args[2:])
	case "replay":
		return cmdReplay(os.Args[2:])
	case "selftest":
		return cmdSelftest(os.Args[2:])
	}
	fmt.Fprintln(os.Stderr, "unknown command", os.Args[1])
	return 2
}

type harnessFile struct {
	path   string
	pkgDir string
	aux    bool
	auxFor []string
}

var reAuxDirective = regexp.MustCompile(`(?m)^//verif:aux\s+(\S+)(?:[ \t]+for=(\S+))?`)

var rePkgDirective = regexp.MustCompile(`(?m)^//verif:package\s+(\S+)`)

func findHarnessFiles(dir string) ([]harnessFile, error) {
	ents, err := os.ReadDir(dir)
	if err != nil {
		return nil, err
	}
	var out []harnessFile
	for _, e := range ents {
		if e.IsDir() || !strings.HasSuffix(e.Name(), ".go") {
			continue
		}
		p := filepath.Join(dir, e.Name())
		b, err := os.ReadFile(p)
		if err != nil {
			return nil, err
		}
		if ma := reAuxDirective.FindSubmatch(b); ma != nil {
			hf := harnessFile{path: p, pkgDir: string(ma[1]), aux: true}
			if len(ma[2]) > 0 {
				hf.auxFor = strings.Split(string(ma[2]), ",")
			}
			out = append(out, hf)
			continue
		}
		m := rePkgDirective.FindSubmatch(b)
		if m == nil {
			return nil, fmt.Errorf("%s: missing //verif:package directive", p)
		}
		out = append(out, harnessFile{path: p, pkgDir: string(m[1])})
	}
	return out, nil
}

type checkOpts struct {
	prop     string
	tier     string
	repo     string
	verif    string
	only     string
	workers  int
	seed     int64
	noReplay bool
	verbose  bool
	noEvid   bool
	buildReplay bool
}

func optInt(opts map[string]string, tier, key string, def int) int {
	if v, ok := opts[tier+"."+key]; ok {
		if n, err := strconv.Atoi(v); err == nil {
			return n
		}
	}
	if v, ok := opts[key]; ok {
		if n, err := strconv.Atoi(v); err == nil {
			return n
		}
	}
	return def
}

func cmdCheck(args []string) int {
	fs := flag.NewFlagSet("check", flag.ExitOnError)
	var o checkOpts
	fs.StringVar(&o.tier, "tier", os.Getenv("VERIF_TIER"), "quick|thorough")
	fs.StringVar(&o.repo, "repo", "/repo", "repository root")
	fs.StringVar(&o.verif, "verif", "/verif", "verification root")
	fs.StringVar(&o.only, "only", "", "regexp selecting harness names")
	fs.IntVar(&o.workers, "workers", 16, "total parallel path workers")
	fs.BoolVar(&o.noReplay, "noreplay", false, "do not replay counterexamples")
	fs.BoolVar(&o.verbose, "v", false, "verbose")
	fs.BoolVar(&o.noEvid, "noevidence", false, "do not write the evidence file")
	fs.BoolVar(&o.buildReplay, "buildreplay", false, "also build the native replay binary of every harness package when there is nothing to replay")
	if len(args) < 1 {
		fmt.Fprintln(os.Stderr, "usage: gosym check <property> [flags]")
		return 2
	}
	o.prop = args[0]
	fs.Parse(args[1:])
	if o.tier == "" {
		o.tier = "quick"
	}
	if o.tier == "thorough" {
		// the thorough tier also checks that every harness package's native replay binary builds
		// (a counterexample that cannot be replayed would otherwise only show when one is found)
		o.buildReplay = true
	}
	if s := os.Getenv("VERIF_SEED"); s != "" {
		o.seed, _ = strconv.ParseInt(s, 10, 64)
	}
	rtTemplatePath = filepath.Join(o.verif, "harness", "rt", "rt.go.tmpl")
	replayTier = o.tier
	t0 := time.Now()
	rep := runCheck(&o)
	if o.tier == "thorough" && o.prop != "SELF" && o.only == "" {
		// translator validation: the SELF suite (facts of Go semantics that must be proved, and
		// must-fail harnesses whose counterexamples must be found and must replay) runs with
		// every thorough check; a failure makes the check inconclusive.
		so := o
		so.prop, so.noEvid = "SELF", true
		srep := runCheck(&so)
		n, problems := srep.selfSummary(&so)
		rep.SelfValidated = n
		for _, p := range problems {
			rep.Problems = append(rep.Problems, "translator validation (SELF): "+p)
		}
	}
	rep.WallS = time.Since(t0).Seconds()
	code := rep.finish(&o)
	return code
}

type groupRun struct {
	spec    LoadSpec
	P       *Program
	results []*HarnessResult
	err     error
	loadS   float64
}

type CheckReport struct {
	Prop          string
	Tier          string
	Seed          int64
	Groups        []*groupRun
	WallS         float64
	Confirmed     []*ConfirmedViolation
	Unconf        []*ConfirmedViolation
	Known         []*ConfirmedViolation
	Problems      []string
	Expected      int
	SelfValidated int
}

type ConfirmedViolation struct {
	V       *Violation
	Replay  string
	Outcome string
	KnownID string
}

func runCheck(o *checkOpts) *CheckReport {
	startMemWatchdog()
	rep := &CheckReport{Prop: o.prop, Tier: o.tier, Seed: o.seed}
	files, err := findHarnessFiles(filepath.Join(o.verif, "harness", o.prop))
	if err != nil {
		rep.Problems = append(rep.Problems, "harness discovery: "+err.Error())
		return rep
	}
	byPkg := map[string][]string{}
	var shared []string
	var aux []AuxFile
	for _, f := range files {
		if f.aux {
			aux = append(aux, AuxFile{Path: f.path, PkgDir: f.pkgDir, For: f.auxFor})
			continue
		}
		if f.pkgDir == "*" {
			shared = append(shared, f.path)
			continue
		}
		byPkg[f.pkgDir] = append(byPkg[f.pkgDir], f.path)
	}
	for d := range byPkg {
		byPkg[d] = append(byPkg[d], shared...)
	}
	var onlyRe *regexp.Regexp
	if o.only != "" {
		onlyRe = regexp.MustCompile(o.only)
	}
	sem := make(chan struct{}, o.workers)
	var wg sync.WaitGroup
	var mu sync.Mutex
	for _, dir := range sortedKeys(byPkg) {
		// an aux file may be limited to some harness packages (//verif:aux <dir> for=<pkgdir>,...)
		var gaux []AuxFile
		for _, a := range aux {
			ok := len(a.For) == 0
			for _, d := range a.For {
				if d == dir {
					ok = true
				}
			}
			if ok {
				gaux = append(gaux, a)
			}
		}
		g := &groupRun{spec: LoadSpec{RepoDir: o.repo, PkgDir: dir, Files: byPkg[dir], Aux: gaux}}
		rep.Groups = append(rep.Groups, g)
		wg.Add(1)
		go func(g *groupRun) {
			defer wg.Done()
			tl := time.Now()
			P, err := LoadProgram(g.spec)
			g.loadS = time.Since(tl).Seconds()
			if err != nil {
				g.err = err
				return
			}
			g.P = P
			var hw sync.WaitGroup
			for _, name := range P.harnessNames() {
				hd := P.harness[name]
				if onlyRe != nil && !onlyRe.MatchString(name) {
					continue
				}
				if t := hd.Opts["tier"]; t == "thorough" && o.tier != "thorough" {
					continue
				}
				if t := hd.Opts["tier"]; t == "quick" && o.tier != "quick" {
					continue
				}
				cfg := &HarnessCfg{
					Name: name, Entry: hd.Fn, Property: o.prop, Tier: o.tier,
					MaxPaths:      optInt(hd.Opts, o.tier, "maxpaths", 20000),
					MaxSteps:      int64(optInt(hd.Opts, o.tier, "steps", 5_000_000)),
					MaxDecisions:  optInt(hd.Opts, o.tier, "decisions", 400),
					MaxConcretize: optInt(hd.Opts, o.tier, "concretize", 70),
					MaxDepth:      optInt(hd.Opts, o.tier, "depth", 200),
					MaxAlloc:      optInt(hd.Opts, o.tier, "alloc", 1<<20),
					PermuteMaps:   optInt(hd.Opts, o.tier, "permute", 0),
					Workers:       optInt(hd.Opts, o.tier, "workers", 8),
					BranchTO:      time.Duration(optInt(hd.Opts, o.tier, "branchto", 10)) * time.Second,
					AssertTO:      time.Duration(optInt(hd.Opts, o.tier, "assertto", 60)) * time.Second,
					MaxWall:       time.Duration(optInt(hd.Opts, o.tier, "wall", map[string]int{"quick": 600, "thorough": 1500}[o.tier])) * time.Second,
					CrossEach:     optInt(hd.Opts, o.tier, "cross", map[string]int{"quick": 0, "thorough": 0}[o.tier]),
					Sched:         optInt(hd.Opts, o.tier, "sched", 0) != 0,
					Race:          optInt(hd.Opts, o.tier, "race", 0) != 0,
					MaxPreempt:    optInt(hd.Opts, o.tier, "preempt", map[string]int{"quick": 1, "thorough": 2}[o.tier]),
					MaxGoroutines: optInt(hd.Opts, o.tier, "goroutines", 24),
				}
				hr := newHarnessResult(name)
				mu.Lock()
				g.results = append(g.results, hr)
				mu.Unlock()
				hw.Add(1)
				go func() {
					defer hw.Done()
					ex := &Explorer{P: P, cfg: cfg, res: hr, sem: sem}
					ex.Run()
					if o.verbose {
						fmt.Fprintf(os.Stderr, "[%s] paths=%d steps=%d ends=%v viol=%d incomplete=%d wall=%.1fs\n", name, hr.Paths, hr.Steps, hr.Ends, len(hr.Violations), len(hr.Incomplete), hr.WallS)
					}
				}()
			}
			hw.Wait()
		}(g)
	}
	wg.Wait()
	for _, g := range rep.Groups {
		sort.Slice(g.results, func(i, j int) bool { return g.results[i].Name < g.results[j].Name })
	}
	if !o.noReplay {
		rep.replayAll(o)
	}
	return rep
}

// finish prints the verdict, writes evidence, and returns the exit code.
func (rep *CheckReport) finish(o *checkOpts) int {
	inconclusive := append([]string(nil), rep.Problems...)
	nHarness := 0
	for _, g := range rep.Groups {
		if g.err != nil {
			inconclusive = append(inconclusive, fmt.Sprintf("load %s: %v", g.spec.PkgDir, g.err))
			continue
		}
		for _, hr := range g.results {
			nHarness++
			for _, m := range hr.Incomplete {
				inconclusive = append(inconclusive, hr.Name+": "+m)
			}
			for _, d := range hr.Disagree {
				inconclusive = append(inconclusive, hr.Name+": solver disagreement "+d)
			}
			// vacuity: every obligation site must have been reached; a harness with no obligations is broken
			if len(hr.Obls) == 0 && len(hr.Incomplete) == 0 {
				inconclusive = append(inconclusive, hr.Name+": vacuous harness (no obligation reached)")
			}
			if hr.Ends["done"] == 0 && len(hr.Violations) == 0 && len(hr.Incomplete) == 0 {
				inconclusive = append(inconclusive, hr.Name+": vacuous harness (no path ran to completion)")
			}
			P := g.P
			if hd := P.harness[hr.Name]; hd != nil {
				if need := hd.Opts["reach"]; need != "" {
					for _, lab := range strings.Split(need, ",") {
						if hr.Reach[lab] == 0 && len(hr.Violations) == 0 {
							inconclusive = append(inconclusive, fmt.Sprintf("%s: reachability witness %q was never reached (vacuity guard)", hr.Name, lab))
						}
					}
				}
			}
		}
	}
	if nHarness == 0 && len(inconclusive) == 0 {
		inconclusive = append(inconclusive, "no harness selected")
	}
	for _, u := range rep.Unconf {
		inconclusive = append(inconclusive, fmt.Sprintf("%s: unconfirmed counterexample for %q at %s (native replay outcome: %s)", u.V.Harness, u.V.Label, u.V.Pos, u.Outcome))
	}
	// must-fail harnesses (translator validation): a reproduced violation is the expected outcome
	expectViolation := map[string]bool{}
	for _, g := range rep.Groups {
		if g.P == nil {
			continue
		}
		for n, hd := range g.P.harness {
			if hd.Opts["expect"] == "violation" {
				expectViolation[n] = false
			}
		}
	}
	var realConfirmed []*ConfirmedViolation
	for _, c := range rep.Confirmed {
		if _, ok := expectViolation[c.V.Harness]; ok {
			expectViolation[c.V.Harness] = true
			continue
		}
		realConfirmed = append(realConfirmed, c)
	}
	rep.Expected = len(rep.Confirmed) - len(realConfirmed)
	rep.Confirmed = realConfirmed
	for _, g := range rep.Groups {
		for _, hr := range g.results {
			if got, ok := expectViolation[hr.Name]; ok && !got {
				inconclusive = append(inconclusive, hr.Name+": must-fail harness produced no reproduced counterexample (engine defect)")
			}
		}
	}
	code := 0
	for _, k := range rep.Known {
		fmt.Printf("KNOWN-FINDING: property=%s %s\n", rep.Prop, k.KnownID)
	}
	for _, c := range rep.Confirmed {
		fmt.Printf("VIOLATION property=%s replay=%s\n", rep.Prop, c.Replay)
		fmt.Printf("  harness=%s kind=%s label=%q at %s %s\n  native replay: %s\n", c.V.Harness, c.V.Kind, c.V.Label, c.V.Pos, c.V.Msg, c.Outcome)
		code = 1
	}
	if code == 0 && len(inconclusive) > 0 {
		code = 2
	}
	for _, m := range inconclusive {
		fmt.Printf("INCONCLUSIVE property=%s %s\n", rep.Prop, m)
	}
	if !o.noEvid {
		if err := rep.writeEvidence(o, inconclusive); err != nil {
			fmt.Printf("INCONCLUSIVE property=%s cannot write evidence: %v\n", rep.Prop, err)
			if code == 0 {
				code = 2
			}
		}
	}
	rep.printSummary()
	if code == 0 {
		fmt.Printf("OK property=%s tier=%s: all obligations discharged within the stated bounds\n", rep.Prop, rep.Tier)
	}
	return code
}

func (rep *CheckReport) printSummary() {
	for _, g := range rep.Groups {
		if g.err != nil {
			continue
		}
		for _, hr := range g.results {
			nob, dis, triv, viol, unk := 0, 0, 0, 0, 0
			for _, ob := range hr.Obls {
				nob++
				dis += ob.Discharged
				triv += ob.Trivial
				viol += ob.Violated
				unk += ob.Unknown
			}
			if os.Getenv("GOSYM_PROFILE") != "" {
				for _, k := range sortedKeys(hr.Obls) {
					ob := hr.Obls[k]
					if ob.SolverS > 1 {
						fmt.Printf("    slow obligation %.1fs %s\n", ob.SolverS, k)
					}
				}
			}
			fmt.Printf("  %-40s paths=%-6d steps=%-9d obligation-sites=%-3d unsat=%-6d trivial=%-6d sat=%-3d unknown=%-3d ends=%v solver=%.1fs wall=%.1fs\n",
				hr.Name, hr.Paths, hr.Steps, nob, dis, triv, viol, unk, hr.Ends, hr.SolverS, hr.WallS)
		}
	}
}

func (rep *CheckReport) writeEvidence(o *checkOpts, inconclusive []string) error {
	type sample struct {
		Harness     string         `json:"harness"`
		Obligations []*Obligation  `json:"obligations"`
		Paths       int            `json:"paths"`
		Ends        map[string]int `json:"path_ends"`
		Reach       map[string]int `json:"reach_witnesses,omitempty"`
		SamplePaths []string       `json:"sample_paths,omitempty"`
		ByDesign    map[string]int `json:"documented_differences_hit,omitempty"`
		Bounds      map[string]any `json:"bounds"`
	}
	var samples []sample
	states, transitions, obligations, discharged := 0, int64(0), 0, 0
	queries := map[string]int{}
	solverS := 0.0
	var funcs []FuncInfo
	models := map[string]int{}
	assumptions := map[string]bool{}
	otherFuncs := 0
	validated := 0
	for _, g := range rep.Groups {
		if g.err != nil || g.P == nil {
			continue
		}
		for _, hr := range g.results {
			var obs []*Obligation
			for _, k := range sortedKeys(hr.Obls) {
				ob := hr.Obls[k]
				obs = append(obs, ob)
				obligations += ob.Reached
				discharged += ob.Discharged + ob.Trivial
			}
			hd := g.P.harness[hr.Name]
			s := sample{Harness: hr.Name, Obligations: obs, Paths: hr.Paths, Ends: hr.Ends, Reach: hr.Reach, SamplePaths: hr.SamplePaths, ByDesign: hr.ByDesign,
				Bounds: map[string]any{"declared": hd.Opts, "max_alloc_seen": hr.MaxAlloc, "decisions_total": hr.Decisions, "doc": firstLines(hd.Doc, 12)}}
			samples = append(samples, s)
			states += hr.Paths
			transitions += hr.Steps
			for k, v := range hr.Queries {
				queries[k] += v
			}
			solverS += hr.SolverS
		}
		fi, other := g.P.repoFuncs()
		funcs = append(funcs, fi...)
		otherFuncs += other
		for k, v := range g.P.modelsUsed {
			models[k] += v
		}
		for k := range g.P.assumptions {
			assumptions[k] = true
		}
	}
	validated = len(rep.Confirmed) + len(rep.Unconf) + len(rep.Known) + rep.Expected + rep.SelfValidated
	if states == 0 {
		states = 1
	}
	if transitions == 0 {
		transitions = 1
	}
	var assume []string
	for k := range assumptions {
		assume = append(assume, k)
	}
	for _, k := range sortedKeys(models) {
		assume = append(assume, fmt.Sprintf("model used: %s (×%d)", k, models[k]))
	}
	sort.Strings(assume)
	level := "model_checking"
	if lv, err := os.ReadFile(filepath.Join(o.verif, "harness", rep.Prop, "LEVEL")); err == nil {
		level = strings.TrimSpace(string(lv))
	}
	cov := map[string]any{
		"states":                         states,
		"transitions":                    transitions,
		"traces_validated_against_impl":  validated,
		"samples":                        samples,
		"obligations":                    obligations,
		"discharged":                     discharged,
		"queries":                        queries,
		"solver_s":                       round2(solverS),
		"functions_encoded":              funcs,
		"functions_encoded_outside_repo": otherFuncs,
		"inconclusive":                   inconclusive,
		"explanation": "states = feasible paths explored by bounded symbolic execution of the go/ssa of the real functions; transitions = SSA instructions executed symbolically; " +
			"obligations = assertion instances reached, discharged = proved unsat (or trivially true after constant folding) under the path condition; " +
			"traces_validated_against_impl = counterexample tapes replayed against the native build",
	}
	if level == "translation_validation" {
		cov["programs"] = len(samples)
		cov["disagreements_checked"] = obligations
	}
	var known []string
	for _, k := range rep.Known {
		known = append(known, k.KnownID)
	}
	if len(known) > 0 {
		cov["known_findings_reproduced"] = known
	}
	ev := map[string]any{
		"property_id": rep.Prop,
		"tier":        rep.Tier,
		"seed":        rep.Seed,
		"level":       level,
		"coverage":    cov,
		"assumptions": assume,
		"wall_s":      round2(rep.WallS),
		"violations":  len(rep.Confirmed),
	}
	b, err := json.MarshalIndent(ev, "", " ")
	if err != nil {
		return err
	}
	dir := filepath.Join(o.verif, "evidence")
	os.MkdirAll(dir, 0o755)
	return os.WriteFile(filepath.Join(dir, rep.Prop+".json"), b, 0o644)
}

func firstLines(s string, n int) string {
	l := strings.Split(strings.TrimSpace(s), "\n")
	if len(l) > n {
		l = l[:n]
	}
	return strings.Join(l, "\n")
}

func round2(f float64) float64 { return float64(int64(f*100+0.5)) / 100 }

// selfSummary evaluates a run of the SELF suite: number of validated items (proved semantic
// facts + reproduced must-fail counterexamples) and the list of problems.
func (rep *CheckReport) selfSummary(o *checkOpts) (int, []string) {
	var problems []string
	n := 0
	expect := map[string]bool{}
	for _, g := range rep.Groups {
		if g.err != nil {
			problems = append(problems, g.err.Error())
			continue
		}
		for name, hd := range g.P.harness {
			if hd.Opts["expect"] == "violation" {
				expect[name] = false
			}
		}
		for _, hr := range g.results {
			problems = append(problems, hr.Incomplete...)
			for _, ob := range hr.Obls {
				n += ob.Discharged + ob.Trivial
			}
		}
	}
	for _, c := range rep.Confirmed {
		if _, ok := expect[c.V.Harness]; ok {
			expect[c.V.Harness] = true
			n++
		} else {
			problems = append(problems, "semantic fact refuted: "+c.V.Harness+" "+c.V.Label)
		}
	}
	for _, u := range rep.Unconf {
		problems = append(problems, "unreplayed counterexample in "+u.V.Harness+" "+u.V.Label)
	}
	for h, ok := range expect {
		if !ok {
			problems = append(problems, "must-fail harness "+h+" found no reproduced counterexample")
		}
	}
	return n, problems
}
