package main

// Hash-consed SMT terms (Bool and fixed-width bit-vectors) with constant folding.

import (
	"fmt"
	"math/bits"
	"strings"
)

type Op uint8

const (
	OpConst Op = iota
	OpVar
	OpNot
	OpAnd
	OpOr
	OpIte
	OpEq
	OpAdd
	OpSub
	OpMul
	OpUDiv
	OpURem
	OpSDiv
	OpSRem
	OpBAnd
	OpBOr
	OpBXor
	OpBNot
	OpNeg
	OpShl
	OpLShr
	OpAShr
	OpUlt
	OpUle
	OpSlt
	OpSle
	OpConcat
	OpExtract
	OpZext
	OpSext
)

var opName = map[Op]string{
	OpNot: "not", OpAnd: "and", OpOr: "or", OpIte: "ite", OpEq: "=",
	OpAdd: "bvadd", OpSub: "bvsub", OpMul: "bvmul", OpUDiv: "bvudiv", OpURem: "bvurem",
	OpSDiv: "bvsdiv", OpSRem: "bvsrem", OpBAnd: "bvand", OpBOr: "bvor", OpBXor: "bvxor",
	OpBNot: "bvnot", OpNeg: "bvneg", OpShl: "bvshl", OpLShr: "bvlshr", OpAShr: "bvashr",
	OpUlt: "bvult", OpUle: "bvule", OpSlt: "bvslt", OpSle: "bvsle", OpConcat: "concat",
}

// Term is immutable. w == 0 means Bool, otherwise a bit-vector of width w.
type Term struct {
	op     Op
	w      int
	a      [3]*Term
	n      int // number of args
	val    uint64
	name   string
	hi, lo int
	id     int
	hard   bool // contains mul/div/rem by non-constant or non-power-of-two
}

type termKey struct {
	op      Op
	w       int
	a, b, c int
	val     uint64
	name    string
	hi, lo  int
}

type TermStore struct {
	tab   map[termKey]*Term
	all   []*Term
	True  *Term
	False *Term
	nvars int
}

func NewTermStore() *TermStore {
	ts := &TermStore{tab: map[termKey]*Term{}}
	ts.True = ts.mk(&Term{op: OpConst, w: 0, val: 1})
	ts.False = ts.mk(&Term{op: OpConst, w: 0, val: 0})
	return ts
}

func (ts *TermStore) mk(t *Term) *Term {
	k := termKey{op: t.op, w: t.w, val: t.val, name: t.name, hi: t.hi, lo: t.lo, a: -1, b: -1, c: -1}
	if t.n > 0 {
		k.a = t.a[0].id
	}
	if t.n > 1 {
		k.b = t.a[1].id
	}
	if t.n > 2 {
		k.c = t.a[2].id
	}
	if x, ok := ts.tab[k]; ok {
		return x
	}
	t.id = len(ts.all)
	for i := 0; i < t.n; i++ {
		if t.a[i].hard {
			t.hard = true
		}
	}
	switch t.op {
	case OpMul:
		if !t.a[0].IsConst() && !t.a[1].IsConst() {
			t.hard = true
		}
	case OpUDiv, OpURem, OpSDiv, OpSRem:
		t.hard = true
	}
	ts.all = append(ts.all, t)
	ts.tab[k] = t
	return t
}

func mask(w int) uint64 {
	if w >= 64 {
		return ^uint64(0)
	}
	return (uint64(1) << uint(w)) - 1
}

func (t *Term) IsConst() bool { return t.op == OpConst }
func (t *Term) IsBool() bool  { return t.w == 0 }
func (t *Term) IsTrue() bool  { return t.op == OpConst && t.w == 0 && t.val == 1 }
func (t *Term) IsFalse() bool { return t.op == OpConst && t.w == 0 && t.val == 0 }

// SVal returns the constant as a sign-extended int64.
func (t *Term) SVal() int64 {
	if t.w >= 64 {
		return int64(t.val)
	}
	sh := uint(64 - t.w)
	return int64(t.val<<sh) >> sh
}

func (ts *TermStore) BV(w int, v uint64) *Term {
	if w <= 0 || w > 64 {
		panic(fmt.Sprintf("BV const width %d", w))
	}
	return ts.mk(&Term{op: OpConst, w: w, val: v & mask(w)})
}

func (ts *TermStore) Bool(b bool) *Term {
	if b {
		return ts.True
	}
	return ts.False
}

func (ts *TermStore) Var(name string, w int) *Term {
	return ts.mk(&Term{op: OpVar, w: w, name: name})
}

func (ts *TermStore) FreshVar(prefix string, w int) *Term {
	ts.nvars++
	return ts.Var(fmt.Sprintf("%s!%d", prefix, ts.nvars), w)
}

func (ts *TermStore) un(op Op, w int, x *Term) *Term {
	t := &Term{op: op, w: w, n: 1}
	t.a[0] = x
	return ts.mk(t)
}

func (ts *TermStore) bin(op Op, w int, x, y *Term) *Term {
	t := &Term{op: op, w: w, n: 2}
	t.a[0], t.a[1] = x, y
	return ts.mk(t)
}

func (ts *TermStore) Not(x *Term) *Term {
	if x.w != 0 {
		panic("Not on non-bool")
	}
	if x.IsConst() {
		return ts.Bool(x.val == 0)
	}
	if x.op == OpNot {
		return x.a[0]
	}
	return ts.un(OpNot, 0, x)
}

func (ts *TermStore) And(x, y *Term) *Term {
	if x.w != 0 || y.w != 0 {
		panic("And on non-bool")
	}
	if x.IsFalse() || y.IsFalse() {
		return ts.False
	}
	if x.IsTrue() {
		return y
	}
	if y.IsTrue() {
		return x
	}
	if x == y {
		return x
	}
	if (x.op == OpNot && x.a[0] == y) || (y.op == OpNot && y.a[0] == x) {
		return ts.False
	}
	if x.id > y.id {
		x, y = y, x
	}
	return ts.bin(OpAnd, 0, x, y)
}

func (ts *TermStore) Or(x, y *Term) *Term {
	if x.IsTrue() || y.IsTrue() {
		return ts.True
	}
	if x.IsFalse() {
		return y
	}
	if y.IsFalse() {
		return x
	}
	if x == y {
		return x
	}
	if (x.op == OpNot && x.a[0] == y) || (y.op == OpNot && y.a[0] == x) {
		return ts.True
	}
	if x.id > y.id {
		x, y = y, x
	}
	return ts.bin(OpOr, 0, x, y)
}

func (ts *TermStore) Implies(x, y *Term) *Term { return ts.Or(ts.Not(x), y) }

func (ts *TermStore) Ite(c, x, y *Term) *Term {
	if c.w != 0 {
		panic("Ite cond non-bool")
	}
	if x.w != y.w {
		panic(fmt.Sprintf("Ite width mismatch %d %d", x.w, y.w))
	}
	if c.IsTrue() {
		return x
	}
	if c.IsFalse() {
		return y
	}
	if x == y {
		return x
	}
	if x.w == 0 {
		if x.IsTrue() && y.IsFalse() {
			return c
		}
		if x.IsFalse() && y.IsTrue() {
			return ts.Not(c)
		}
		if x.IsTrue() {
			return ts.Or(c, y)
		}
		if x.IsFalse() {
			return ts.And(ts.Not(c), y)
		}
		if y.IsTrue() {
			return ts.Or(ts.Not(c), x)
		}
		if y.IsFalse() {
			return ts.And(c, x)
		}
	}
	if c.op == OpNot {
		return ts.Ite(c.a[0], y, x)
	}
	t := &Term{op: OpIte, w: x.w, n: 3}
	t.a[0], t.a[1], t.a[2] = c, x, y
	return ts.mk(t)
}

func (ts *TermStore) Eq(x, y *Term) *Term {
	if x.w != y.w {
		panic(fmt.Sprintf("Eq width mismatch %d %d", x.w, y.w))
	}
	if x == y {
		return ts.True
	}
	if x.IsConst() && y.IsConst() {
		return ts.Bool(x.val == y.val)
	}
	if x.w == 0 {
		if x.IsConst() {
			x, y = y, x
		}
		if y.IsTrue() {
			return x
		}
		if y.IsFalse() {
			return ts.Not(x)
		}
	}
	if x.IsConst() {
		x, y = y, x
	}
	// x non-const here (or both non-const)
	if y.IsConst() && x.op == OpIte {
		// push equality through ite when a branch is constant: keeps ITE chains small
		if x.a[1].IsConst() || x.a[2].IsConst() {
			return ts.Ite(x.a[0], ts.Eq(x.a[1], y), ts.Eq(x.a[2], y))
		}
	}
	if y.IsConst() && x.op == OpZext {
		in := x.a[0]
		if y.val&^mask(in.w) != 0 {
			return ts.False
		}
		return ts.Eq(in, ts.BV(in.w, y.val))
	}
	if y.IsConst() && x.op == OpConcat {
		lo := x.a[1]
		hi := x.a[0]
		return ts.And(ts.Eq(hi, ts.BV(hi.w, y.val>>uint(lo.w))), ts.Eq(lo, ts.BV(lo.w, y.val)))
	}
	if x.id > y.id {
		x, y = y, x
	}
	return ts.bin(OpEq, 0, x, y)
}

func (ts *TermStore) Ne(x, y *Term) *Term { return ts.Not(ts.Eq(x, y)) }

func sext(v uint64, w int) int64 {
	if w >= 64 {
		return int64(v)
	}
	sh := uint(64 - w)
	return int64(v<<sh) >> sh
}

// Arith builds a binary bit-vector operation.
func (ts *TermStore) Arith(op Op, x, y *Term) *Term {
	if x.w != y.w || x.w == 0 {
		panic(fmt.Sprintf("Arith %v width mismatch %d %d", opName[op], x.w, y.w))
	}
	w := x.w
	if x.IsConst() && y.IsConst() && w <= 64 {
		a, b := x.val, y.val
		var r uint64
		switch op {
		case OpAdd:
			r = a + b
		case OpSub:
			r = a - b
		case OpMul:
			r = a * b
		case OpUDiv:
			if b == 0 {
				r = mask(w)
			} else {
				r = a / b
			}
		case OpURem:
			if b == 0 {
				r = a
			} else {
				r = a % b
			}
		case OpSDiv:
			sa, sb := sext(a, w), sext(b, w)
			if sb == 0 {
				if sa >= 0 {
					r = mask(w)
				} else {
					r = 1
				}
			} else if sb == -1 {
				r = uint64(-sa)
			} else {
				r = uint64(sa / sb)
			}
		case OpSRem:
			sa, sb := sext(a, w), sext(b, w)
			if sb == 0 {
				r = a
			} else if sb == -1 {
				r = 0
			} else {
				r = uint64(sa % sb)
			}
		case OpBAnd:
			r = a & b
		case OpBOr:
			r = a | b
		case OpBXor:
			r = a ^ b
		case OpShl:
			if b >= uint64(w) {
				r = 0
			} else {
				r = a << b
			}
		case OpLShr:
			if b >= uint64(w) {
				r = 0
			} else {
				r = a >> b
			}
		case OpAShr:
			sa := sext(a, w)
			if b >= uint64(w) {
				if sa < 0 {
					r = mask(w)
				} else {
					r = 0
				}
			} else {
				r = uint64(sa >> b)
			}
		default:
			panic("Arith: bad op")
		}
		return ts.BV(w, r)
	}
	// identities
	switch op {
	case OpAdd:
		if x.IsConst() && x.val == 0 {
			return y
		}
		if y.IsConst() && y.val == 0 {
			return x
		}
		if x.IsConst() {
			x, y = y, x
		}
		// (a + c1) + c2
		if y.IsConst() && x.op == OpAdd && x.a[1].IsConst() {
			return ts.Arith(OpAdd, x.a[0], ts.BV(w, x.a[1].val+y.val))
		}
	case OpSub:
		if y.IsConst() && y.val == 0 {
			return x
		}
		if x == y {
			return ts.BV(w, 0)
		}
		if y.IsConst() {
			return ts.Arith(OpAdd, x, ts.BV(w, -y.val))
		}
		// (a + c1) - a, a - (a + c2), (a + c1) - (a + c2): offsets from a common symbolic base
		{
			xb, xc := x, uint64(0)
			if x.op == OpAdd && x.a[1].IsConst() {
				xb, xc = x.a[0], x.a[1].val
			}
			yb, yc := y, uint64(0)
			if y.op == OpAdd && y.a[1].IsConst() {
				yb, yc = y.a[0], y.a[1].val
			}
			if xb == yb {
				return ts.BV(w, xc-yc)
			}
		}
	case OpMul:
		if x.IsConst() {
			x, y = y, x
		}
		if y.IsConst() {
			if y.val == 0 {
				return y
			}
			if y.val == 1 {
				return x
			}
			if bits.OnesCount64(y.val) == 1 {
				return ts.Arith(OpShl, x, ts.BV(w, uint64(bits.TrailingZeros64(y.val))))
			}
		}
	case OpUDiv:
		if y.IsConst() && y.val == 1 {
			return x
		}
		if y.IsConst() && bits.OnesCount64(y.val) == 1 {
			return ts.Arith(OpLShr, x, ts.BV(w, uint64(bits.TrailingZeros64(y.val))))
		}
	case OpURem:
		if y.IsConst() && y.val != 0 && bits.OnesCount64(y.val) == 1 {
			return ts.Arith(OpBAnd, x, ts.BV(w, y.val-1))
		}
	case OpBAnd:
		if x.IsConst() {
			x, y = y, x
		}
		if y.IsConst() {
			if y.val == 0 {
				return y
			}
			if y.val == mask(w) {
				return x
			}
			// a contiguous mask is an extract padded with zeros: keeps bit-twiddling structural
			if w <= 64 {
				m := y.val
				lo := bits.TrailingZeros64(m)
				run := bits.TrailingZeros64(^(m >> uint(lo)))
				if lo+run <= w && (run == 64 || m>>uint(lo) == (uint64(1)<<uint(run))-1) {
					mid := ts.Extract(x, lo+run-1, lo)
					res := mid
					if lo > 0 {
						res = ts.Concat(res, ts.BV(lo, 0))
					}
					return ts.Zext(res, w)
				}
			}
		}
		if x == y {
			return x
		}
	case OpBOr:
		if x.IsConst() {
			x, y = y, x
		}
		if y.IsConst() {
			if y.val == 0 {
				return x
			}
			if y.val == mask(w) {
				return y
			}
		}
		if x == y {
			return x
		}
		// disjoint bit fields OR-ed together are a concatenation: big-endian reassembly of bytes
		// that were cut out of one value folds back to that value
		if w <= 64 {
			if pa, ok := ts.fields(x, 0); ok {
				if pb, ok := ts.fields(y, 0); ok {
					if r := ts.joinFields(w, append(pa, pb...)); r != nil {
						return r
					}
				}
			}
		}
		// (h ++ 0_k) | zext(l), width(l) <= k  ==>  h ++ zext_k(l)
		for i := 0; i < 2; i++ {
			a, b := x, y
			if i == 1 {
				a, b = y, x
			}
			if a.op == OpConcat && a.a[1].IsConst() && a.a[1].val == 0 {
				k := a.a[1].w
				var l *Term
				if b.op == OpZext && b.a[0].w <= k {
					l = b.a[0]
				}
				if l != nil {
					return ts.Concat(a.a[0], ts.Zext(l, k))
				}
			}
		}
	case OpBXor:
		if x.IsConst() {
			x, y = y, x
		}
		if y.IsConst() && y.val == 0 {
			return x
		}
		if x == y {
			return ts.BV(w, 0)
		}
	case OpShl, OpLShr, OpAShr:
		if y.IsConst() && y.val == 0 {
			return x
		}
		if y.IsConst() && y.val >= uint64(w) && op != OpAShr {
			return ts.BV(w, 0)
		}
		if x.IsConst() && x.val == 0 {
			return x
		}
		// shifts by constants become extract/concat, which solvers and the folder like better
		if y.IsConst() && y.val < uint64(w) {
			k := int(y.val)
			switch op {
			case OpShl:
				return ts.Concat(ts.Extract(x, w-1-k, 0), ts.BV(k, 0))
			case OpLShr:
				return ts.Zext(ts.Extract(x, w-1, k), w)
			}
		}
	}
	return ts.bin(op, w, x, y)
}

func (ts *TermStore) BNot(x *Term) *Term {
	if x.IsConst() {
		return ts.BV(x.w, ^x.val)
	}
	if x.op == OpBNot {
		return x.a[0]
	}
	return ts.un(OpBNot, x.w, x)
}

func (ts *TermStore) Neg(x *Term) *Term {
	if x.IsConst() {
		return ts.BV(x.w, -x.val)
	}
	return ts.un(OpNeg, x.w, x)
}

// Cmp builds an unsigned/signed comparison.
func (ts *TermStore) Cmp(op Op, x, y *Term) *Term {
	if x.w != y.w || x.w == 0 {
		panic(fmt.Sprintf("Cmp width mismatch %d %d", x.w, y.w))
	}
	w := x.w
	if x.IsConst() && y.IsConst() {
		switch op {
		case OpUlt:
			return ts.Bool(x.val < y.val)
		case OpUle:
			return ts.Bool(x.val <= y.val)
		case OpSlt:
			return ts.Bool(sext(x.val, w) < sext(y.val, w))
		case OpSle:
			return ts.Bool(sext(x.val, w) <= sext(y.val, w))
		}
	}
	if x == y {
		return ts.Bool(op == OpUle || op == OpSle)
	}
	switch op {
	case OpUlt:
		if y.IsConst() && y.val == 0 {
			return ts.False
		}
		if x.IsConst() && x.val == mask(w) {
			return ts.False
		}
	case OpUle:
		if x.IsConst() && x.val == 0 {
			return ts.True
		}
		if y.IsConst() && y.val == mask(w) {
			return ts.True
		}
	}
	// comparisons of zero-extended values with constants
	if x.op == OpZext && y.IsConst() {
		in := x.a[0]
		yv := y.val
		if op == OpSlt || op == OpSle {
			if sext(yv, w) < 0 {
				return ts.False
			}
			if op == OpSlt {
				op = OpUlt
			} else {
				op = OpUle
			}
		}
		if yv > mask(in.w) {
			return ts.True
		}
		return ts.Cmp(op, in, ts.BV(in.w, yv))
	}
	if y.op == OpZext && x.IsConst() {
		in := y.a[0]
		xv := x.val
		if op == OpSlt || op == OpSle {
			if sext(xv, w) < 0 {
				return ts.True
			}
			if op == OpSlt {
				op = OpUlt
			} else {
				op = OpUle
			}
		}
		if xv > mask(in.w) {
			return ts.False
		}
		return ts.Cmp(op, ts.BV(in.w, xv), in)
	}
	return ts.bin(op, 0, x, y)
}

func (ts *TermStore) Concat(hi, lo *Term) *Term {
	if hi.w == 0 || lo.w == 0 {
		panic("Concat bool")
	}
	w := hi.w + lo.w
	if hi.IsConst() && lo.IsConst() && w <= 64 {
		return ts.BV(w, hi.val<<uint(lo.w)|lo.val)
	}
	// concat(extract(x,h,m+1), extract(x,m,l)) = extract(x,h,l)
	if hi.op == OpExtract && lo.op == OpExtract && hi.a[0] == lo.a[0] && hi.lo == lo.hi+1 {
		return ts.Extract(hi.a[0], hi.hi, lo.lo)
	}
	if hi.IsConst() && hi.val == 0 && w <= 64 {
		return ts.Zext(lo, w)
	}
	return ts.bin(OpConcat, w, hi, lo)
}

func (ts *TermStore) Extract(x *Term, hi, lo int) *Term {
	if hi < lo || lo < 0 || hi >= x.w {
		panic(fmt.Sprintf("Extract [%d:%d] of width %d", hi, lo, x.w))
	}
	w := hi - lo + 1
	if w == x.w {
		return x
	}
	if x.IsConst() {
		return ts.BV(w, x.val>>uint(lo))
	}
	switch x.op {
	case OpExtract:
		return ts.Extract(x.a[0], x.lo+hi, x.lo+lo)
	case OpConcat:
		l := x.a[1]
		h := x.a[0]
		if hi < l.w {
			return ts.Extract(l, hi, lo)
		}
		if lo >= l.w {
			return ts.Extract(h, hi-l.w, lo-l.w)
		}
		return ts.Concat(ts.Extract(h, hi-l.w, 0), ts.Extract(l, l.w-1, lo))
	case OpZext:
		in := x.a[0]
		if hi < in.w {
			return ts.Extract(in, hi, lo)
		}
		if lo >= in.w {
			return ts.BV(w, 0)
		}
		return ts.Zext(ts.Extract(in, in.w-1, lo), w)
	case OpSext:
		in := x.a[0]
		if hi < in.w {
			return ts.Extract(in, hi, lo)
		}
	case OpBAnd, OpBOr, OpBXor:
		if lo == 0 || x.a[1].IsConst() {
			return ts.Arith(x.op, ts.Extract(x.a[0], hi, lo), ts.Extract(x.a[1], hi, lo))
		}
	case OpAdd, OpSub, OpMul:
		if lo == 0 {
			return ts.Arith(x.op, ts.Extract(x.a[0], hi, 0), ts.Extract(x.a[1], hi, 0))
		}
	case OpIte:
		if x.a[1].IsConst() || x.a[2].IsConst() {
			return ts.Ite(x.a[0], ts.Extract(x.a[1], hi, lo), ts.Extract(x.a[2], hi, lo))
		}
	}
	t := &Term{op: OpExtract, w: w, n: 1, hi: hi, lo: lo}
	t.a[0] = x
	return ts.mk(t)
}

func (ts *TermStore) Zext(x *Term, w int) *Term {
	if w == x.w {
		return x
	}
	if w < x.w {
		return ts.Extract(x, w-1, 0)
	}
	if x.IsConst() {
		return ts.BV(w, x.val)
	}
	if x.op == OpZext {
		return ts.Zext(x.a[0], w)
	}
	if x.op == OpIte && (x.a[1].IsConst() || x.a[2].IsConst()) {
		return ts.Ite(x.a[0], ts.Zext(x.a[1], w), ts.Zext(x.a[2], w))
	}
	return ts.un(OpZext, w, x)
}

func (ts *TermStore) Sext(x *Term, w int) *Term {
	if w == x.w {
		return x
	}
	if w < x.w {
		return ts.Extract(x, w-1, 0)
	}
	if x.IsConst() {
		return ts.BV(w, uint64(sext(x.val, x.w)))
	}
	if x.op == OpZext {
		return ts.Zext(x.a[0], w)
	}
	if x.op == OpIte && (x.a[1].IsConst() || x.a[2].IsConst()) {
		return ts.Ite(x.a[0], ts.Sext(x.a[1], w), ts.Sext(x.a[2], w))
	}
	return ts.un(OpSext, w, x)
}

// ---- printing ----

func sortStr(w int) string {
	if w == 0 {
		return "Bool"
	}
	return fmt.Sprintf("(_ BitVec %d)", w)
}

func smtName(s string) string {
	var b strings.Builder
	b.WriteString("v_")
	for _, r := range s {
		switch {
		case r >= 'a' && r <= 'z', r >= 'A' && r <= 'Z', r >= '0' && r <= '9', r == '_', r == '!', r == '.', r == '-':
			b.WriteRune(r)
		default:
			fmt.Fprintf(&b, "$%x$", r)
		}
	}
	return b.String()
}

func (t *Term) ref() string {
	switch t.op {
	case OpConst:
		if t.w == 0 {
			if t.val == 1 {
				return "true"
			}
			return "false"
		}
		if t.w%4 == 0 {
			return fmt.Sprintf("#x%0*x", t.w/4, t.val)
		}
		return fmt.Sprintf("#b%0*b", t.w, t.val)
	case OpVar:
		return smtName(t.name)
	}
	return fmt.Sprintf("t%d", t.id)
}

// def returns the SMT-LIB definition line for a term (empty for constants).
func (t *Term) def() string {
	switch t.op {
	case OpConst:
		return ""
	case OpVar:
		return fmt.Sprintf("(declare-const %s %s)\n", smtName(t.name), sortStr(t.w))
	}
	var body string
	switch t.op {
	case OpExtract:
		body = fmt.Sprintf("((_ extract %d %d) %s)", t.hi, t.lo, t.a[0].ref())
	case OpZext:
		body = fmt.Sprintf("((_ zero_extend %d) %s)", t.w-t.a[0].w, t.a[0].ref())
	case OpSext:
		body = fmt.Sprintf("((_ sign_extend %d) %s)", t.w-t.a[0].w, t.a[0].ref())
	default:
		var sb strings.Builder
		sb.WriteString("(")
		sb.WriteString(opName[t.op])
		for i := 0; i < t.n; i++ {
			sb.WriteString(" ")
			sb.WriteString(t.a[i].ref())
		}
		sb.WriteString(")")
		body = sb.String()
	}
	return fmt.Sprintf("(define-fun t%d () %s %s)\n", t.id, sortStr(t.w), body)
}

// String renders a term fully inline (for diagnostics and evidence samples).
func (t *Term) String() string {
	return t.str(0)
}

func (t *Term) str(depth int) string {
	if depth > 6 {
		return "…"
	}
	switch t.op {
	case OpConst:
		if t.w == 0 {
			return t.ref()
		}
		return fmt.Sprintf("%d:%d", sext(t.val, t.w), t.w)
	case OpVar:
		return t.name
	case OpExtract:
		return fmt.Sprintf("%s[%d:%d]", t.a[0].str(depth+1), t.hi, t.lo)
	case OpZext:
		return fmt.Sprintf("zext%d(%s)", t.w, t.a[0].str(depth+1))
	case OpSext:
		return fmt.Sprintf("sext%d(%s)", t.w, t.a[0].str(depth+1))
	}
	var sb strings.Builder
	sb.WriteString("(")
	sb.WriteString(opName[t.op])
	for i := 0; i < t.n; i++ {
		sb.WriteString(" ")
		sb.WriteString(t.a[i].str(depth + 1))
	}
	sb.WriteString(")")
	return sb.String()
}

// eval evaluates a term under an assignment of variables (used to double check models and
// for concrete differential self tests). Only widths <= 64.
func (ts *TermStore) eval(t *Term, env map[string]uint64, memo map[*Term]uint64) uint64 {
	if v, ok := memo[t]; ok {
		return v
	}
	var r uint64
	switch t.op {
	case OpConst:
		r = t.val
	case OpVar:
		r = env[t.name] & mask(maxInt(t.w, 1))
	default:
		var av [3]uint64
		for i := 0; i < t.n; i++ {
			av[i] = ts.eval(t.a[i], env, memo)
		}
		b2u := func(b bool) uint64 {
			if b {
				return 1
			}
			return 0
		}
		switch t.op {
		case OpNot:
			r = 1 - av[0]
		case OpAnd:
			r = av[0] & av[1]
		case OpOr:
			r = av[0] | av[1]
		case OpIte:
			if av[0] == 1 {
				r = av[1]
			} else {
				r = av[2]
			}
		case OpEq:
			r = b2u(av[0] == av[1])
		case OpUlt:
			r = b2u(av[0] < av[1])
		case OpUle:
			r = b2u(av[0] <= av[1])
		case OpSlt:
			r = b2u(sext(av[0], t.a[0].w) < sext(av[1], t.a[0].w))
		case OpSle:
			r = b2u(sext(av[0], t.a[0].w) <= sext(av[1], t.a[0].w))
		case OpBNot:
			r = ^av[0] & mask(t.w)
		case OpNeg:
			r = -av[0] & mask(t.w)
		case OpConcat:
			r = av[0]<<uint(t.a[1].w) | av[1]
		case OpExtract:
			r = (av[0] >> uint(t.lo)) & mask(t.w)
		case OpZext:
			r = av[0]
		case OpSext:
			r = uint64(sext(av[0], t.a[0].w)) & mask(t.w)
		default:
			c := ts.Arith(t.op, ts.BV(t.w, av[0]), ts.BV(t.w, av[1]))
			r = c.val
		}
	}
	memo[t] = r
	return r
}

func maxInt(a, b int) int {
	if a > b {
		return a
	}
	return b
}

type bitField struct {
	lo int
	t  *Term
}

// fields decomposes t into non-overlapping pieces placed at bit offsets (all other bits zero).
func (ts *TermStore) fields(t *Term, depth int) ([]bitField, bool) {
	if depth > 12 {
		return nil, false
	}
	switch t.op {
	case OpConst:
		if t.val == 0 {
			return nil, true
		}
		return []bitField{{0, t}}, true
	case OpZext:
		return ts.fields(t.a[0], depth+1)
	case OpConcat:
		lo, ok1 := ts.fields(t.a[1], depth+1)
		hi, ok2 := ts.fields(t.a[0], depth+1)
		if !ok1 || !ok2 {
			return nil, false
		}
		out := append([]bitField(nil), lo...)
		for _, f := range hi {
			out = append(out, bitField{f.lo + t.a[1].w, f.t})
		}
		return out, true
	case OpBOr:
		a, ok1 := ts.fields(t.a[0], depth+1)
		b, ok2 := ts.fields(t.a[1], depth+1)
		if !ok1 || !ok2 {
			return nil, false
		}
		return append(a, b...), true
	}
	return []bitField{{0, t}}, true
}

// joinFields builds the concatenation of disjoint fields (nil if they overlap or exceed w).
func (ts *TermStore) joinFields(w int, fs []bitField) *Term {
	if len(fs) == 0 {
		return ts.BV(w, 0)
	}
	// insertion sort by lo
	for i := 1; i < len(fs); i++ {
		for j := i; j > 0 && fs[j].lo < fs[j-1].lo; j-- {
			fs[j], fs[j-1] = fs[j-1], fs[j]
		}
	}
	pos := 0
	var acc *Term
	add := func(t *Term) {
		if acc == nil {
			acc = t
		} else {
			acc = ts.Concat(t, acc)
		}
	}
	for _, f := range fs {
		if f.lo < pos || f.lo+f.t.w > w {
			return nil
		}
		if f.lo > pos {
			add(ts.BV(f.lo-pos, 0))
		}
		add(f.t)
		pos = f.lo + f.t.w
	}
	if pos < w {
		if acc.w+(w-pos) > 64 && false {
			return nil
		}
		add(ts.BV(w-pos, 0))
	}
	if acc.w != w {
		return nil
	}
	return acc
}
