package main

// Path exploration: stateless DFS over decision vectors, obligations, results.

import (
	"fmt"
	"os"
	"runtime"
	"runtime/debug"
	"sort"
	"strconv"
	"sync"
	"sync/atomic"
	"time"

	"golang.org/x/tools/go/ssa"
)

type decision struct {
	Val       uint64
	Kind      byte // 'b' branch taken as Val (1/0), 'i' implied branch, 'c' choice, 'e' concretize == Val, 'n' concretize != Val
	Unchecked bool
}

// pnode is one decision of a path prefix; prefixes share their common part (a pending
// alternative costs one node, not a copy of the whole prefix).
type pnode struct {
	parent *pnode
	d      decision
	depth  int
}

func (n *pnode) materialise() ([]decision, []*pnode) {
	if n == nil {
		return nil, []*pnode{nil}
	}
	ds := make([]decision, n.depth)
	ns := make([]*pnode, n.depth+1)
	for c := n; c != nil; c = c.parent {
		ds[c.depth-1] = c.d
		ns[c.depth] = c
	}
	return ds, ns
}

type pathRun struct {
	prefix []decision
	nodes  []*pnode // nodes[i] represents prefix[:i]
	pos    int
	alts   []*pnode
	nDec   int
}

func (r *pathRun) next() (decision, bool) {
	if r.pos < len(r.prefix) {
		d := r.prefix[r.pos]
		r.pos++
		return d, true
	}
	return decision{}, false
}

func (r *pathRun) record(d decision) {
	r.prefix = append(r.prefix, d)
	r.nodes = append(r.nodes, &pnode{parent: r.nodes[r.pos], d: d, depth: r.pos + 1})
	r.pos++
}

// alt registers the alternative d for the decision about to be taken (callers invoke alt before record).
func (r *pathRun) alt(d decision) {
	r.alts = append(r.alts, &pnode{parent: r.nodes[r.pos], d: d, depth: r.pos + 1})
}

func (in *Interp) countDecision() {
	if !in.deadline.IsZero() && in.run.nDec%8 == 0 && time.Now().After(in.deadline) {
		panic(pathEnd{"bound", "wall-clock budget exhausted inside a path"})
	}
	in.run.nDec++
	if in.run.nDec > in.cfg.MaxDecisions {
		panic(pathEnd{"bound", fmt.Sprintf("more than %d symbolic decisions on one path (unwinding bound)", in.cfg.MaxDecisions)})
	}
}

// branch decides a symbolic condition, forking when both sides are feasible.
func (in *Interp) branch(c *Term) bool {
	if c.IsTrue() {
		return true
	}
	if c.IsFalse() {
		return false
	}
	in.countDecision()
	r := in.run
	if d, ok := r.next(); ok {
		taken := d.Val == 1
		if d.Kind == 'i' {
			return taken
		}
		cond := c
		if !taken {
			cond = in.ts.Not(c)
		}
		if d.Unchecked {
			res, _ := in.ctx.Check(cond, in.ctx.branchTO, nil)
			if res == Unsat {
				panic(pathEnd{"infeasible", ""})
			}
			if res == Unknown {
				in.res().noteUnknownBranch()
			}
		}
		in.ctx.AddPC(cond)
		return taken
	}
	r1, _ := in.ctx.Check(c, in.ctx.branchTO, nil)
	if r1 == Unsat {
		r.record(decision{Val: 0, Kind: 'i'})
		return false
	}
	nc := in.ts.Not(c)
	r2, _ := in.ctx.Check(nc, in.ctx.branchTO, nil)
	if r2 == Unsat {
		r.record(decision{Val: 1, Kind: 'i'})
		return true
	}
	if r1 == Unknown || r2 == Unknown {
		in.res().noteUnknownBranch()
	}
	r.alt(decision{Val: 0, Kind: 'b'})
	r.record(decision{Val: 1, Kind: 'b'})
	in.ctx.AddPC(c)
	return true
}

// choose makes an n-way nondeterministic choice that needs no solver.
func (in *Interp) choose(n int, what string) int {
	if n <= 1 {
		return 0
	}
	in.countDecision()
	r := in.run
	if d, ok := r.next(); ok {
		return int(d.Val)
	}
	for j := n - 1; j >= 1; j-- {
		r.alt(decision{Val: uint64(j), Kind: 'c'})
	}
	r.record(decision{Val: 0, Kind: 'c'})
	return 0
}

// concretize enumerates the feasible values of t (64-bit), one path per value.
func (in *Interp) concretize(t *Term, what string) uint64 {
	if t.IsConst() {
		return t.val
	}
	r := in.run
	for n := 0; ; n++ {
		if n > in.cfg.MaxConcretize {
			panic(pathEnd{"bound", fmt.Sprintf("more than %d feasible values for %s (term %.200s)", in.cfg.MaxConcretize, what, t.String())})
		}
		in.countDecision()
		if d, ok := r.next(); ok {
			v := in.ts.BV(t.w, d.Val)
			if d.Kind == 'e' {
				in.ctx.AddPC(in.ts.Eq(t, v))
				return d.Val
			}
			ne := in.ts.Ne(t, v)
			if d.Unchecked {
				res, _ := in.ctx.Check(ne, in.ctx.branchTO, nil)
				if res == Unsat {
					panic(pathEnd{"infeasible", ""})
				}
			}
			in.ctx.AddPC(ne)
			continue
		}
		res, vals := in.ctx.Check(nil, in.ctx.branchTO, []*Term{t})
		if res == Unsat {
			panic(pathEnd{"infeasible", ""})
		}
		if res == Unknown {
			panic(pathEnd{"unknown", "solver could not produce a value for " + what})
		}
		u, _, ok := parseBVValue(vals[t])
		if !ok {
			panic(pathEnd{"unknown", "unparsable model value " + vals[t]})
		}
		if d := os.Getenv("GOSYM_DUMP"); d != "" && n >= 2 {
			os.WriteFile(fmt.Sprintf("%s/conc_%d.smt2", d, n), []byte(in.ctx.Dump(nil)+fmt.Sprintf("; want %s\n", t.ref())), 0o644)
		}
		if os.Getenv("GOSYM_DEBUG") != "" {
			fmt.Fprintf(os.Stderr, "concretize %s: value %d (model %q) after %d exclusions\n", what, u, vals[t], n)
		}
		r.alt(decision{Val: u, Kind: 'n', Unchecked: true})
		r.record(decision{Val: u, Kind: 'e'})
		in.ctx.AddPC(in.ts.Eq(t, in.ts.BV(t.w, u)))
		return u
	}
}

// ---- results ----

type Obligation struct {
	Label      string  `json:"label"`
	Pos        string  `json:"pos"`
	Reached    int     `json:"reached"`
	Trivial    int     `json:"trivially_true"`
	Discharged int     `json:"discharged_unsat"`
	Violated   int     `json:"violated_sat"`
	Unknown    int     `json:"unknown"`
	SolverS    float64 `json:"solver_s"`
}

type Violation struct {
	Harness string       `json:"harness"`
	Kind    string       `json:"kind"` // assert | panic | fail
	Label   string       `json:"label"`
	Pos     string       `json:"pos"`
	Msg     string       `json:"msg"`
	Tape    []*TapeEntry `json:"tape"`
	Known   string       `json:"known,omitempty"`
	Sched   []string     `json:"sched,omitempty"`    // vSched tags in the order the counterexample schedule passed them
	Switch  []string     `json:"switches,omitempty"` // goroutine switches of the counterexample schedule
}

type HarnessResult struct {
	mu          sync.Mutex
	Name        string
	Paths       int
	Steps       int64
	Decisions   int
	Ends        map[string]int
	Obls        map[string]*Obligation
	Reach       map[string]int
	Violations  []*Violation
	Incomplete  []string
	UnknownBr   int
	Queries     map[string]int
	SolverS     float64
	WallS       float64
	SolverErrs  int
	Disagree    []string
	KnownHits   map[string]int
	SamplePaths []string
	MaxAlloc    int
	ByDesign    map[string]int
}

func newHarnessResult(name string) *HarnessResult {
	return &HarnessResult{Name: name, Ends: map[string]int{}, Obls: map[string]*Obligation{}, Reach: map[string]int{},
		Queries: map[string]int{}, KnownHits: map[string]int{}, ByDesign: map[string]int{}}
}

func (in *Interp) res() *HarnessResult { return in.result }

func (h *HarnessResult) noteUnknownBranch() {
	h.mu.Lock()
	h.UnknownBr++
	h.mu.Unlock()
}

func (h *HarnessResult) obl(label, pos string) *Obligation {
	k := label + "@" + pos
	o := h.Obls[k]
	if o == nil {
		o = &Obligation{Label: label, Pos: pos}
		h.Obls[k] = o
	}
	return o
}

func (h *HarnessResult) incomplete(msg string) {
	h.mu.Lock()
	defer h.mu.Unlock()
	for _, m := range h.Incomplete {
		if m == msg {
			return
		}
	}
	if len(h.Incomplete) < 50 {
		h.Incomplete = append(h.Incomplete, msg)
	}
}

// checkObligation decides an assertion under the current path condition.
func (in *Interp) checkObligation(kind, label string, c *Term, msg string) {
	h := in.res()
	pos := in.curFrame.pos()
	h.mu.Lock()
	o := h.obl(label, pos)
	o.Reached++
	h.mu.Unlock()
	if c.IsTrue() {
		h.mu.Lock()
		o.Trivial++
		h.mu.Unlock()
		return
	}
	want := in.tapeTerms()
	tq := time.Now()
	r, vals := in.ctx.Check(in.ts.Not(c), in.ctx.assertTO, want)
	h.mu.Lock()
	o.SolverS += time.Since(tq).Seconds()
	h.mu.Unlock()
	switch r {
	case Unsat:
		h.mu.Lock()
		o.Discharged++
		h.mu.Unlock()
	case Unknown:
		h.mu.Lock()
		o.Unknown++
		h.mu.Unlock()
		h.incomplete(fmt.Sprintf("solver answered unknown for obligation %q at %s", label, pos))
	case Sat:
		v := &Violation{Harness: h.Name, Kind: kind, Label: label, Pos: pos, Msg: msg, Tape: in.fillTape(vals),
			Sched: append([]string(nil), in.sch.log...), Switch: append([]string(nil), in.sch.switches...)}
		h.mu.Lock()
		o.Violated++
		if len(h.Violations) < 200 {
			h.Violations = append(h.Violations, v)
		}
		h.mu.Unlock()
	}
	if c.IsFalse() {
		panic(pathEnd{"stop", "assertion false on every input of this path"})
	}
	if r == Unsat {
		return // implied by the path condition: adding it would only burden later queries
	}
	if r == Sat {
		rr, _ := in.ctx.Check(c, in.ctx.branchTO, nil)
		if rr == Unsat {
			panic(pathEnd{"stop", "assertion fails on the whole path"})
		}
	}
	in.ctx.AddPC(c)
}

func (in *Interp) tapeTerms() []*Term {
	var out []*Term
	seen := map[*Term]bool{}
	for _, e := range in.tape {
		if e.term != nil && !e.term.IsConst() && !seen[e.term] {
			seen[e.term] = true
			out = append(out, e.term)
		}
	}
	return out
}

func (in *Interp) fillTape(vals map[*Term]string) []*TapeEntry {
	out := make([]*TapeEntry, len(in.tape))
	for i, e := range in.tape {
		c := *e
		if e.term == nil || e.term.IsConst() {
			v := e.cval
			if e.term != nil {
				v = e.term.val
			}
			c.Val = fmt.Sprint(v)
		} else if s, ok := vals[e.term]; ok {
			u, _, _ := parseBVValue(s)
			c.Val = fmt.Sprint(u)
		} else {
			c.Val = "0"
		}
		c.term = nil
		out[i] = &c
	}
	return out
}

// recordPanicViolation handles a Go panic escaping the harness.
func (in *Interp) recordPanicViolation(gp goPanic) {
	h := in.res()
	msg := in.panicMessage(gp.v)
	pos := in.lastPanicPos
	label := "no-panic"
	want := in.tapeTerms()
	r, vals := in.ctx.Check(nil, in.ctx.assertTO, want)
	h.mu.Lock()
	defer h.mu.Unlock()
	o := h.obl(label, pos)
	o.Reached++
	switch r {
	case Sat:
		o.Violated++
		if len(h.Violations) < 200 {
			h.Violations = append(h.Violations, &Violation{Harness: h.Name, Kind: "panic", Label: label, Pos: pos, Msg: msg, Tape: in.fillTape(vals),
				Sched: append([]string(nil), in.sch.log...), Switch: append([]string(nil), in.sch.switches...)})
		}
	case Unsat:
		// path was infeasible after all (possible after unknown branch answers)
	default:
		o.Unknown++
		if len(h.Incomplete) < 50 {
			h.Incomplete = append(h.Incomplete, "solver unknown on a panicking path at "+pos)
		}
	}
}

func (in *Interp) panicMessage(v value) string {
	switch v := v.(type) {
	case iface:
		if v.t == nil {
			return "panic(nil)"
		}
		if s, ok := v.v.(string); ok {
			return s
		}
		return "panic(" + v.t.String() + ": " + showValue(v.v) + ")"
	}
	return showValue(v)
}

// ---- the explorer ----

// memory watchdog: exploration stops (INCONCLUSIVE) instead of driving the machine out of memory
var (
	memExceeded atomic.Bool
	memLimitMiB = 16384
)

func startMemWatchdog() {
	if v, err := strconv.Atoi(os.Getenv("GOSYM_MEMLIMIT_MIB")); err == nil && v > 0 {
		memLimitMiB = v
	}
	// the collector gets aggressive at 3/4 of the budget (GOGC is set high for throughput)
	debug.SetMemoryLimit(int64(memLimitMiB) << 20 / 4 * 3)
	go func() {
		var ms runtime.MemStats
		for {
			time.Sleep(500 * time.Millisecond)
			runtime.ReadMemStats(&ms)
			if ms.HeapAlloc>>20 > uint64(memLimitMiB) {
				runtime.GC()
				runtime.ReadMemStats(&ms)
				if ms.HeapAlloc>>20 > uint64(memLimitMiB)/4*3 {
					memExceeded.Store(true)
					return
				}
			}
		}
	}()
}

type HarnessCfg struct {
	Name          string
	Entry         *ssa.Function
	Property      string
	MaxPaths      int
	MaxSteps      int64
	MaxDecisions  int
	MaxConcretize int
	MaxDepth      int
	MaxAlloc      int
	PermuteMaps   int
	Workers       int
	BranchTO      time.Duration
	AssertTO      time.Duration
	CrossEach     int
	Tier          string
	Expect        map[string]string // known finding ids declared by the harness
	MaxWall       time.Duration
	Sched         bool
	Race          bool
	MaxPreempt    int
	MaxGoroutines int
}

type Explorer struct {
	P     *Program
	cfg   *HarnessCfg
	res   *HarnessResult
	mu    sync.Mutex
	stack []*pnode
	busy  int
	cond  *sync.Cond
	stop  bool
	t0    time.Time
	sem   chan struct{} // global cap on concurrently running paths
}

func (ex *Explorer) pop() (*pnode, bool) {
	ex.mu.Lock()
	defer ex.mu.Unlock()
	for {
		if ex.stop {
			return nil, false
		}
		if n := len(ex.stack); n > 0 {
			p := ex.stack[n-1]
			ex.stack = ex.stack[:n-1]
			ex.busy++
			return p, true
		}
		if ex.busy == 0 {
			ex.cond.Broadcast()
			return nil, false
		}
		ex.cond.Wait()
	}
}

func (ex *Explorer) done(alts []*pnode) {
	ex.mu.Lock()
	// push in reverse so that the first alternative is explored first
	for i := len(alts) - 1; i >= 0; i-- {
		ex.stack = append(ex.stack, alts[i])
	}
	ex.busy--
	ex.mu.Unlock()
	ex.cond.Broadcast()
}

func (ex *Explorer) Run() *HarnessResult {
	t0 := time.Now()
	ex.t0 = t0
	ex.cond = sync.NewCond(&ex.mu)
	ex.stack = []*pnode{nil}
	var wg sync.WaitGroup
	nw := ex.cfg.Workers
	if nw < 1 {
		nw = 1
	}
	for w := 0; w < nw; w++ {
		wg.Add(1)
		go func() {
			defer wg.Done()
			ex.worker()
		}()
	}
	wg.Wait()
	ex.res.WallS = time.Since(t0).Seconds()
	return ex.res
}

func (ex *Explorer) worker() {
	ts := NewTermStore()
	ctx := NewCtx(ts)
	ctx.branchTO = ex.cfg.BranchTO
	ctx.assertTO = ex.cfg.AssertTO
	ctx.crossEach = ex.cfg.CrossEach
	defer func() {
		ctx.Close()
		ex.res.mu.Lock()
		for k, v := range ctx.stats.Queries {
			ex.res.Queries[k] += v
		}
		ex.res.SolverS += ctx.stats.SolverS
		ex.res.SolverErrs += ctx.stats.Errors
		ex.res.Disagree = append(ex.res.Disagree, ctx.Disagree...)
		ex.res.mu.Unlock()
	}()
	npaths := 0
	for {
		prefix, ok := ex.pop()
		if !ok {
			return
		}
		if ex.cfg.MaxWall > 0 && time.Since(ex.t0) > ex.cfg.MaxWall {
			ex.res.incomplete(fmt.Sprintf("bound: wall-clock budget of %s exhausted with unexplored paths", ex.cfg.MaxWall))
			ex.mu.Lock()
			ex.stop = true
			ex.busy--
			ex.mu.Unlock()
			ex.cond.Broadcast()
			return
		}
		if memExceeded.Load() {
			ex.res.incomplete(fmt.Sprintf("bound: memory budget of %d MiB exhausted with unexplored paths", memLimitMiB))
			ex.mu.Lock()
			ex.stop = true
			ex.busy--
			ex.mu.Unlock()
			ex.cond.Broadcast()
			return
		}
		if len(ts.all) > 3_000_000 {
			// keep memory bounded: fresh term store and solver
			ctx.Close()
			ex.res.mu.Lock()
			for k, v := range ctx.stats.Queries {
				ex.res.Queries[k] += v
			}
			ex.res.SolverS += ctx.stats.SolverS
			ex.res.mu.Unlock()
			ts = NewTermStore()
			nc := NewCtx(ts)
			nc.branchTO, nc.assertTO, nc.crossEach = ctx.branchTO, ctx.assertTO, ctx.crossEach
			ctx = nc
		}
		if ex.sem != nil {
			ex.sem <- struct{}{}
		}
		alts := ex.runPath(ts, ctx, prefix)
		if ex.sem != nil {
			<-ex.sem
		}
		npaths++
		ex.res.mu.Lock()
		ex.res.Paths++
		over := ex.res.Paths >= ex.cfg.MaxPaths
		ex.res.mu.Unlock()
		if over && (len(alts) > 0 || len(ex.stack) > 0) {
			ex.res.incomplete(fmt.Sprintf("path budget of %d exhausted with unexplored alternatives", ex.cfg.MaxPaths))
			ex.mu.Lock()
			ex.stop = true
			ex.busy--
			ex.mu.Unlock()
			ex.cond.Broadcast()
			return
		}
		ex.done(alts)
	}
}

func (ex *Explorer) runPath(ts *TermStore, ctx *Ctx, start *pnode) (alts []*pnode) {
	ctx.ResetPath()
	prefix, nodes := start.materialise()
	run := &pathRun{prefix: prefix, nodes: nodes}
	in := &Interp{P: ex.P, ts: ts, ctx: ctx, run: run, cfg: ex.cfg, result: ex.res,
		globals: map[*ssa.Global]*value{}, pkgInit: map[*ssa.Package]int{},
		maxSteps: ex.cfg.MaxSteps, maxDepth: ex.cfg.MaxDepth, ghost: map[string]value{}, jsonToks: map[string]value{}, funcsSeen: map[*ssa.Function]bool{}}
	if ex.cfg.MaxWall > 0 {
		in.deadline = ex.t0.Add(ex.cfg.MaxWall + 30*time.Second)
	}
	end := "done"
	if ex.cfg.Sched {
		in.initSched()
	}
	defer func() {
		r := recover()
		func() {
			defer func() { recover() }()
			in.killAll()
		}()
		if cp, ok := r.(childPanic); ok {
			in.lastPanicPos = cp.pos
			r = cp.gp
		}
		if r != nil {
			switch r := r.(type) {
			case pathEnd:
				end = r.kind
				switch r.kind {
				case "unsupported":
					ex.res.incomplete("unsupported: " + r.msg)
				case "bound":
					ex.res.incomplete("bound: " + r.msg)
				case "unknown":
					ex.res.incomplete("solver: " + r.msg)
				}
			case goPanic:
				end = "panic"
				func() {
					defer func() {
						if rr := recover(); rr != nil {
							ex.res.incomplete(fmt.Sprintf("engine panic while recording a panic: %v", rr))
						}
					}()
					in.recordPanicViolation(r)
				}()
			case engineError:
				end = "engine-error"
				ex.res.incomplete("engine error: " + r.msg)
			default:
				end = "engine-panic"
				ex.res.incomplete(fmt.Sprintf("engine panic: %v at %s\n%s", r, in.where(), trimStack(debug.Stack())))
			}
		}
		ex.P.mu.Lock()
		for f := range in.funcsSeen {
			ex.P.funcsUsed[f] = true
		}
		ex.P.mu.Unlock()
		ex.P.mergeNotes(in.models, in.assumes)
		ex.res.mu.Lock()
		ex.res.Ends[end]++
		ex.res.Steps += in.steps
		ex.res.Decisions += run.nDec
		if a, ok := in.ghost["maxalloc"].(int); ok && a > ex.res.MaxAlloc {
			ex.res.MaxAlloc = a
		}
		if len(ex.res.SamplePaths) < 5 && end == "done" {
			ex.res.SamplePaths = append(ex.res.SamplePaths, in.describePath())
		}
		ex.res.mu.Unlock()
		alts = run.alts
	}()
	in.callFunction(nil, ex.cfg.Entry, nil, nil)
	return
}

func trimStack(b []byte) string {
	s := string(b)
	if len(s) > 3000 {
		s = s[:3000]
	}
	return s
}

func (in *Interp) describePath() string {
	s := fmt.Sprintf("decisions=%d steps=%d pc=%d tape=[", in.run.nDec, in.steps, len(in.ctx.pc))
	for i, e := range in.tape {
		if i >= 12 {
			s += "…"
			break
		}
		if e.term != nil && !e.term.IsConst() {
			s += e.Name + ":sym "
		} else {
			s += fmt.Sprintf("%s=%d ", e.Name, e.cval)
		}
	}
	return s + "]"
}

func sortedKeys[V any](m map[string]V) []string {
	ks := make([]string, 0, len(m))
	for k := range m {
		ks = append(ks, k)
	}
	sort.Strings(ks)
	return ks
}
