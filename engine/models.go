package main

// Library models with state: hash functions (uninterpreted, injective), clocks, timers.

import (
	"crypto/md5"
	"crypto/sha1"
	"crypto/sha256"
	"crypto/sha512"
	"fmt"
	"go/types"

	"golang.org/x/tools/go/ssa"
)

type hashAlgo struct {
	name string
	size int
	sum  func([]byte) []byte
}

var hashAlgos = map[string]*hashAlgo{
	"sha256": {"sha256", 32, func(b []byte) []byte { h := sha256.Sum256(b); return h[:] }},
	"sha224": {"sha224", 28, func(b []byte) []byte { h := sha256.Sum224(b); return h[:] }},
	"sha512": {"sha512", 64, func(b []byte) []byte { h := sha512.Sum512(b); return h[:] }},
	"sha384": {"sha384", 48, func(b []byte) []byte { h := sha512.Sum384(b); return h[:] }},
	"sha1":   {"sha1", 20, func(b []byte) []byte { h := sha1.Sum(b); return h[:] }},
	"md5":    {"md5", 16, func(b []byte) []byte { h := md5.Sum(b); return h[:] }},
}

type hashRec struct {
	algo string
	in   []*Term
	out  []*Term
}

// hashApply models H(input): the real digest for concrete input; otherwise fresh output bytes
// constrained to be a function of the input and injective (equal digests <=> equal inputs).
func (in *Interp) hashApply(algo string, input []*Term) []*Term {
	a := hashAlgos[algo]
	ts := in.ts
	allConst := true
	for _, t := range input {
		if !t.IsConst() {
			allConst = false
			break
		}
	}
	var out []*Term
	if allConst {
		b := make([]byte, len(input))
		for i, t := range input {
			b[i] = byte(t.val)
		}
		for _, x := range a.sum(b) {
			out = append(out, ts.BV(8, uint64(x)))
		}
	} else {
		in.noteModelName("hash functions = uninterpreted injective functions (equal inputs <=> equal digests)")
		for i := 0; i < a.size; i++ {
			out = append(out, in.fresh(fmt.Sprintf("%s.out%d", algo, i), 8))
		}
	}
	recs, _ := in.ghost["hashrecs"].([]*hashRec)
	if !allConst {
		for _, r := range recs {
			if r.algo != algo {
				continue
			}
			outEq := ts.True
			for i := range out {
				outEq = ts.And(outEq, ts.Eq(out[i], r.out[i]))
			}
			if len(r.in) != len(input) {
				in.ctx.AddPC(ts.Not(outEq))
				continue
			}
			inEq := ts.True
			for i := range input {
				inEq = ts.And(inEq, ts.Eq(input[i], r.in[i]))
			}
			in.ctx.AddPC(ts.Eq(outEq, inEq))
		}
	}
	recs = append(recs, &hashRec{algo: algo, in: append([]*Term(nil), input...), out: out})
	in.ghost["hashrecs"] = recs
	return out
}

func (in *Interp) hashArray(algo string, data value) value {
	out := in.hashApply(algo, bytesOfSlice(data))
	arr := make(array, len(out))
	for i, t := range out {
		arr[i] = t
	}
	return arr
}

func regDigest(pkg, algo string) {
	key := func(p value) string { return fmt.Sprintf("digest:%p", p.(*value)) }
	reg("(*"+pkg+".digest).Write", func(fr *frame, fn *ssa.Function, args []value) value {
		in := fr.in
		k := key(args[0])
		acc, _ := in.ghost[k].([]*Term)
		data, _ := args[1].([]value)
		acc = append(acc, bytesOfSlice(data)...)
		in.ghost[k] = acc
		return tuple{in.ts.BV(64, uint64(len(data))), iface{}}
	})
	reg("(*"+pkg+".digest).Sum", func(fr *frame, fn *ssa.Function, args []value) value {
		in := fr.in
		acc, _ := in.ghost[key(args[0])].([]*Term)
		a := algo
		// sha256.digest has is224, sha512.digest has function field; distinguish by Size()
		if pkg == "crypto/sha256" || pkg == "crypto/sha512" {
			st := (*args[0].(*value)).(structure)
			a = digestVariant(pkg, fn, st)
		}
		out := in.hashApply(a, acc)
		prefix, _ := args[1].([]value)
		res := append(append([]value(nil), prefix...), termSlice(out)...)
		return res
	})
	reg("(*"+pkg+".digest).Reset", func(fr *frame, fn *ssa.Function, args []value) value {
		delete(fr.in.ghost, key(args[0]))
		return nil
	})
}

// digestVariant picks the algorithm variant from the digest struct (is224 / function field).
func digestVariant(pkg string, fn *ssa.Function, st structure) string {
	rt := deref(fn.Signature.Recv().Type())
	s := under(rt).(*types.Struct)
	for i := 0; i < s.NumFields(); i++ {
		switch s.Field(i).Name() {
		case "is224":
			if t, ok := st[i].(*Term); ok && t.IsTrue() {
				return "sha224"
			}
			return "sha256"
		case "function":
			if t, ok := st[i].(*Term); ok && t.IsConst() {
				switch t.val {
				case 6: // crypto.SHA384
					return "sha384"
				case 7:
					return "sha512"
				}
				panic(unsupported("sha512 variant"))
			}
		}
	}
	if pkg == "crypto/sha256" {
		return "sha256"
	}
	return "sha512"
}

func init() {
	reg("crypto/sha256.Sum256", func(fr *frame, fn *ssa.Function, args []value) value {
		return fr.in.hashArray("sha256", args[0])
	})
	reg("crypto/sha256.Sum224", func(fr *frame, fn *ssa.Function, args []value) value {
		return fr.in.hashArray("sha224", args[0])
	})
	reg("crypto/sha512.Sum512", func(fr *frame, fn *ssa.Function, args []value) value {
		return fr.in.hashArray("sha512", args[0])
	})
	reg("crypto/sha512.Sum384", func(fr *frame, fn *ssa.Function, args []value) value {
		return fr.in.hashArray("sha384", args[0])
	})
	reg("crypto/sha1.Sum", func(fr *frame, fn *ssa.Function, args []value) value {
		return fr.in.hashArray("sha1", args[0])
	})
	reg("crypto/md5.Sum", func(fr *frame, fn *ssa.Function, args []value) value {
		return fr.in.hashArray("md5", args[0])
	})
	regDigest("crypto/sha256", "sha256")
	regDigest("crypto/sha512", "sha512")
	regDigest("crypto/sha1", "sha1")
	regDigest("crypto/md5", "md5")
	reg("(crypto.Hash).New", func(fr *frame, fn *ssa.Function, args []value) value {
		in := fr.in
		h := args[0].(*Term)
		if !h.IsConst() {
			// fork over the feasible identifiers (a table lookup instead of a switch leaves it symbolic)
			h64 := h
			if h.w < 64 {
				h64 = in.ts.Zext(h, 64)
			}
			h = in.ts.BV(h.w, in.concretize(h64, "crypto.Hash id"))
		}
		var pkg, ctor string
		switch h.val {
		case 2:
			pkg, ctor = "crypto/md5", "New"
		case 3:
			pkg, ctor = "crypto/sha1", "New"
		case 4:
			pkg, ctor = "crypto/sha256", "New224"
		case 5:
			pkg, ctor = "crypto/sha256", "New"
		case 6:
			pkg, ctor = "crypto/sha512", "New384"
		case 7:
			pkg, ctor = "crypto/sha512", "New"
		default:
			panic(goPanic{iface{t: types.Typ[types.String], v: fmt.Sprintf("crypto: requested hash function #%d is unavailable", h.val)}})
		}
		p := in.P.prog.ImportedPackage(pkg)
		if p == nil {
			panic(unsupported("hash package not in program: " + pkg))
		}
		return in.callFunction(fr, p.Func(ctor), nil, nil)
	})
	reg("(crypto.Hash).Available", func(fr *frame, fn *ssa.Function, args []value) value {
		in := fr.in
		h := args[0].(*Term)
		ok := in.ts.False
		for _, v := range []uint64{2, 3, 4, 5, 6, 7} {
			ok = in.ts.Or(ok, in.ts.Eq(h, in.ts.BV(h.w, v)))
		}
		return ok
	})
	// timers never fire unless a harness drives them (no concurrency semantics)
	reg("time.After", func(fr *frame, fn *ssa.Function, args []value) value {
		fr.in.noteAssumption("virtual time: time.After/NewTimer channels are ready immediately (the requested duration is observable only through stubs)")
		return &hchan{cap: 1, timer: true, buf: []value{fr.in.zero(fn.Signature.Results().At(0).Type().Underlying().(*types.Chan).Elem())}}
	})
	reg("time.NewTimer", func(fr *frame, fn *ssa.Function, args []value) value {
		in := fr.in
		tt := deref(fn.Signature.Results().At(0).Type())
		p := new(value)
		st := in.zero(tt).(structure)
		fr.in.noteAssumption("virtual time: time.After/NewTimer channels are ready immediately (the requested duration is observable only through stubs)")
		ct := under(tt).(*types.Struct).Field(fieldIndex(tt, "C")).Type().Underlying().(*types.Chan).Elem()
		st[fieldIndex(tt, "C")] = &hchan{cap: 1, timer: true, buf: []value{fr.in.zero(ct)}}
		*p = st
		return p
	})
	reg("time.NewTicker", func(fr *frame, fn *ssa.Function, args []value) value {
		in := fr.in
		tt := deref(fn.Signature.Results().At(0).Type())
		p := new(value)
		st := in.zero(tt).(structure)
		in.noteAssumption("virtual time: a time.Ticker never ticks (periodic reporting / polling loops wait on their other channels)")
		st[fieldIndex(tt, "C")] = &hchan{never: true}
		*p = st
		return p
	})
	reg("(*time.Ticker).Stop", func(fr *frame, fn *ssa.Function, args []value) value { return nil })
	reg("(*time.Ticker).Reset", func(fr *frame, fn *ssa.Function, args []value) value { return nil })
	reg("(*time.Timer).Stop", func(fr *frame, fn *ssa.Function, args []value) value { return fr.in.ts.True })
	reg("(*time.Timer).Reset", func(fr *frame, fn *ssa.Function, args []value) value { return fr.in.ts.True })
	reg("time.AfterFunc", func(fr *frame, fn *ssa.Function, args []value) value {
		in := fr.in
		tt := deref(fn.Signature.Results().At(0).Type())
		p := new(value)
		*p = in.zero(tt)
		return p
	})
}

// ---- JSON codec tokens, protobuf leaves ----

func (in *Interp) readAllFrom(fr *frame, r value) value {
	iop := in.P.prog.ImportedPackage("io")
	if iop == nil {
		panic(unsupported("package io not in program"))
	}
	res := in.callFunction(fr, iop.Func("ReadAll"), []value{r}, nil).(tuple)
	return res[0]
}

func init() {
	reg("encoding/json.Marshal", func(fr *frame, fn *ssa.Function, args []value) value {
		fr.in.noteModelName("encoding/json = codec tokens: Marshal(x) = tok(x), Unmarshal(tok(x)) = x, any other body is a syntax error")
		return tuple{fr.in.jsonToken(args[0]), iface{}}
	})
	reg("encoding/json.MarshalIndent", func(fr *frame, fn *ssa.Function, args []value) value {
		return tuple{fr.in.jsonToken(args[0]), iface{}}
	})
	reg("encoding/json.Unmarshal", func(fr *frame, fn *ssa.Function, args []value) value {
		return fr.in.jsonDecode(args[0], args[1])
	})
	reg("(*encoding/json.Encoder).Encode", func(fr *frame, fn *ssa.Function, args []value) value {
		in := fr.in
		enc := (*args[0].(*value)).(structure)
		et := deref(fn.Signature.Recv().Type())
		w := enc[fieldIndex(et, "w")].(iface)
		tok := in.jsonToken(args[1])
		wm := in.lookupMethodByName(w.t, "Write")
		res := in.callValue(fr, wm, []value{w.v, tok}, nil).(tuple)
		return res[1]
	})
	reg("(*encoding/json.Decoder).Decode", func(fr *frame, fn *ssa.Function, args []value) value {
		in := fr.in
		dec := (*args[0].(*value)).(structure)
		dt := deref(fn.Signature.Recv().Type())
		r := dec[fieldIndex(dt, "r")]
		data := in.readAllFrom(fr, r)
		return in.jsonDecode(data, args[1])
	})
	reg("google.golang.org/protobuf/encoding/prototext.Format", func(fr *frame, fn *ssa.Function, args []value) value {
		return "‹proto›"
	})
	reg("(google.golang.org/protobuf/encoding/prototext.MarshalOptions).Format", func(fr *frame, fn *ssa.Function, args []value) value {
		return "‹proto›"
	})
	reg("google.golang.org/protobuf/proto.Clone", func(fr *frame, fn *ssa.Function, args []value) value {
		return deepCopy(args[0])
	})
	reg("time.now", func(fr *frame, fn *ssa.Function, args []value) value {
		in := fr.in
		in.noteAssumption("unstubbed wall-clock reads (time.Now) return the constant instant 2023-11-14T22:13:20Z")
		in.timeSeq++
		return tuple{in.ts.BV(64, 1700000000), in.ts.BV(32, 0), in.ts.BV(64, uint64(2000+in.timeSeq))}
	})
}

func (in *Interp) lookupMethodByName(t types.Type, name string) value {
	if bi := in.P.engineMethod(t, name); bi != nil {
		return bi
	}
	ms := in.P.prog.MethodSets.MethodSet(t)
	for i := 0; i < ms.Len(); i++ {
		if ms.At(i).Obj().Name() == name {
			return in.P.prog.MethodValue(ms.At(i))
		}
	}
	panic(unsupported("method " + name + " not found on " + t.String()))
}

func init() {
	// math/big assembly kernels have pure Go twins (<name>_g) in the same package
	for _, n := range []string{"addVV", "subVV", "addVW", "subVW", "shlVU", "shrVU", "mulAddVWW", "addMulVVW"} {
		n := n
		reg("math/big."+n, func(fr *frame, fn *ssa.Function, args []value) value {
			g := fn.Pkg.Func(n + "_g")
			if g == nil {
				panic(unsupported("math/big." + n + "_g not found"))
			}
			return fr.in.callFunction(fr, g, args, nil)
		})
	}
}

func init() {
	// ctxhttp.Do(ctx, client, req): the transport is the seam; redirects, cookies and the
	// connection machinery of net/http are outside the model.
	reg("golang.org/x/net/context/ctxhttp.Do", func(fr *frame, fn *ssa.Function, args []value) value {
		in := fr.in
		in.noteModelName("ctxhttp.Do(ctx, client, req) = client.Transport.RoundTrip(req), then ctx.Err() if the round trip failed and the context is done")
		ctx := args[0].(iface)
		cp, _ := args[1].(*value)
		if cp == nil {
			panic(unsupported("ctxhttp.Do with the default HTTP client"))
		}
		ct := deref(fn.Signature.Params().At(1).Type())
		tr := (*cp).(structure)[fieldIndex(ct, "Transport")].(iface)
		if tr.t == nil {
			panic(unsupported("ctxhttp.Do with the default transport"))
		}
		// req.WithContext(ctx): the request carries the context
		rp := args[2].(*value)
		rt := deref(fn.Signature.Params().At(2).Type())
		(*rp).(structure)[fieldIndex(rt, "ctx")] = ctx
		m := in.lookupMethodByName(tr.t, "RoundTrip")
		res := in.callValue(fr, m, []value{tr.v, rp}, nil).(tuple)
		if e, ok := res[1].(iface); ok && e.t != nil {
			cm := in.lookupMethodByName(ctx.t, "Err")
			cerr := in.callValue(fr, cm, []value{ctx.v}, nil).(iface)
			if cerr.t != nil {
				return tuple{in.zero(fn.Signature.Results().At(0).Type()), cerr}
			}
			return tuple{in.zero(fn.Signature.Results().At(0).Type()), e}
		}
		return tuple{res[0], iface{}}
	})
}

func init() {
	randIn := func(w int) intrinsicFn {
		return func(fr *frame, fn *ssa.Function, args []value) value {
			in := fr.in
			n := args[len(args)-1].(*Term)
			in.noteModelName("math/rand.Intn/Int63n = arbitrary value in [0, n)")
			v := in.fresh("rand", w)
			in.ctx.AddPC(in.ts.Cmp(OpUlt, v, n))
			return v
		}
	}
	for _, n := range []string{"math/rand.Float32", "math/rand.Float64", "math/rand/v2.Float32", "math/rand/v2.Float64"} {
		reg(n, func(fr *frame, fn *ssa.Function, args []value) value {
			fr.in.noteAssumption("math/rand.Float32/Float64 return 0 (one value of [0,1); weighted sampling then follows map iteration order)")
			return float64(0)
		})
	}
	reg("math/rand.Intn", randIn(64))
	reg("math/rand.Int63n", randIn(64))
	reg("math/rand.Int31n", randIn(32))
	reg("(*math/rand.Rand).Intn", randIn(64))
	reg("(*math/rand.Rand).Int63n", randIn(64))
	reg("math/rand/v2.IntN", randIn(64))
	reg("math/rand/v2.Int64N", randIn(64))
}

func init() {
	// the local time zone is UTC and no zone database is available (no file system)
	reg("time.initLocal", func(fr *frame, fn *ssa.Function, args []value) value {
		fr.in.noteAssumption("the local time zone is UTC; no time zone database is consulted")
		return nil
	})
	reg("time.loadLocation", func(fr *frame, fn *ssa.Function, args []value) value {
		return tuple{(*value)(nil), fr.in.opaqueError("unknown time zone (no zone database in the model)", nil)}
	})
}
