package main

// Per-worker solving context: path condition mirrored on an incremental solver, portfolio
// fall-back for hard arithmetic, model extraction.

import (
	"fmt"
	"os"
	"strings"
	"sync"
	"time"
)

type SolverStats struct {
	Queries  map[string]int // "<solver>/<result>"
	SolverS  float64
	Restarts int
	Errors   int
}

type Ctx struct {
	ts        *TermStore
	main      *SolverProc
	pc        []*Term
	stats     SolverStats
	branchTO  time.Duration
	assertTO  time.Duration
	crossEach int // cross-check every n-th definite answer with a second solver (0 = never)
	nDefinite int
	Disagree  []string
}

func NewCtx(ts *TermStore) *Ctx {
	c := &Ctx{ts: ts, branchTO: 10 * time.Second, assertTO: 60 * time.Second}
	c.stats.Queries = map[string]int{}
	return c
}

func (c *Ctx) ensureMain() {
	if c.main != nil && !c.main.dead {
		return
	}
	if c.main != nil {
		c.main.close()
		c.stats.Restarts++
		c.stats.Errors += c.main.errs
	}
	s, err := startSolver("z3")
	if err != nil {
		panic(engineError{"cannot start z3: " + err.Error()})
	}
	c.main = s
	for _, t := range c.pc {
		s.push()
		s.assert(t)
	}
}

func (c *Ctx) Close() {
	if c.main != nil {
		c.stats.Errors += c.main.errs
		c.main.close()
		c.main = nil
	}
}

func (c *Ctx) ResetPath() {
	if c.main != nil && !c.main.dead {
		c.main.pop(len(c.pc))
	}
	c.pc = c.pc[:0]
}

func (c *Ctx) AddPC(t *Term) {
	if t.IsTrue() {
		return
	}
	c.pc = append(c.pc, t)
	if c.main != nil && !c.main.dead {
		c.main.push()
		c.main.assert(t)
	}
}

func (c *Ctx) pcHard() bool {
	for _, t := range c.pc {
		if t.hard {
			return true
		}
	}
	return false
}

func (c *Ctx) record(solver string, r SatResult, d time.Duration) {
	c.stats.Queries[solver+"/"+r.String()]++
	c.stats.SolverS += d.Seconds()
}

// oneShot runs the whole query (pc + extra) in a fresh process of the given kind. The process
// is registered in procs so that a racing caller can kill it.
func (c *Ctx) oneShot(kind string, extra *Term, timeout time.Duration, want []*Term) (SatResult, map[*Term]string) {
	r, vals, _ := c.oneShotK(kind, extra, timeout, want, nil)
	return r, vals
}

func (c *Ctx) oneShotK(kind string, extra *Term, timeout time.Duration, want []*Term, started func(*SolverProc)) (SatResult, map[*Term]string, time.Duration) {
	t0 := time.Now()
	s, err := startSolver(kind)
	if err != nil {
		return Unknown, nil, 0
	}
	if started != nil {
		started(s)
	}
	defer s.close()
	for _, t := range c.pc {
		s.assert(t)
	}
	if extra != nil {
		s.assert(extra)
	}
	if len(want) > 0 {
		// the terms whose values are wanted are defined before check-sat: cvc5 evaluates terms
		// introduced after the check against a stale model (observed: all-zero values)
		var sb strings.Builder
		for _, t := range want {
			s.define(t, &sb)
		}
		if sb.Len() > 0 {
			s.send(sb.String())
		}
	}
	r := s.check(timeout)
	var vals map[*Term]string
	if r == Sat && want != nil {
		v, ok := s.getValues(want)
		if ok {
			vals = v
		} else {
			r = Unknown
		}
	}
	if s.errs > 0 {
		r = Unknown
	}
	return r, vals, time.Since(t0)
}

// race runs several one-shot solvers concurrently; the first definite answer wins.
func (c *Ctx) race(kinds []string, extra *Term, timeout time.Duration, want []*Term) (SatResult, map[*Term]string, string) {
	type ans struct {
		kind string
		r    SatResult
		vals map[*Term]string
		d    time.Duration
	}
	ch := make(chan ans, len(kinds))
	var mu sync.Mutex
	var procs []*SolverProc
	killed := false
	for _, k := range kinds {
		k := k
		go func() {
			r, vals, d := c.oneShotK(k, extra, timeout, want, func(s *SolverProc) {
				mu.Lock()
				procs = append(procs, s)
				dead := killed
				mu.Unlock()
				if dead && s.cmd.Process != nil {
					s.cmd.Process.Kill()
				}
			})
			ch <- ans{k, r, vals, d}
		}()
	}
	var win ans
	win.r = Unknown
	got := 0
	for got < len(kinds) {
		a := <-ch
		got++
		if a.r != Unknown && win.r == Unknown {
			win = a
			c.record(a.kind, a.r, a.d)
			mu.Lock()
			killed = true
			for _, p := range procs {
				if p.cmd.Process != nil {
					p.cmd.Process.Kill()
				}
			}
			mu.Unlock()
		} else if win.r == Unknown {
			c.record(a.kind, a.r, a.d)
		}
	}
	return win.r, win.vals, win.kind
}

func (c *Ctx) mainCheck(extra *Term, timeout time.Duration, want []*Term) (SatResult, map[*Term]string) {
	c.ensureMain()
	t0 := time.Now()
	s := c.main
	s.push()
	if extra != nil {
		s.assert(extra)
	}
	r := s.check(timeout)
	var vals map[*Term]string
	if r == Sat && want != nil {
		v, ok := s.getValues(want)
		if ok {
			vals = v
		} else {
			r = Unknown
		}
	}
	if !s.dead {
		s.pop(1)
	}
	if s.errs > 0 {
		c.stats.Errors += s.errs
		s.errs = 0
		r = Unknown
	}
	c.record("z3", r, time.Since(t0))
	return r, vals
}

// Check decides satisfiability of pc ∧ extra. want (optional) are terms whose model values are
// returned on sat.
func (c *Ctx) Check(extra *Term, timeout time.Duration, want []*Term) (SatResult, map[*Term]string) {
	if d := os.Getenv("GOSYM_DUMP"); d != "" {
		t0 := time.Now()
		defer func() {
			if el := time.Since(t0); el > 2*time.Second {
				dumpSeq++
				os.WriteFile(fmt.Sprintf("%s/q%d_%dms.smt2", d, dumpSeq, el.Milliseconds()), []byte(c.Dump(extra)), 0o644)
			}
		}()
	}
	if extra != nil {
		if extra.IsFalse() {
			return Unsat, nil
		}
	}
	hard := (extra != nil && extra.hard) || c.pcHard()
	if hard {
		r, vals, _ := c.race([]string{"z3", "cvc5-int", "cvc5"}, extra, timeout, want)
		return r, vals
	}
	// The incremental session answers the many easy queries in milliseconds; anything it cannot
	// decide quickly goes to one-shot processes (full preprocessing), raced across back ends.
	quick := 1500 * time.Millisecond
	if quick > timeout {
		quick = timeout
	}
	r, vals := c.mainCheck(extra, quick, want)
	if r == Unknown {
		r, vals, _ = c.race([]string{"z3", "cvc5-int", "cvc5"}, extra, timeout, want)
	}
	if r != Unknown {
		c.nDefinite++
		if c.crossEach > 0 && c.nDefinite%c.crossEach == 0 {
			r2, _ := c.oneShot("cvc5", extra, timeout/2, nil)
			if r2 != Unknown && r2 != r {
				c.Disagree = append(c.Disagree, fmt.Sprintf("z3=%s vs cvc5=%s", r, r2))
				return Unknown, nil
			}
		}
	}
	return r, vals
}

// Dump returns the current query as SMT-LIB text (diagnostics).
func (c *Ctx) Dump(extra *Term) string {
	s := &SolverProc{defined: map[int]bool{}, dead: true}
	var sb strings.Builder
	for _, t := range c.pc {
		s.define(t, &sb)
		fmt.Fprintf(&sb, "(assert %s)\n", t.ref())
	}
	if extra != nil {
		s.define(extra, &sb)
		fmt.Fprintf(&sb, "(assert %s)\n", extra.ref())
	}
	sb.WriteString("(check-sat)\n")
	return sb.String()
}

type engineError struct{ msg string }

func (e engineError) Error() string { return e.msg }

var dumpSeq int
