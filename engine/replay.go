package main

// Native replay of counterexamples: the same harness is compiled with the real toolchain
// (go test -overlay) and driven by the tape the solver produced.

import (
	"bufio"
	"bytes"
	"encoding/json"
	"fmt"
	"os"
	"os/exec"
	"path/filepath"
	"regexp"
	"sort"
	"strings"
	"time"
)

type ReplayFile struct {
	Property string       `json:"property"`
	Harness  string       `json:"harness"`
	PkgDir   string       `json:"pkg_dir"`
	Files    []string     `json:"harness_files"`
	Kind     string       `json:"kind"`
	Label    string       `json:"label"`
	Pos      string       `json:"pos"`
	Msg      string       `json:"msg"`
	Tape     []*TapeEntry `json:"tape"`
	Stubs    []StubSpec   `json:"stubs,omitempty"`
	Aux      []AuxFile    `json:"aux,omitempty"`
	Outcome  string       `json:"native_outcome,omitempty"`
	Sched    []string     `json:"sched,omitempty"`
	Switch   []string     `json:"switches,omitempty"`
}

type knownFinding struct {
	Prop, ID, Harness, Label, Desc string
}

func loadKnown(verif string) []knownFinding {
	f, err := os.Open(filepath.Join(verif, "known_findings.txt"))
	if err != nil {
		return nil
	}
	defer f.Close()
	var out []knownFinding
	sc := bufio.NewScanner(f)
	for sc.Scan() {
		line := strings.TrimSpace(sc.Text())
		if !strings.HasPrefix(line, "known:") {
			continue
		}
		kf := knownFinding{}
		rest := strings.TrimPrefix(line, "known:")
		if i := strings.Index(rest, "::"); i >= 0 {
			kf.Desc = strings.TrimSpace(rest[i+2:])
			rest = rest[:i]
		}
		for _, p := range strings.Fields(rest) {
			kv := strings.SplitN(p, "=", 2)
			if len(kv) != 2 {
				continue
			}
			switch kv[0] {
			case "property":
				kf.Prop = kv[1]
			case "id":
				kf.ID = kv[1]
			case "harness":
				kf.Harness = kv[1]
			case "label":
				kf.Label = strings.ReplaceAll(kv[1], "%20", " ")
			}
		}
		out = append(out, kf)
	}
	return out
}

// buildReplayBinary compiles the test binary for a package with harness overlay.
func buildReplayBinary(repo string, spec LoadSpec, stubs []StubSpec, harnessNames []string, tmp string) (string, error) {
	return buildReplayBinaryOpt(repo, spec, stubs, harnessNames, tmp, false)
}

// lockSites (set for packages with sched harnesses): Lock / RLock calls in the package under test
// are routed through vLk("L:<file>:<line>", ...), so that the native replay can steer the order of
// lock acquisitions recorded by the engine's scheduler (and perturb it when running free).
var lockSites bool

var reLockCall = regexp.MustCompile(`([A-Za-z_][\w]*(?:\.[A-Za-z_][\w]*)*)\.(Lock|RLock)\(\)`)

func rewriteLockSites(ov map[string][]byte, repo, pkgDir string) error {
	dir := filepath.Join(repo, pkgDir)
	ents, err := os.ReadDir(dir)
	if err != nil {
		return err
	}
	for _, e := range ents {
		n := e.Name()
		if !strings.HasSuffix(n, ".go") || strings.HasSuffix(n, "_test.go") || strings.HasPrefix(n, "zz_verif_") {
			continue
		}
		p := filepath.Join(dir, n)
		src, ok := ov[p]
		if !ok {
			src, err = os.ReadFile(p)
			if err != nil {
				return err
			}
		}
		if !bytes.Contains(src, []byte("Lock()")) {
			continue
		}
		lines := strings.Split(string(src), "\n")
		changed := false
		for i, l := range lines {
			t := strings.TrimSpace(l)
			if strings.HasPrefix(t, "//") || strings.HasPrefix(t, "func ") || strings.HasPrefix(t, "defer ") || strings.HasPrefix(t, "go ") {
				continue
			}
			tag := fmt.Sprintf("L:%s:%d", filepath.ToSlash(filepath.Join(pkgDir, n)), i+1)
			nl := reLockCall.ReplaceAllString(l, `vLk("`+tag+`", ${1}.${2})`)
			if nl != l {
				lines[i] = nl
				changed = true
			}
		}
		if changed {
			ov[p] = []byte(strings.Join(lines, "\n"))
		}
	}
	return nil
}

func buildReplayBinaryOpt(repo string, spec LoadSpec, stubs []StubSpec, harnessNames []string, tmp string, race bool) (string, error) {
	pkgName, err := specPackageName(spec)
	if err != nil {
		return "", err
	}
	ov, err := overlayFor(spec, pkgName)
	if err != nil {
		return "", err
	}
	dir := filepath.Join(repo, spec.PkgDir)
	// replay test
	var sb strings.Builder
	sb.WriteString("//go:build verif\n\npackage " + pkgName + "\n\nimport (\n\tvos \"os\"\n\tvtesting \"testing\"\n\tvfmt \"fmt\"\n)\n\n")
	sb.WriteString("func TestVerifReplay(t *vtesting.T) {\n\tfns := map[string]func(){\n")
	for _, n := range harnessNames {
		fmt.Fprintf(&sb, "\t\t%q: %s,\n", n, n)
	}
	sb.WriteString("\t}\n\tfn := fns[vos.Getenv(\"VERIF_HARNESS\")]\n\tif fn == nil {\n\t\tt.Fatal(\"VERIF-REPLAY-OUTCOME: diverge:no such harness\")\n\t}\n")
	sb.WriteString("\tout := vRun(fn)\n\tvfmt.Println(\"VERIF-REPLAY-OUTCOME: \" + out)\n\tif out != \"ok\" {\n\t\tt.Fail()\n\t}\n}\n")
	ov[filepath.Join(dir, "zz_verif_replay_test.go")] = []byte(sb.String())
	// textual redirection of cut call sites
	for _, ss := range stubs {
		if len(ss.Files) == 0 {
			continue
		}
		pat := ss.Target
		if i := strings.LastIndex(pat, "/"); i >= 0 {
			pat = pat[i+1:]
		}
		sdir := dir
		spkgName := pkgName
		if ss.Dir != "" && ss.Dir != spec.PkgDir {
			sdir = filepath.Join(repo, ss.Dir)
			spkgName = ""
		}
		repl := ss.Stub
		if ss.As != "" {
			repl = ss.As
		}
		// same-package function: drop the package qualifier
		if spkgName != "" && strings.HasPrefix(pat, spkgName+".") {
			pat = strings.TrimPrefix(pat, spkgName+".")
		}
		re := regexp.MustCompile(`(^|[^\w.])` + regexp.QuoteMeta(pat) + `\(`)
		var reM, reM0 *regexp.Regexp
		if ss.Method != "" {
			reM = regexp.MustCompile(`([A-Za-z_][\w.]*)\.` + regexp.QuoteMeta(ss.Method) + `\(`)
			reM0 = regexp.MustCompile(`([A-Za-z_][\w.]*)\.` + regexp.QuoteMeta(ss.Method) + `\(\)`)
		}
		files := ss.Files
		if len(files) == 1 && files[0] == "*" {
			files = nil
			ents, _ := os.ReadDir(sdir)
			for _, e := range ents {
				n := e.Name()
				if strings.HasSuffix(n, ".go") && !strings.HasSuffix(n, "_test.go") && !strings.HasPrefix(n, "zz_verif_") {
					files = append(files, n)
				}
			}
		}
		for _, f := range files {
			p := filepath.Join(sdir, f)
			src, ok := ov[p]
			if !ok {
				src, err = os.ReadFile(p)
				if err != nil {
					return "", err
				}
			}
			lines := strings.Split(string(src), "\n")
			for i, l := range lines {
				if strings.HasPrefix(strings.TrimSpace(l), "func "+pat+"(") {
					continue
				}
				if reM != nil {
					l = reM0.ReplaceAllString(l, repl+"(${1})")
					lines[i] = reM.ReplaceAllString(l, repl+"(${1}, ")
					continue
				}
				lines[i] = re.ReplaceAllString(l, "${1}"+repl+"(")
			}
			out := strings.Join(lines, "\n")
			if out == string(src) {
				continue
			}
			if reM == nil && strings.Contains(pat, ".") {
				out += "\n\nvar _ = " + pat + "\n"
			}
			ov[p] = []byte(out)
		}
	}
	if lockSites {
		if err := rewriteLockSites(ov, repo, spec.PkgDir); err != nil {
			return "", err
		}
	}
	needLink := false
	for _, v := range ov {
		if bytes.Contains(v, []byte("//go:linkname")) {
			needLink = true
		}
	}
	if needLink {
		ov[filepath.Join(dir, "zz_verif_empty.s")] = []byte("// allows bodiless (linknamed) function declarations\n")
	}
	repl := map[string]string{}
	i := 0
	for k, v := range ov {
		real := filepath.Join(tmp, fmt.Sprintf("ov%d_%s", i, filepath.Base(k)))
		i++
		if err := os.WriteFile(real, v, 0o644); err != nil {
			return "", err
		}
		repl[k] = real
	}
	ovb, _ := json.Marshal(map[string]any{"Replace": repl})
	ovPath := filepath.Join(tmp, "overlay.json")
	if err := os.WriteFile(ovPath, ovb, 0o644); err != nil {
		return "", err
	}
	bin := filepath.Join(tmp, "replay.test")
	args := []string{"test", "-tags", "verif", "-vet=off", "-c", "-o", bin, "-overlay", ovPath}
	if race {
		bin = filepath.Join(tmp, "replay-race.test")
		args = []string{"test", "-race", "-tags", "verif", "-vet=off", "-c", "-o", bin, "-overlay", ovPath}
	}
	if needLink {
		args = append(args, "-ldflags=-checklinkname=0")
	}
	args = append(args, "./"+spec.PkgDir)
	cmd := exec.Command("go", args...)
	cmd.Dir = repo
	cmd.Env = append(os.Environ(), "GOFLAGS=-mod=mod", "GOPROXY=off", "GOSUMDB=off", "GOTOOLCHAIN=local")
	outb, err := cmd.CombinedOutput()
	if err != nil {
		return "", fmt.Errorf("go test -c failed: %v\n%s", err, tail(string(outb), 3000))
	}
	return bin, nil
}

func tail(s string, n int) string {
	if len(s) > n {
		return s[len(s)-n:]
	}
	return s
}

var reOutcome = regexp.MustCompile(`VERIF-REPLAY-OUTCOME: (.*)`)

func runReplayBinary(bin, repo, pkgDir, harness, tapePath string) string {
	return runReplayBinaryOpt(bin, repo, pkgDir, harness, tapePath, "120s", false)
}

func runReplayBinaryOpt(bin, repo, pkgDir, harness, tapePath, timeout string, freeSched bool) string {
	cmd := exec.Command(bin, "-test.run", "^TestVerifReplay$", "-test.count=1", "-test.timeout="+timeout)
	cmd.Dir = filepath.Join(repo, pkgDir)
	cmd.Env = append(os.Environ(), "VERIF_TAPE="+tapePath, "VERIF_HARNESS="+harness, "VERIF_TIER="+replayTier)
	if freeSched {
		cmd.Env = append(cmd.Env, "VERIF_FREE_SCHED=1")
	}
	var buf bytes.Buffer
	cmd.Stdout = &buf
	cmd.Stderr = &buf
	done := make(chan error, 1)
	cmd.Start()
	go func() { done <- cmd.Wait() }()
	select {
	case <-done:
	case <-time.After(150 * time.Second):
		cmd.Process.Kill()
		return "timeout"
	}
	out := buf.String()
	if strings.Contains(out, "WARNING: DATA RACE") {
		return "race"
	}
	if strings.Contains(out, "panic: test timed out") {
		return "hang:test timed out"
	}
	if m := reOutcome.FindStringSubmatch(out); m != nil {
		return strings.TrimSpace(m[1])
	}
	if strings.Contains(out, "panic:") || strings.Contains(out, "fatal error:") {
		i := strings.Index(out, "panic:")
		if i < 0 {
			i = strings.Index(out, "fatal error:")
		}
		l := out[i:]
		if j := strings.Index(l, "\n"); j >= 0 {
			l = l[:j]
		}
		return "panic:" + strings.TrimPrefix(l, "panic:")
	}
	return "no-outcome:" + tail(out, 300)
}

func reproduced(v *Violation, outcome string) bool {
	switch v.Kind {
	case "assert", "fail":
		return outcome == "assert-fail:"+v.Label
	case "panic", "fatal":
		return strings.HasPrefix(outcome, "panic:")
	case "race":
		return outcome == "race"
	case "deadlock":
		return strings.HasPrefix(outcome, "hang:") || strings.Contains(outcome, "all goroutines are asleep")
	}
	return false
}

func (rep *CheckReport) replayAll(o *checkOpts) {
	known := loadKnown(o.verif)
	for _, g := range rep.Groups {
		if g.err != nil || g.P == nil {
			continue
		}
		var vs []*Violation
		seen := map[string]int{}
		for _, hr := range g.results {
			for _, v := range hr.Violations {
				k := v.Harness + "|" + v.Label + "|" + v.Pos
				if seen[k] >= 2 {
					continue
				}
				seen[k]++
				vs = append(vs, v)
			}
		}
		if len(vs) == 0 {
			if o.buildReplay {
				tmp, err := os.MkdirTemp("", "gosym-replay-")
				if err == nil {
					lockSites = false
					for _, hd := range g.P.harness {
						if hd.Opts["sched"] == "1" {
							lockSites = true
						}
					}
					if _, err := buildReplayBinary(o.repo, g.spec, g.P.stubSpec, g.P.harnessNames(), tmp); err != nil {
						rep.Problems = append(rep.Problems, "replay build: "+err.Error())
					}
					os.RemoveAll(tmp)
				}
			}
			continue
		}
		tmp, err := os.MkdirTemp("", "gosym-replay-")
		if err != nil {
			rep.Problems = append(rep.Problems, "replay: "+err.Error())
			continue
		}
		lockSites = false
		for _, hd := range g.P.harness {
			if hd.Opts["sched"] == "1" {
				lockSites = true
			}
		}
		bin, err := buildReplayBinary(o.repo, g.spec, g.P.stubSpec, g.P.harnessNames(), tmp)
		if err != nil {
			rep.Problems = append(rep.Problems, "replay build: "+err.Error())
			os.RemoveAll(tmp)
			continue
		}
		rdir := filepath.Join(o.verif, "replay", rep.Prop)
		os.MkdirAll(rdir, 0o755)
		perKey := map[string]bool{}
		raceBin, raceErr := "", error(nil)
		sort.SliceStable(vs, func(i, j int) bool { return vs[i].Harness+vs[i].Label < vs[j].Harness+vs[j].Label })
		for i, v := range vs {
			rf := &ReplayFile{Property: rep.Prop, Harness: v.Harness, PkgDir: g.spec.PkgDir, Kind: v.Kind, Label: v.Label, Pos: v.Pos, Msg: v.Msg, Tape: v.Tape, Stubs: g.P.stubSpec, Aux: g.spec.Aux, Sched: v.Sched, Switch: v.Switch}
			for _, f := range g.spec.Files {
				rf.Files = append(rf.Files, f)
			}
			path := filepath.Join(rdir, fmt.Sprintf("%s-%d.json", v.Harness, i))
			b, _ := json.MarshalIndent(rf, "", " ")
			os.WriteFile(path, b, 0o644)
			rbin, timeout := bin, "120s"
			hd := g.P.harness[v.Harness]
			isSched := hd != nil && optInt(hd.Opts, o.tier, "sched", 0) != 0
			if v.Kind == "race" {
				if raceBin == "" && raceErr == nil {
					raceBin, raceErr = buildReplayBinaryOpt(o.repo, g.spec, g.P.stubSpec, g.P.harnessNames(), tmp, true)
				}
				if raceErr != nil {
					rep.Problems = append(rep.Problems, "replay build (-race): "+raceErr.Error())
					continue
				}
				rbin = raceBin
			}
			if v.Kind == "deadlock" {
				timeout = "8s"
			}
			outcome := runReplayBinaryOpt(rbin, o.repo, g.spec.PkgDir, v.Harness, path, timeout, false)
			// harnesses whose outcome depends on Go's randomised map iteration order or on the
			// scheduler are replayed several times (sched harnesses: first steered by the recorded
			// order of vSched events, then free-running with perturbation)
			if hd != nil && !reproduced(v, outcome) {
				def := 1
				if isSched {
					def = 40
				}
				for n := optInt(hd.Opts, o.tier, "replays", def); n > 1 && !reproduced(v, outcome); n-- {
					outcome = runReplayBinaryOpt(rbin, o.repo, g.spec.PkgDir, v.Harness, path, timeout, isSched && n%2 == 0)
				}
			}
			rf.Outcome = outcome
			b, _ = json.MarshalIndent(rf, "", " ")
			os.WriteFile(path, b, 0o644)
			cv := &ConfirmedViolation{V: v, Replay: path, Outcome: outcome}
			key := v.Harness + "|" + v.Label + "|" + v.Pos
			if reproduced(v, outcome) {
				isKnown := false
				for _, kf := range known {
					if kf.Prop == rep.Prop && kf.Harness == v.Harness && kf.Label == v.Label {
						cv.KnownID = kf.ID + " " + kf.Desc
						isKnown = true
					}
				}
				if perKey[key] {
					continue
				}
				perKey[key] = true
				if isKnown {
					rep.Known = append(rep.Known, cv)
				} else {
					rep.Confirmed = append(rep.Confirmed, cv)
				}
			} else {
				rep.Unconf = append(rep.Unconf, cv)
			}
		}
		os.RemoveAll(tmp)
	}
}

func cmdReplay(args []string) int {
	if len(args) < 1 {
		fmt.Fprintln(os.Stderr, "usage: gosym replay <file> [--repo /repo] [--verif /verif]")
		return 2
	}
	repo, verif := "/repo", "/verif"
	for i := 1; i+1 < len(args); i += 2 {
		switch args[i] {
		case "--repo", "-repo":
			repo = args[i+1]
		case "--verif", "-verif":
			verif = args[i+1]
		}
	}
	rtTemplatePath = filepath.Join(verif, "harness", "rt", "rt.go.tmpl")
	b, err := os.ReadFile(args[0])
	if err != nil {
		fmt.Fprintln(os.Stderr, err)
		return 2
	}
	var rf ReplayFile
	if err := json.Unmarshal(b, &rf); err != nil {
		fmt.Fprintln(os.Stderr, err)
		return 2
	}
	tmp, err := os.MkdirTemp("", "gosym-replay-")
	if err != nil {
		fmt.Fprintln(os.Stderr, err)
		return 2
	}
	defer os.RemoveAll(tmp)
	// harness names: scan files
	var names []string
	reH := regexp.MustCompile(`(?m)^func (Harness_\w+)\(`)
	for _, f := range rf.Files {
		src, err := os.ReadFile(f)
		if err != nil {
			fmt.Fprintln(os.Stderr, err)
			return 2
		}
		for _, m := range reH.FindAllSubmatch(src, -1) {
			names = append(names, string(m[1]))
		}
	}
	lockSites = len(rf.Sched) > 0 || rf.Kind == "race" || rf.Kind == "deadlock"
	bin, err := buildReplayBinaryOpt(repo, LoadSpec{RepoDir: repo, PkgDir: rf.PkgDir, Files: rf.Files, Aux: rf.Aux}, rf.Stubs, names, tmp, rf.Kind == "race")
	if err != nil {
		fmt.Fprintln(os.Stderr, err)
		return 2
	}
	outcome := runReplayBinary(bin, repo, rf.PkgDir, rf.Harness, args[0])
	fmt.Printf("native outcome: %s\n", outcome)
	v := &Violation{Kind: rf.Kind, Label: rf.Label}
	if reproduced(v, outcome) {
		fmt.Printf("VIOLATION property=%s replay=%s\n", rf.Property, args[0])
		return 1
	}
	fmt.Println("not reproduced")
	return 0
}

func cmdSelftest(args []string) int {
	fmt.Println("selftest: see `gosym check SELF`")
	return 0
}

var replayTier = "quick"
