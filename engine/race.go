package main

// Happens-before data-race detection for sched mode (harness option race=1).
//
// Vector clocks per goroutine and per synchronisation object; every load / store through a
// pointer and every map operation is checked against the last write and the reads since then
// (the classic DJIT+ scheme; precise: it reports only pairs of conflicting accesses that are not
// ordered by happens-before, i.e. real data races under the Go memory model, given that every
// synchronisation the program uses is modelled with its happens-before edges: go, channels,
// Mutex, RWMutex, WaitGroup, Once, sync/atomic).  Accesses performed inside engine models
// (copy, append, reflect, formatting) are not tracked, so races through them are missed.

import (
	"fmt"
)

type vclock []int32

func (v vclock) clone() vclock { return append(vclock(nil), v...) }

func (v vclock) get(i int) int32 {
	if i < len(v) {
		return v[i]
	}
	return 0
}

func (v *vclock) set(i int, x int32) {
	for len(*v) <= i {
		*v = append(*v, 0)
	}
	(*v)[i] = x
}

func (v *vclock) inc(i int) { v.set(i, v.get(i)+1) }

func (v *vclock) join(o vclock) {
	for i, x := range o {
		if x > v.get(i) {
			v.set(i, x)
		}
	}
}

func (in *Interp) hbRelease(g *gor, obj *vclock) {
	if !in.sch.on {
		return
	}
	obj.join(g.vc)
	g.vc.inc(g.id)
}

func (in *Interp) hbAcquire(g *gor, obj *vclock) {
	if !in.sch.on {
		return
	}
	g.vc.join(*obj)
}

type access struct {
	g   int
	c   int32
	pos string
}

type shadow struct {
	w     access
	hasW  bool
	reads []access
}

type raceState struct {
	mem  map[any]*shadow
	skip int
	atom map[any]*vclock
}

func newRaceState() *raceState {
	return &raceState{mem: map[any]*shadow{}, atom: map[any]*vclock{}}
}

func (in *Interp) raceRead(loc any)  { in.raceAccess(loc, false) }
func (in *Interp) raceWrite(loc any) { in.raceAccess(loc, true) }

func (in *Interp) raceAccess(loc any, write bool) {
	rs := in.sch.race
	if rs == nil || rs.skip > 0 || len(in.sch.gs) == 1 {
		return
	}
	g := in.sch.cur
	sh := rs.mem[loc]
	if sh == nil {
		sh = &shadow{}
		rs.mem[loc] = sh
	}
	pos := ""
	if in.curFrame != nil && in.curFrame.fn != nil {
		pos = in.curFrame.pos()
	}
	if sh.hasW && sh.w.g != g.id && sh.w.c > g.vc.get(sh.w.g) {
		in.reportRace(sh.w, "write", g, pos, write)
	}
	if write {
		for _, r := range sh.reads {
			if r.g != g.id && r.c > g.vc.get(r.g) {
				in.reportRace(r, "read", g, pos, true)
			}
		}
		sh.w = access{g.id, g.vc.get(g.id), pos}
		sh.hasW = true
		sh.reads = sh.reads[:0]
		return
	}
	for i := range sh.reads {
		if sh.reads[i].g == g.id {
			sh.reads[i].c = g.vc.get(g.id)
			sh.reads[i].pos = pos
			return
		}
	}
	sh.reads = append(sh.reads, access{g.id, g.vc.get(g.id), pos})
}

func (in *Interp) reportRace(prev access, prevKind string, g *gor, pos string, write bool) {
	kind := "read"
	if write {
		kind = "write"
	}
	msg := fmt.Sprintf("%s at %s by goroutine %d is unordered with the %s at %s by goroutine %d", kind, pos, g.id, prevKind, prev.pos, prev.g)
	in.checkObligation("race", "no data race", in.ts.False, msg)
}

// atomicBegin / atomicEnd bracket a sync/atomic operation on location loc: the access itself is
// not a data race, and it synchronises with the other atomic operations on the same location.
func (in *Interp) atomicBegin(loc any) {
	if !in.sch.on {
		return
	}
	in.schedPoint("atomic")
	rs := in.sch.race
	if rs == nil {
		return
	}
	rs.skip++
	vc := rs.atom[loc]
	if vc == nil {
		vc = &vclock{}
		rs.atom[loc] = vc
	}
	in.hbAcquire(in.sch.cur, vc)
}

func (in *Interp) atomicEnd(loc any) {
	if !in.sch.on {
		return
	}
	rs := in.sch.race
	if rs == nil {
		return
	}
	rs.skip--
	in.hbRelease(in.sch.cur, rs.atom[loc])
}
