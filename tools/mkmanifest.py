#!/usr/bin/env python3
"""Regenerates /verif/MANIFEST.json from the table below (claimed checks) and properties.jsonl."""
import json, os, sys
V = os.path.dirname(os.path.dirname(os.path.abspath(__file__)))
props = [json.loads(l)["id"] for l in open(os.path.join(V, "properties.jsonl"))]

TECH = "bounded symbolic execution of the go/ssa of the real functions -> SMT-LIB2 (z3 / cvc5 / cvc5 int-blasting portfolio), native replay of every counterexample"

TECH_SCHED = TECH + "; for the concurrency harnesses the goroutine interleaving is part of the symbolic executor's decision vector (delay-bounded exploration at synchronisation operations) with a happens-before data-race detector, counterexample schedules steered natively through tagged events and confirmed with go test -race"
SCHED = {"C06", "C13", "C14", "C16", "C17", "C19", "C20"}

# id -> (category, level text, level note, design ref)
CLAIMS = {}
def claim(pid, text, note, ref, category="model_checking"):
    CLAIMS[pid] = (category, text, note, ref)

exec(open(os.path.join(V, "tools", "claims.py")).read())

NA = {}
exec(open(os.path.join(V, "tools", "not_applicable.py")).read())

checks = []
for pid in props:
    if pid not in CLAIMS:
        continue
    cat, text, note, ref = CLAIMS[pid]
    checks.append({
        "property_id": pid,
        "quick_cmd": f"bin/gosym check {pid} --tier quick",
        "thorough_cmd": f"bin/gosym check {pid} --tier thorough",
        "evidence_file": f"evidence/{pid}.json",
        "replay_cmd_template": "bin/gosym replay {path}",
        "engine": "gosym",
        "level_claimed": {"category": cat, "text": text, "design_ref": ref},
        "level_note": note,
        "technique": TECH_SCHED if pid in SCHED else TECH,
    })
na = []
for pid in props:
    if pid in CLAIMS:
        continue
    na.append({"property_id": pid, "reason": NA.get(pid, "check not built yet; no solver-based check has run clean on the unchanged tree so far")})

m = {
    "version": 1,
    "setup_cmd": "mkdir -p bin && cd engine && GOFLAGS=-mod=mod GOPROXY=off GOSUMDB=off GOTOOLCHAIN=local go build -o ../bin/gosym .",
    "hooks": {
        "guard": "verif",
        "enable": "harness files carry //go:build verif and are injected by overlay (packages.Config.Overlay for the SSA load, go test -overlay -tags verif for native replay); nothing is committed to /repo for hooks",
        "baseline_off_cmd": "cd /repo && go test -mod=mod -json -vet=off -count=1 -timeout 25m ./...",
        "source_commits": [],
        "add_only": True,
    },
    "engines": [{
        "name": "gosym",
        "path": "engine",
        "serves_properties": sorted(CLAIMS),
        "kind_free_text": "symbolic interpreter over go/ssa (x/tools v0.29.0) of /repo's current working tree; path conditions and assertions discharged by z3 4.8.12 / cvc5 1.0 (bit-blasting and int-blasting) over SMT-LIB2; counterexamples replayed with go test -overlay",
    }],
    "checks": checks,
    "not_applicable": na,
    "notes": "Exit codes of bin/gosym check: 0 = every obligation unsat within the stated bounds; 1 = counterexample reproduced natively (VIOLATION line); 2 = inconclusive (unsupported construct, solver unknown, bound hit, vacuous harness, counterexample that did not replay). Known findings and fixed defects: known_findings.txt.",
}
json.dump(m, open(os.path.join(V, "MANIFEST.json"), "w"), indent=1)
print("claimed:", sorted(CLAIMS), "not applicable:", [x["property_id"] for x in na])
