#!/bin/bash
# usage: seedcheck.sh <seed-dir> <property> <check-args...>
# 1. confirms in a scratch worktree that the seed builds, passes the existing tests of the touched
#    packages, and that its demonstration fails with the patch and passes without it;
# 2. applies it to /repo, runs the property's check, and reverts /repo.
set -u
export GOFLAGS=-mod=mod GOPROXY=off GOSUMDB=off GOTOOLCHAIN=local
SEED=$1; PROP=$2; shift 2
WT=/tmp/wt_seedcheck_$$
git -C /repo worktree add -q --detach $WT HEAD || exit 9
cleanup() { git -C /repo worktree remove --force $WT 2>/dev/null; }
trap cleanup EXIT
cd $WT
git apply $SEED/patch.diff || { echo "SEED-RESULT apply-failed"; exit 9; }
PKGS=$(git diff --name-only | xargs -n1 dirname | sort -u | sed 's#^#./#')
DEMO=$(ls $SEED/*_test.go | head -1)
DEMODIR=$(grep -o 'go test[^|]*-run Demo[A-Za-z0-9_]* *\./[A-Za-z0-9_/.]*' $SEED/notes.txt | grep -o '\./[A-Za-z0-9_/.]*' | tail -1)
[ -z "$DEMODIR" ] && DEMODIR=$(grep -m1 -o 'go test[^\n]*-run[^\n]*' $SEED/notes.txt | grep -o '\./[A-Za-z0-9_/.]*' | tail -1)
[ -z "$DEMODIR" ] && DEMODIR=$(echo $PKGS | awk '{print $1}')
go build ./... >/dev/null 2>&1 || { echo "SEED-RESULT build-failed"; exit 9; }
if go test -vet=off -count=1 $PKGS >/tmp/seed_tests_$$.log 2>&1; then T=pass; else T=FAIL; fi
cp $DEMO $DEMODIR/
if go test -vet=off -count=1 -run 'Demo' $DEMODIR >/tmp/seed_demo1_$$.log 2>&1; then D1=pass; else D1=fail; fi
git apply -R $SEED/patch.diff
if go test -vet=off -count=1 -run 'Demo' $DEMODIR >/tmp/seed_demo2_$$.log 2>&1; then D2=pass; else D2=fail; fi
echo "SEED-CONFIRM seed=$(basename $SEED) pkgs=[$PKGS] existing-tests=$T demo-with-patch=$D1 demo-without-patch=$D2"
cd $WT && git checkout -q -- . && git clean -fdq && git apply $SEED/patch.diff || exit 9
cd /verif
# the check runs against the patched scratch worktree (same engine, same harnesses), so /repo is
# never touched and several seeds can be checked while other runs use /repo
timeout 1500 bin/gosym check $PROP -noevidence -repo $WT "$@" > /tmp/seed_check_$$.log 2>&1
RC=$?
echo "SEED-CHECK seed=$(basename $SEED) property=$PROP exit=$RC"
grep -A1 "^VIOLATION\|^INCONCLUSIVE" /tmp/seed_check_$$.log | head -12
rm -f /tmp/seed_*_$$.log
