#!/bin/bash
# refcheck.sh <diff> <worktree> <prop>... : apply a behaviour-preserving refactor in a scratch worktree and
# confirm that the listed checks still exit 0 (no false alarm, no INCONCLUSIVE).
diff=$1; wt=$2; shift 2
cd "$wt" || exit 9
git checkout -q . && git clean -fdq
git apply "$diff" || { echo "REF-RESULT $(basename $diff) apply-failed"; exit 9; }
cd /verif
for p in "$@"; do
  s=$(date +%s)
  timeout 1500 bin/gosym check $p --tier quick -noevidence -repo "$wt" > /tmp/ref_$(basename $diff .diff)_$p.out 2>&1
  rc=$?
  echo "REF-RESULT $(basename $diff .diff) $p exit=$rc $(( $(date +%s)-s ))s"
done
cd "$wt" && git checkout -q . && git clean -fdq
