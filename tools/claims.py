claim("C02",
 "Bounded symbolic model checking of ctfe.ValidateChain and ctfe.IsPrecertificate (real SSA): for every NotAfter/now/window instant (full second and nanosecond range of years 0001-9999), every combination of the filter options, extension/EKU sets of up to 2 entries over a 3-element universe, chains of 1-3 submitted certificates, and every verdict of the path builder (error, or up to 2 paths of length n-1..n+2 made of certificates with arbitrary DER identity), the accept/reject verdict and the returned path equal the predicate written from the property statement. Precert detection: up to 3 extensions, arbitrary critical flag and value bytes (length 0-3).",
 "Certificate parsing and x509 path building (Certificate.Verify) are cut and replaced by harness functions returning arbitrary results (S3 cuts, textually redirected for native replay); signature validity, name chaining and CA-bit checks inside x509.Verify are therefore outside this check. Hash = uninterpreted injective function.",
 "DESIGN.md section 3 C02 (H02a-H02c)")
claim("C07",
 "Bounded symbolic model checking of ctfe.parseGetEntriesRange (real SSA): for all int64 start/end, every maximum >= 1 (symbolic divisor, decided by cvc5 int-blasting / z3) and alignment on or off: invalid ranges are rejected, valid ones yield a range that begins at start, is non-empty, ends no later than end and spans at most the maximum.",
 "Form values are decimal tokens (strconv.ParseInt(FormatInt(v)) = v); metrics are no-ops. Found and fixed: a0bb843 (overflow for end near MaxInt64).",
 "DESIGN.md section 3 C07 (H07a)")
claim("C18",
 "Bounded symbolic model checking of the three temporal-window implementations (client.TemporalLogClient.IndexByDate / shardInterval / NewTemporalLogClient, loglist3.LogList.TemporallyCompatible, ctfe.ValidateChain window) on real SSA including the std-lib time.Time code: for all instants with arbitrary seconds (years 0001-9999) and nanoseconds and optional bounds, each component treats t as inside exactly when start <= t < limit (so they agree pairwise); shard lists of 2 shards are accepted iff contiguous and every instant is routed to exactly one shard of the span.",
 "Instants carry no monotonic clock reading and are in UTC (certificate and configuration times); shard lists of length 2; x509 parsing and path building cut in the ctfe harness.",
 "DESIGN.md section 3 C18")
