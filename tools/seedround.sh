#!/bin/bash
# usage: tools/seedround.sh <dir with <Cxx>_<k>.diff/_demo_test.go/.txt> : imports every seed under the next free
# id in seeded/ and runs tools/seedcheck.sh for it (2 lanes); summary in <dir>/summary.txt, mapping in <dir>/map.txt
cd /verif
D=$1
: > $D/map.txt; : > $D/summary.txt
nextid() { p=$1; n=1; while [ -d seeded/${p}_$n ]; do n=$((n+1)); done; echo $n; }
ids=()
for f in $(ls $D/C??_?.diff | sort); do
  src=$(basename $f .diff); p=${src%%_*}; n=$(nextid $p); dst=${p}_$n
  mkdir -p seeded/$dst
  cp $D/$src.diff seeded/$dst/patch.diff; cp $D/${src}_demo_test.go seeded/$dst/zz_demo_test.go; cp $D/$src.txt seeded/$dst/notes.txt
  echo "$src -> $dst" >> $D/map.txt; ids+=($dst)
done
lane() { for s in "$@"; do p=${s%%_*}; tools/seedcheck.sh /verif/seeded/$s $p > $D/check_$s.out 2>&1; grep "SEED-CONFIRM\|SEED-CHECK\|SEED-RESULT" $D/check_$s.out >> $D/summary.txt; done; }
a=(); b=(); i=0
for s in "${ids[@]}"; do if [ $((i%2)) -eq 0 ]; then a+=($s); else b+=($s); fi; i=$((i+1)); done
lane "${a[@]}" & lane "${b[@]}" & wait
echo DONE >> $D/summary.txt
