#!/bin/bash
# Re-runs every kept seed against the check of its property (in scratch worktrees) and prints one line per
# seed: the check's exit code must be 1 (violation reproduced). usage: tools/seedall.sh [lanes]
cd /verif
LANES=${1:-3}
OUT=/tmp/seedall_summary.txt
: > $OUT
seeds=$(for d in $(ls seeded | sort); do grep -q '"retired"' seeded/$d/meta.json 2>/dev/null || echo $d; done)
run_lane() {
  for s in "$@"; do
    p=${s%%_*}
    r=$(tools/seedcheck.sh /verif/seeded/$s $p 2>&1 | grep "SEED-CHECK" | head -1)
    echo "$r" >> $OUT
  done
}
i=0
declare -a lane
for s in $seeds; do lane[$((i % LANES))]+="$s "; i=$((i+1)); done
for l in $(seq 0 $((LANES-1))); do run_lane ${lane[$l]} & done
wait
echo DONE >> $OUT
grep -c "exit=1" $OUT
grep -v "exit=1" $OUT
