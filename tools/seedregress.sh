#!/bin/bash
# Fast regression over every kept seed: applies the patch in a scratch worktree and runs the property's check
# against it (the confirmation steps of tools/seedcheck.sh -- build, existing tests, demonstration -- were done
# when the seed was kept and are skipped). One line per seed in /tmp/seedregress_summary.txt; exit code of the
# check must be 1. usage: tools/seedregress.sh [lanes]
cd /verif
LANES=${1:-4}
OUT=/tmp/seedregress_summary.txt
: > $OUT
seeds=$(for d in $(ls seeded | sort); do grep -q '"retired"' seeded/$d/meta.json 2>/dev/null || echo $d; done)
run_lane() {
  lane=$1; shift
  for s in "$@"; do
    p=${s%%_*}
    WT=/tmp/wt_regress_$lane
    git -C /repo worktree remove --force $WT 2>/dev/null
    git -C /repo worktree add -q --detach $WT HEAD || { echo "SEED-REGRESS seed=$s worktree-failed" >> $OUT; continue; }
    if (cd $WT && git apply /verif/seeded/$s/patch.diff 2>/dev/null); then
      timeout 1500 bin/gosym check $p -noevidence -repo $WT > /tmp/seedregress_$s.out 2>&1
      echo "SEED-REGRESS seed=$s property=$p exit=$?" >> $OUT
    else
      echo "SEED-REGRESS seed=$s apply-failed" >> $OUT
    fi
    git -C /repo worktree remove --force $WT 2>/dev/null
  done
}
# all seeds of one property go to one lane (checks of one property share /verif/replay/<property>/);
# properties are dealt to the lanes in an order that balances their running times
declare -a lane
i=0
for p in C16 C20 C01 C13 C10 C15 C11 C03 C02 C17 C14 C06 C08 C07 C18 C12 C05 C04 C09 C19; do
  for s in $seeds; do [ "${s%%_*}" = "$p" ] && lane[$((i % LANES))]+="$s "; done
  i=$((i+1))
done
for l in $(seq 0 $((LANES-1))); do run_lane $l ${lane[$l]} & done
wait
echo DONE >> $OUT
echo "caught: $(grep -c 'exit=1' $OUT) of $(ls seeded | wc -l)"
grep -v "exit=1" $OUT
